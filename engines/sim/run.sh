#!/usr/bin/env bash
# Runner of engine `sim` (called by /verif/check; env: CARGO_TARGET_DIR, VERIF_ROOT, VERIF_REPO).
#
# The simulator compiles every Hydro program into a dylib through a trybuild project that it
# derives from this package at *run time*:
#   * project + target dir: $CARGO_TARGET_DIR/hydro_trybuild/vsim  (i.e. $VERIF_ROOT/target/sim/..)
#   * source crate: found from CARGO_MANIFEST_DIR = ./progs (crate `vsim`, the staged programs);
#     the process also runs with that directory as cwd because trybuild canonicalises the
#     relative path dependencies against the cwd
# RUSTFLAGS is dropped for the run: hydro_lang's trybuild driver disables its per-program build
# cache when RUSTFLAGS is set (every program would be recompiled on every run).  The harness
# binary itself was already built with `--cfg hydro_project_hydro_verif` by build.sh.
# stderr (cargo progress of the trybuild builds, bolero's per-run statistics) goes to a log file
# under $VERIF_ROOT/work/sim; its tail is shown when the run does not exit 0.
set -uo pipefail
here="$(cd "$(dirname "$0")" && pwd)"
root="${VERIF_ROOT:-$(cd "$here/../.." && pwd)}"
export VERIF_ROOT="$root"
export CARGO_TARGET_DIR="${CARGO_TARGET_DIR:-$root/target/sim}"
export CARGO_MANIFEST_DIR="$here/progs"
export CARGO_NET_OFFLINE=true
export TMPDIR="$root/work/sim/tmp"
mkdir -p "$TMPDIR"
unset RUSTFLAGS BOLERO_FUZZER HYDRO_SIM_LOG RUST_LOG CARGO_BUILD_TARGET || true
export NO_COLOR=1
prop=unknown
prev=
for a in "$@"; do
  if [ "$prev" = "--prop" ]; then prop="$a"; fi
  prev="$a"
done
log="$root/work/sim/stderr-$prop.log"
cd "$here/progs"
out="$root/work/sim/stdout-$prop-$$.txt"
"$CARGO_TARGET_DIR/release/sim" "$@" >"$out" 2>"$log"
rc=$?
if [ $rc -eq 2 ] && grep -q "unexpected recompilation in final build" "$log"; then
  # The repository sources changed after hydro_lang's trybuild driver stamped its shared
  # dependency prebuild as fresh (e.g. a concurrent commit under the repository): reset the
  # stamp so the prebuild runs again, and retry once (the first attempt's output is dropped).
  : > "$CARGO_TARGET_DIR/.prebuild.lock"
  "$CARGO_TARGET_DIR/release/sim" "$@" >"$out" 2>"$log"
  rc=$?
fi
cat "$out"
rm -f "$out"
if [ $rc -ne 0 ]; then
  echo "---- tail of $log ----" >&2
  tail -n 30 "$log" >&2
fi
# temp copies of loaded dylibs are removed by the harness on exit; sweep leftovers
find "$TMPDIR" -maxdepth 1 -type f -mmin +120 -delete 2>/dev/null || true
exit $rc
