#!/usr/bin/env bash
# Runner of engine `sim` (called by /verif/check; env: CARGO_TARGET_DIR, VERIF_ROOT, VERIF_REPO).
#
# The simulator compiles every Hydro program into a dylib through a trybuild project that it
# derives from this package at *run time*:
#   * project + target dir: $CARGO_TARGET_DIR/hydro_trybuild/vsim  (i.e. $VERIF_ROOT/target/sim/..)
#   * source crate: found from CARGO_MANIFEST_DIR (this directory)
# RUSTFLAGS is dropped for the run: hydro_lang's trybuild driver disables its per-program build
# cache when RUSTFLAGS is set (every program would be recompiled on every run).  The harness
# binary itself was already built with `--cfg hydro_project_hydro_verif` by build.sh.
set -euo pipefail
here="$(cd "$(dirname "$0")" && pwd)"
root="${VERIF_ROOT:-$(cd "$here/../.." && pwd)}"
export CARGO_TARGET_DIR="${CARGO_TARGET_DIR:-$root/target/sim}"
export CARGO_MANIFEST_DIR="$here"
export CARGO_NET_OFFLINE=true
export TMPDIR="$root/work/sim/tmp"
mkdir -p "$TMPDIR"
unset RUSTFLAGS BOLERO_FUZZER HYDRO_SIM_LOG RUST_LOG CARGO_BUILD_TARGET || true
export NO_COLOR=1
cd "$here"
exec "$CARGO_TARGET_DIR/release/sim" "$@"
