//! `vsim`: the staged (stageleft) half of engine E6 `sim` — only Hydro programs live here, so the
//! trybuild crate the simulator generates depends on as little harness code as possible.
//! The harness itself is the `sim` binary (src/main.rs and its modules).

#[cfg(stageleft_runtime)]
hydro_lang::setup!();

pub mod progs;
