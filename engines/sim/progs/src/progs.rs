//! Small Hydro programs run through `flow.sim().compiled()`.
//!
//! Conventions: every tick / slice emits its *raw observation* (the batch as a `Vec`, the
//! snapshot value, the state value) as one element of the output stream, so the harness can
//! read the simulator's release decisions off the outputs.

use hydro_lang::live_collections::stream::{ExactlyOnce, NoOrder, TotalOrder};
use hydro_lang::location::{Location, MemberId};
use hydro_lang::prelude::*;
use hydro_lang::sim::{SimClusterReceiver, SimClusterSender, SimReceiver, SimSender};

pub type OrdSend<T> = SimSender<T, TotalOrder, ExactlyOnce>;
pub type NoSend<T> = SimSender<T, NoOrder, ExactlyOnce>;
pub type OrdRecv<T> = SimReceiver<T, TotalOrder, ExactlyOnce>;
pub type NoRecv<T> = SimReceiver<T, NoOrder, ExactlyOnce>;

// ---------------------------------------------------------------------------------------------
// batching / snapshots (C36, C37, C31, C38)
// ---------------------------------------------------------------------------------------------

/// Ordered batch; every tick's batch is exposed as one `Vec`.
pub fn batch_ordered<'a>(node: &Process<'a>) -> (OrdSend<i32>, OrdRecv<Vec<i32>>) {
    let tick = node.tick();
    let (send, input) = node.sim_input();
    let out = input
        .batch(&tick, nondet!(/** verif: batching is the decision under test */))
        .collect_vec()
        .into_stream()
        .all_ticks()
        .sim_output();
    (send, out)
}

/// Unordered batch; every tick's batch is exposed as one sorted `Vec` (a multiset).
pub fn batch_unordered<'a>(node: &Process<'a>) -> (NoSend<i32>, OrdRecv<Vec<i32>>) {
    let tick = node.tick();
    let (send, input) = node.sim_input::<i32, NoOrder, ExactlyOnce>();
    let out = input
        .batch(&tick, nondet!(/** verif: batching is the decision under test */))
        .sort()
        .collect_vec()
        .into_stream()
        .all_ticks()
        .sim_output();
    (send, out)
}

/// Keyed ordered batch; every tick exposes `[(key, values in arrival order)]` sorted by key.
pub fn batch_keyed_ordered<'a>(
    node: &Process<'a>,
) -> (OrdSend<(u8, i32)>, OrdRecv<Vec<(u8, Vec<i32>)>>) {
    let tick = node.tick();
    let (send, input) = node.sim_input::<(u8, i32), TotalOrder, ExactlyOnce>();
    let out = input
        .into_keyed()
        .batch(&tick, nondet!(/** verif: batching is the decision under test */))
        .fold(q!(|| Vec::new()), q!(|acc: &mut Vec<i32>, v| acc.push(v)))
        .entries()
        .sort()
        .collect_vec()
        .into_stream()
        .all_ticks()
        .sim_output();
    (send, out)
}

/// Keyed unordered batch; every tick exposes `[(key, sorted values)]` sorted by key.
pub fn batch_keyed_unordered<'a>(
    node: &Process<'a>,
) -> (NoSend<(u8, i32)>, OrdRecv<Vec<(u8, Vec<i32>)>>) {
    let tick = node.tick();
    let (send, input) = node.sim_input::<(u8, i32), NoOrder, ExactlyOnce>();
    let out = input
        .into_keyed()
        .batch(&tick, nondet!(/** verif: batching is the decision under test */))
        .fold(
            q!(|| Vec::new()),
            q!(
                |acc: &mut Vec<i32>, v| {
                    acc.push(v);
                    acc.sort();
                },
                commutative = manual_proof!(/** a sorted vector is a multiset */)
            ),
        )
        .entries()
        .sort()
        .collect_vec()
        .into_stream()
        .all_ticks()
        .sim_output();
    (send, out)
}

/// Snapshots of the running count of an ordered input; one element per tick.
pub fn snapshot_count<'a>(node: &Process<'a>) -> (OrdSend<i32>, OrdRecv<usize>) {
    let tick = node.tick();
    let (send, input) = node.sim_input::<i32, TotalOrder, ExactlyOnce>();
    let out = input
        .count()
        .snapshot(&tick, nondet!(/** verif: the snapshot version is the decision under test */))
        .into_stream()
        .all_ticks()
        .sim_output();
    (send, out)
}

/// Two ordered inputs batched into the same tick; every tick exposes both batches.
pub fn two_batches<'a>(
    node: &Process<'a>,
) -> (OrdSend<i32>, OrdSend<i32>, OrdRecv<(Vec<i32>, Vec<i32>)>) {
    let tick = node.tick();
    let (send_a, a) = node.sim_input::<i32, TotalOrder, ExactlyOnce>();
    let (send_b, b) = node.sim_input::<i32, TotalOrder, ExactlyOnce>();
    let va = a.batch(&tick, nondet!(/** verif */)).collect_vec();
    let vb = b.batch(&tick, nondet!(/** verif */)).collect_vec();
    let out = va.zip(vb).into_stream().all_ticks().sim_output();
    (send_a, send_b, out)
}

/// One slice with two hooks on the same ordered stream: its batch and a snapshot of its count.
pub fn sliced_batch_count<'a>(node: &Process<'a>) -> (OrdSend<i32>, OrdRecv<(Vec<i32>, usize)>) {
    let (send, input) = node.sim_input::<i32, TotalOrder, ExactlyOnce>();
    let count = input.clone().count();
    let out = sliced! {
        let batch = use::batch(input, nondet!(/** verif */));
        let seen = use::snapshot(count, nondet!(/** verif */));
        batch.collect_vec().zip(seen).into_stream()
    }
    .sim_output();
    (send, out)
}

/// Slice over an unordered stream: sorted batch per slice.
pub fn sliced_batch_unordered<'a>(node: &Process<'a>) -> (NoSend<i32>, OrdRecv<Vec<i32>>) {
    let (send, input) = node.sim_input::<i32, NoOrder, ExactlyOnce>();
    let out = sliced! {
        let batch = use::batch(input, nondet!(/** verif */));
        batch.sort().collect_vec().into_stream()
    }
    .sim_output();
    (send, out)
}

/// Slice with a state hook: emits (state before, batch, state after) where
/// `after = before + sum(batch)`.
pub fn sliced_state<'a>(node: &Process<'a>) -> (OrdSend<i32>, OrdRecv<(i32, Vec<i32>, i32)>) {
    let (send, input) = node.sim_input::<i32, TotalOrder, ExactlyOnce>();
    let out = sliced! {
        let batch = use::batch(input, nondet!(/** verif */));
        let mut acc = use::state(|l| l.singleton(q!(0i32)));

        let before = acc.clone();
        let items = batch.collect_vec();
        let after = before
            .clone()
            .zip(items.clone())
            .map(q!(|(old, items)| old + items.iter().sum::<i32>()));
        acc = after.clone();
        before.zip(items).zip(after).map(q!(|((b, i), a)| (b, i, a))).into_stream()
    }
    .sim_output();
    (send, out)
}

/// Slice with a `state_null` stream hook: emits (carried-over items, batch); the next slice must
/// see this slice's batch as its carried-over items.
pub fn sliced_state_null<'a>(node: &Process<'a>) -> (OrdSend<i32>, OrdRecv<(Vec<i32>, Vec<i32>)>) {
    let (send, input) = node.sim_input::<i32, TotalOrder, ExactlyOnce>();
    let out = sliced! {
        let batch = use::batch(input, nondet!(/** verif */));
        let mut carried = use::state_null::<Stream<i32, _, Bounded, TotalOrder>>();

        let before = carried.collect_vec();
        carried = batch.clone();
        before.zip(batch.collect_vec()).into_stream()
    }
    .sim_output();
    (send, out)
}

/// Slice over a keyed monotone singleton (per-key max): entries per slice, sorted.
pub fn sliced_keyed_snapshot<'a>(
    node: &Process<'a>,
) -> (OrdSend<(u8, i32)>, OrdRecv<Vec<(u8, i32)>>) {
    let (send, input) = node.sim_input::<(u8, i32), TotalOrder, ExactlyOnce>();
    let maxes = input
        .into_keyed()
        .fold(q!(|| i32::MIN), q!(|acc, v| *acc = (*acc).max(v)));
    let out = sliced! {
        let snap = use::snapshot(maxes, nondet!(/** verif */));
        snap.entries().sort().collect_vec().into_stream()
    }
    .sim_output();
    (send, out)
}

/// A top-level commutative fold over an unordered input (hooked by `TopLevelFoldHook`), observed
/// through a snapshot slice: the subset-sum program of the repository's own test.
pub fn fold_unordered_snapshot<'a>(node: &Process<'a>) -> (NoSend<i32>, OrdRecv<i32>) {
    let (send, input) = node.sim_input::<i32, NoOrder, ExactlyOnce>();
    let folded = input.fold(
        q!(|| 0),
        q!(
            |acc, v| *acc += v,
            commutative = manual_proof!(/** integer addition is commutative */)
        ),
    );
    let out = sliced! {
        let snapshot = use::snapshot(folded, nondet!(/** verif */));
        snapshot.into_stream()
    }
    .sim_output();
    (send, out)
}

/// The same fold, snapshotted in a slice that *also* batches a second, independent stream
/// (two hooks in one tick, one of them fed by the fold hook).
pub fn fold_snapshot_with_batch<'a>(
    node: &Process<'a>,
) -> (NoSend<i32>, OrdSend<i32>, OrdRecv<(Vec<i32>, i32)>) {
    let (send, input) = node.sim_input::<i32, NoOrder, ExactlyOnce>();
    let (send_b, other) = node.sim_input::<i32, TotalOrder, ExactlyOnce>();
    let folded = input.fold(
        q!(|| 0),
        q!(
            |acc, v| *acc += v,
            commutative = manual_proof!(/** integer addition is commutative */)
        ),
    );
    let out = sliced! {
        let batch = use::batch(other, nondet!(/** verif */));
        let snapshot = use::snapshot(folded, nondet!(/** verif */));
        batch.collect_vec().zip(snapshot).into_stream()
    }
    .sim_output();
    (send, send_b, out)
}

/// Two independent ticks: tick 1 batches `a` and counts what it has passed on; tick 2 batches
/// `b` and reads that count. What tick 2 sees tells which of the two ready ticks ran first.
pub fn tick_order_witness<'a>(node: &Process<'a>) -> (OrdSend<i32>, OrdSend<i32>, OrdRecv<(i32, usize)>) {
    let (send_a, a) = node.sim_input::<i32, TotalOrder, ExactlyOnce>();
    let (send_b, b) = node.sim_input::<i32, TotalOrder, ExactlyOnce>();
    let passed = sliced! {
        let batch = use::batch(a, nondet!(/** verif */));
        batch
    };
    let count = passed.count();
    let out = sliced! {
        let bb = use::batch(b, nondet!(/** verif */));
        let seen = use::snapshot(count, nondet!(/** verif */));
        bb.cross_singleton(seen)
    }
    .sim_output();
    (send_a, send_b, out)
}

/// A top-level ordering observation on an unordered input: every arrival order.
pub fn toplevel_order<'a>(node: &Process<'a>) -> (NoSend<i32>, OrdRecv<i32>) {
    let (send, input) = node.sim_input::<i32, NoOrder, ExactlyOnce>();
    let out = input
        .assume_ordering::<TotalOrder>(nondet!(/** verif: the order is the decision under test */))
        .sim_output();
    (send, out)
}

/// In-tick ordering observation: an unordered batch is given an order inside the tick.
pub fn intick_order<'a>(node: &Process<'a>) -> (NoSend<i32>, OrdRecv<Vec<i32>>) {
    let tick = node.tick();
    let (send, input) = node.sim_input::<i32, NoOrder, ExactlyOnce>();
    let out = input
        .batch(&tick, nondet!(/** verif */))
        .assume_ordering::<TotalOrder>(nondet!(/** verif: the order is the decision under test */))
        .collect_vec()
        .into_stream()
        .all_ticks()
        .sim_output();
    (send, out)
}

/// Cluster program: every member batches its external input and forwards each batch's sum to a
/// collector process, which batches what it receives (keyed by member) and exposes every tick.
pub fn cluster_relay<'a>(
    cluster: &Cluster<'a, ()>,
    collector: &Process<'a>,
) -> (
    SimClusterSender<i32, TotalOrder, ExactlyOnce>,
    OrdRecv<Vec<(u32, Vec<i32>)>>,
) {
    use hydro_lang::networking::TCP;
    let (send, input) = cluster.sim_input::<i32, TotalOrder, ExactlyOnce>();
    let ctick = cluster.tick();
    let sums = input
        .batch(&ctick, nondet!(/** verif */))
        .fold(q!(|| 0i32), q!(|acc, v| *acc += v))
        .into_stream()
        .all_ticks();
    let ptick = collector.tick();
    let out = sums
        .send(collector, TCP.fail_stop().bincode())
        .batch(&ptick, nondet!(/** verif */))
        .fold(q!(|| Vec::new()), q!(|acc: &mut Vec<i32>, v| acc.push(v)))
        .entries()
        .map(q!(|(m, v): (MemberId<()>, Vec<i32>)| (m.get_raw_id(), v)))
        .sort()
        .collect_vec()
        .into_stream()
        .all_ticks()
        .sim_output();
    (send, out)
}

// ---------------------------------------------------------------------------------------------
// quorum helpers and request/response (C39)
// ---------------------------------------------------------------------------------------------

pub type Resp = (u8, Result<(), u8>);
pub type RespV = (u8, Result<u8, u8>);

pub fn quorum_ordered<'a>(
    node: &Process<'a>,
    min: usize,
    max: usize,
) -> (OrdSend<Resp>, NoRecv<u8>, OrdRecv<(u8, u8)>) {
    let (send, input) = node.sim_input::<Resp, TotalOrder, ExactlyOnce>();
    let (ok, err) = hydro_std::quorum::collect_quorum(input, min, max);
    (send, ok.sim_output(), err.sim_output())
}

pub fn quorum_unordered<'a>(
    node: &Process<'a>,
    min: usize,
    max: usize,
) -> (NoSend<Resp>, NoRecv<u8>, NoRecv<(u8, u8)>) {
    let (send, input) = node.sim_input::<Resp, NoOrder, ExactlyOnce>();
    let (ok, err) = hydro_std::quorum::collect_quorum(input, min, max);
    (send, ok.sim_output(), err.sim_output())
}

pub fn quorum_resp_ordered<'a>(
    node: &Process<'a>,
    min: usize,
    max: usize,
) -> (OrdSend<RespV>, OrdRecv<(u8, u8)>, OrdRecv<(u8, u8)>) {
    let (send, input) = node.sim_input::<RespV, TotalOrder, ExactlyOnce>();
    let (ok, err) = hydro_std::quorum::collect_quorum_with_response(input, min, max);
    (send, ok.sim_output(), err.sim_output())
}

pub fn quorum_resp_unordered<'a>(
    node: &Process<'a>,
    min: usize,
    max: usize,
) -> (NoSend<RespV>, NoRecv<(u8, u8)>, NoRecv<(u8, u8)>) {
    let (send, input) = node.sim_input::<RespV, NoOrder, ExactlyOnce>();
    let (ok, err) = hydro_std::quorum::collect_quorum_with_response(input, min, max);
    (send, ok.sim_output(), err.sim_output())
}

/// `join_responses` wired exactly like the crate's own tests: metadata enters an atomic region
/// (its acknowledgement leaves through `end_atomic`), responses arrive unordered.
pub fn join_responses_prog<'a>(
    node: &Process<'a>,
) -> (
    OrdSend<(u8, u8)>,
    OrdSend<(u8, u8)>,
    OrdRecv<(u8, u8)>,
    NoRecv<(u8, (u8, u8))>,
) {
    let (response_send, responses) = node.sim_input::<(u8, u8), TotalOrder, ExactlyOnce>();
    let (metadata_send, metadata_input) = node.sim_input::<(u8, u8), TotalOrder, ExactlyOnce>();
    let metadata_processing = metadata_input.atomic();
    let metadata_ack = metadata_processing.clone().end_atomic();
    let metadata = metadata_processing
        .batch_atomic(&node.tick(), nondet!(/** verif: as in the crate's tests */))
        .weaken_ordering();
    let joined =
        hydro_std::request_response::join_responses(responses.weaken_ordering(), metadata);
    (
        metadata_send,
        response_send,
        metadata_ack.sim_output(),
        joined.sim_output(),
    )
}

// ---------------------------------------------------------------------------------------------
// atomic acknowledgements (C34)
// ---------------------------------------------------------------------------------------------

/// The keyed counter of the tutorial (atomic increments, atomic reads).
pub fn keyed_counter<'a>(
    node: &Process<'a, hydro_test::tutorials::keyed_counter::CounterServer>,
) -> (
    OrdSend<(u32, String)>,
    OrdSend<(u32, String)>,
    NoRecv<(u32, String)>,
    NoRecv<(u32, (String, usize))>,
) {
    let (inc_send, inc) = node.sim_input::<(u32, String), TotalOrder, ExactlyOnce>();
    let (get_send, get) = node.sim_input::<(u32, String), TotalOrder, ExactlyOnce>();
    let (acks, resp) = hydro_test::tutorials::keyed_counter::keyed_counter_service(
        inc.into_keyed(),
        get.into_keyed(),
    );
    (
        inc_send,
        get_send,
        acks.entries().sim_output(),
        resp.entries().sim_output(),
    )
}

/// The tutorial's deliberately non-atomic variant: the harness's built-in negative control.
pub fn keyed_counter_non_atomic<'a>(
    node: &Process<'a, hydro_test::tutorials::keyed_counter_non_atomic::CounterServer>,
) -> (
    OrdSend<(u32, String)>,
    OrdSend<(u32, String)>,
    NoRecv<(u32, String)>,
    NoRecv<(u32, (String, usize))>,
) {
    let (inc_send, inc) = node.sim_input::<(u32, String), TotalOrder, ExactlyOnce>();
    let (get_send, get) = node.sim_input::<(u32, String), TotalOrder, ExactlyOnce>();
    let (acks, resp) = hydro_test::tutorials::keyed_counter_non_atomic::keyed_counter_service_buggy(
        inc.into_keyed(),
        get.into_keyed(),
    );
    (
        inc_send,
        get_send,
        acks.entries().sim_output(),
        resp.entries().sim_output(),
    )
}

/// A single counter with ordered acknowledgements: writes carry an id, enter an atomic region,
/// are counted, and are acknowledged through `end_atomic`; reads carry an id and are answered
/// from an atomic snapshot of the count.
pub fn atomic_counter<'a>(
    node: &Process<'a>,
) -> (OrdSend<u8>, OrdSend<u8>, OrdRecv<u8>, OrdRecv<(u8, usize)>) {
    let (w_send, writes) = node.sim_input::<u8, TotalOrder, ExactlyOnce>();
    let (r_send, reads) = node.sim_input::<u8, TotalOrder, ExactlyOnce>();
    let processing = writes.atomic();
    let count = processing.clone().count();
    let acks = processing.end_atomic();
    let answers = sliced! {
        let batch = use::batch(reads, nondet!(/** verif */));
        let seen = use::atomic(count, nondet!(/** verif: atomic read */));
        batch.cross_singleton(seen)
    };
    (w_send, r_send, acks.sim_output(), answers.sim_output())
}

/// Negative control for the same shape: the count is read through a plain (non-atomic)
/// snapshot and the acknowledgement does not come out of the atomic region.
pub fn non_atomic_counter<'a>(
    node: &Process<'a>,
) -> (OrdSend<u8>, OrdSend<u8>, OrdRecv<u8>, OrdRecv<(u8, usize)>) {
    let (w_send, writes) = node.sim_input::<u8, TotalOrder, ExactlyOnce>();
    let (r_send, reads) = node.sim_input::<u8, TotalOrder, ExactlyOnce>();
    let count = writes.clone().count();
    let acks = writes;
    let answers = sliced! {
        let batch = use::batch(reads, nondet!(/** verif */));
        let seen = use::snapshot(count, nondet!(/** verif: NOT atomic */));
        batch.cross_singleton(seen)
    };
    (w_send, r_send, acks.sim_output(), answers.sim_output())
}

// ---------------------------------------------------------------------------------------------
// replicated logs (C40)
// ---------------------------------------------------------------------------------------------

pub type RaftEntry = hydro_test::cluster::raft::LogEntry<String>;

pub struct RaftPorts {
    pub election: SimClusterSender<(), TotalOrder, ExactlyOnce>,
    pub heartbeat: SimClusterSender<(), TotalOrder, ExactlyOnce>,
    pub request: SimClusterSender<String, TotalOrder, ExactlyOnce>,
    pub committed: SimClusterReceiver<RaftEntry, TotalOrder, ExactlyOnce>,
    pub redirected: SimClusterReceiver<
        (String, Option<MemberId<hydro_test::cluster::raft::Replica>>),
        TotalOrder,
        ExactlyOnce,
    >,
}

/// The composed Raft of `hydro_test::cluster::raft`, instantiated exactly like the repository's
/// `fully_concurrent_run_never_forks_the_committed_log` test (fail-stop TCP, bincode).
pub fn raft_prog<'a>(
    cluster: &Cluster<'a, hydro_test::cluster::raft::Replica>,
    n: usize,
) -> RaftPorts {
    use hydro_lang::networking::TCP;
    use hydro_test::cluster::raft::{RaftConfig, raft};
    let (election, election_timer_interrupts) = cluster.sim_input();
    let (heartbeat, heartbeat_timer_interrupts) = cluster.sim_input();
    let (request, requests) = cluster.sim_input::<String, _, _>();
    let (committed, redirected) = raft(
        requests,
        election_timer_interrupts,
        heartbeat_timer_interrupts,
        RaftConfig { cluster_size: n },
        || TCP.fail_stop().bincode(),
        nondet!(/** which member leads is non-deterministic; the committed sequence must not be */),
    );
    RaftPorts {
        election,
        heartbeat,
        request,
        committed: committed.end_atomic().sim_cluster_output(),
        redirected: redirected.sim_cluster_output(),
    }
}

pub struct PaxosPorts {
    pub payloads: SimClusterSender<u32, TotalOrder, ExactlyOnce>,
    pub decided: SimClusterReceiver<(usize, Option<u32>), NoOrder, ExactlyOnce>,
}

/// `hydro_test::cluster::paxos::paxos_core` with externally supplied payloads at the proposers.
/// (The protocol drives its elections from wall-clock timers; whether the simulator can run
/// it at all is probed by the harness, see C40.)
pub fn paxos_prog<'a>(
    proposers: &Cluster<'a, hydro_test::cluster::paxos::Proposer>,
    acceptors: &Cluster<'a, hydro_test::cluster::paxos::Acceptor>,
) -> PaxosPorts {
    use hydro_test::cluster::paxos::{PaxosConfig, paxos_core};
    let (payloads, payload_stream) = proposers.sim_input::<u32, TotalOrder, ExactlyOnce>();
    let no_checkpoint = acceptors.source_iter(q!(Vec::<usize>::new())).max();
    let (_ballots, decided) = paxos_core(
        proposers,
        acceptors,
        no_checkpoint.into(),
        move |_new_leader| payload_stream,
        PaxosConfig {
            f: 1,
            i_am_leader_send_timeout: 1,
            i_am_leader_check_timeout: 2,
            i_am_leader_check_timeout_delay_multiplier: 1,
        },
        nondet!(/** verif: leader election is non-deterministic */),
        nondet!(/** verif: commit is non-deterministic during elections */),
    );
    PaxosPorts {
        payloads,
        decided: decided.sim_cluster_output(),
    }
}

/// `paxos::index_payloads` (the proposer's slot assignment) fed by an external ordered input,
/// exactly like the repository's own simulator test of it.
pub fn paxos_index_prog<'a>(node: &Process<'a>) -> (OrdSend<i32>, OrdRecv<(usize, i32)>) {
    let tick = node.tick();
    let (send, input) = node.sim_input::<i32, TotalOrder, ExactlyOnce>();
    let indexed = hydro_test::cluster::paxos::index_payloads(
        tick.none(),
        input.batch(&tick, nondet!(/** verif: batching must not change the slots */)),
    );
    (send, indexed.all_ticks().sim_output())
}

pub type PBallot = hydro_test::cluster::paxos::Ballot;
pub type PP2a = hydro_test::cluster::paxos::P2a<u32, hydro_test::cluster::paxos::Proposer>;
/// (slot, ballot number, proposer raw id, value)
pub type PLogRow = (usize, u32, u32, Option<u32>);

pub struct AcceptorPorts {
    pub ballots: SimClusterSender<PBallot, TotalOrder, ExactlyOnce>,
    pub p2as: SimClusterSender<PP2a, NoOrder, ExactlyOnce>,
    pub replies: SimClusterReceiver<((usize, PBallot), Result<(), Option<PBallot>>), NoOrder, ExactlyOnce>,
    pub log: SimClusterReceiver<Vec<PLogRow>, TotalOrder, ExactlyOnce>,
}

/// `paxos::acceptor_p2` on its own: the acceptor's promised ballot is the maximum of an external
/// ballot input, P2a messages arrive from an external input, P2b replies go to the proposers
/// over fail-stop TCP; every tick's log snapshot is exposed.
pub fn paxos_acceptor_prog<'a>(
    proposers: &Cluster<'a, hydro_test::cluster::paxos::Proposer>,
    acceptors: &Cluster<'a, hydro_test::cluster::paxos::Acceptor>,
) -> AcceptorPorts {
    use hydro_test::cluster::paxos::acceptor_p2;
    let tick = acceptors.tick();
    let (ballots, ballot_in) = acceptors.sim_input::<PBallot, TotalOrder, ExactlyOnce>();
    let max_ballot = ballot_in.fold(
        q!(|| None),
        q!(|acc: &mut Option<PBallot>, b| {
            if Some(&b) > acc.as_ref() {
                *acc = Some(b);
            }
        }),
    );
    let a_max_ballot = max_ballot.snapshot(&tick, nondet!(/** verif: promised ballot as of the tick */));
    let (p2as, p2a_in) = acceptors.sim_input::<PP2a, NoOrder, ExactlyOnce>();
    let no_checkpoint = acceptors.source_iter(q!(Vec::<usize>::new())).max();
    let (a_log, replies) = acceptor_p2(&tick, a_max_ballot, p2a_in, no_checkpoint.into(), proposers);
    let log = a_log
        .snapshot_atomic(&tick, nondet!(/** verif: log as of the tick */))
        .map(q!(|(_ck, log)| {
            let mut rows: Vec<(usize, u32, u32, Option<u32>)> = log
                .into_iter()
                .map(|(slot, v)| (slot, v.ballot.num, v.ballot.proposer_id.get_raw_id(), v.value))
                .collect();
            rows.sort();
            rows
        }))
        .into_stream()
        .all_ticks()
        .sim_cluster_output();
    AcceptorPorts {
        ballots,
        p2as,
        replies: replies.sim_cluster_output(),
        log,
    }
}

// ---------------------------------------------------------------------------------------------
// reduce-family state inside an atomic region (C34)
// ---------------------------------------------------------------------------------------------
//
// Same ports as `atomic_counter`: the harness sends write ids 0,1,2,.. in order, so each of the
// states below equals "number of writes processed so far" and the read-after-write oracle of
// the counter applies unchanged.

/// State = `max()` of (write id + 1) over the atomic stream.
pub fn atomic_max<'a>(
    node: &Process<'a>,
) -> (OrdSend<u8>, OrdSend<u8>, OrdRecv<u8>, OrdRecv<(u8, usize)>) {
    let (w_send, writes) = node.sim_input::<u8, TotalOrder, ExactlyOnce>();
    let (r_send, reads) = node.sim_input::<u8, TotalOrder, ExactlyOnce>();
    let processing = writes.atomic();
    let reduced = processing.clone().map(q!(|w| w as usize + 1)).max();
    let acks = processing.end_atomic();
    let answers = sliced! {
        let batch = use::batch(reads, nondet!(/** verif */));
        let seen = use::atomic(reduced, nondet!(/** verif: atomic read */));
        let fallback = seen.location().singleton(q!(0usize));
        batch.cross_singleton(seen.unwrap_or(fallback))
    };
    (w_send, r_send, acks.sim_output(), answers.sim_output())
}

/// State = `min()` of -(write id + 1); the answer is its negation.
pub fn atomic_min<'a>(
    node: &Process<'a>,
) -> (OrdSend<u8>, OrdSend<u8>, OrdRecv<u8>, OrdRecv<(u8, usize)>) {
    let (w_send, writes) = node.sim_input::<u8, TotalOrder, ExactlyOnce>();
    let (r_send, reads) = node.sim_input::<u8, TotalOrder, ExactlyOnce>();
    let processing = writes.atomic();
    let reduced = processing.clone().map(q!(|w| -(w as i64) - 1)).min();
    let acks = processing.end_atomic();
    let answers = sliced! {
        let batch = use::batch(reads, nondet!(/** verif */));
        let seen = use::atomic(reduced, nondet!(/** verif: atomic read */));
        let fallback = seen.location().singleton(q!(0i64));
        batch.cross_singleton(seen.unwrap_or(fallback)).map(q!(|(r, m)| (r, (-m) as usize)))
    };
    (w_send, r_send, acks.sim_output(), answers.sim_output())
}

/// State = last-write-wins `reduce` of (write id + 1) on the ordered atomic stream.
pub fn atomic_last_write<'a>(
    node: &Process<'a>,
) -> (OrdSend<u8>, OrdSend<u8>, OrdRecv<u8>, OrdRecv<(u8, usize)>) {
    let (w_send, writes) = node.sim_input::<u8, TotalOrder, ExactlyOnce>();
    let (r_send, reads) = node.sim_input::<u8, TotalOrder, ExactlyOnce>();
    let processing = writes.atomic();
    let reduced = processing
        .clone()
        .map(q!(|w| w as usize + 1))
        .reduce(q!(|cur, new| *cur = new));
    let acks = processing.end_atomic();
    let answers = sliced! {
        let batch = use::batch(reads, nondet!(/** verif */));
        let seen = use::atomic(reduced, nondet!(/** verif: atomic read */));
        let fallback = seen.location().singleton(q!(0usize));
        batch.cross_singleton(seen.unwrap_or(fallback))
    };
    (w_send, r_send, acks.sim_output(), answers.sim_output())
}

/// State = keyed `reduce` (per-key maximum, key = write id mod 2) on the atomic stream; the
/// answer is the largest value over all keys.
pub fn atomic_keyed_reduce<'a>(
    node: &Process<'a>,
) -> (OrdSend<u8>, OrdSend<u8>, OrdRecv<u8>, OrdRecv<(u8, usize)>) {
    let (w_send, writes) = node.sim_input::<u8, TotalOrder, ExactlyOnce>();
    let (r_send, reads) = node.sim_input::<u8, TotalOrder, ExactlyOnce>();
    let processing = writes.atomic();
    let reduced = processing
        .clone()
        .map(q!(|w| (w % 2, w as usize + 1)))
        .into_keyed()
        .reduce(q!(|cur, new| {
            if new > *cur {
                *cur = new;
            }
        }));
    let acks = processing.end_atomic();
    let answers = sliced! {
        let batch = use::batch(reads, nondet!(/** verif */));
        let seen = use::atomic(reduced, nondet!(/** verif: atomic read */));
        let best = seen.entries().map(q!(|(_, v)| v)).max();
        let fallback = best.location().singleton(q!(0usize));
        batch.cross_singleton(best.unwrap_or(fallback))
    };
    (w_send, r_send, acks.sim_output(), answers.sim_output())
}

// ---------------------------------------------------------------------------------------------
// in-tick ordering observations on keyed / merged streams (C38 corpus)
// ---------------------------------------------------------------------------------------------

/// In-tick `assume_ordering` on a keyed unordered batch (`KeyedStreamOrderHook`): every tick
/// exposes `[(key, values in the observed order)]` sorted by key.
pub fn intick_keyed_order<'a>(
    node: &Process<'a>,
) -> (NoSend<(u8, i32)>, OrdRecv<Vec<(u8, Vec<i32>)>>) {
    let tick = node.tick();
    let (send, input) = node.sim_input::<(u8, i32), NoOrder, ExactlyOnce>();
    let out = input
        .into_keyed()
        .batch(&tick, nondet!(/** verif */))
        .assume_ordering::<TotalOrder>(nondet!(/** verif: the per-key order is the decision under test */))
        .fold(q!(|| Vec::new()), q!(|acc: &mut Vec<i32>, v| acc.push(v)))
        .entries()
        .sort()
        .collect_vec()
        .into_stream()
        .all_ticks()
        .sim_output();
    (send, out)
}

/// In-tick `merge_ordered` of two ordered batches (`MergeOrderedHook`).
pub fn intick_merge_ordered<'a>(
    node: &Process<'a>,
) -> (OrdSend<i32>, OrdSend<i32>, OrdRecv<Vec<i32>>) {
    let tick = node.tick();
    let (send_a, a) = node.sim_input::<i32, TotalOrder, ExactlyOnce>();
    let (send_b, b) = node.sim_input::<i32, TotalOrder, ExactlyOnce>();
    let out = a
        .batch(&tick, nondet!(/** verif */))
        .merge_ordered(
            b.batch(&tick, nondet!(/** verif */)),
            nondet!(/** verif: the interleaving is the decision under test */),
        )
        .collect_vec()
        .into_stream()
        .all_ticks()
        .sim_output();
    (send_a, send_b, out)
}

/// In-tick `entries_partially_ordered` of a keyed ordered batch (`PartiallyOrderedStreamHook`).
pub fn intick_partially_ordered<'a>(
    node: &Process<'a>,
) -> (OrdSend<(u8, i32)>, OrdRecv<Vec<(u8, i32)>>) {
    let tick = node.tick();
    let (send, input) = node.sim_input::<(u8, i32), TotalOrder, ExactlyOnce>();
    let out = input
        .into_keyed()
        .batch(&tick, nondet!(/** verif */))
        .entries_partially_ordered(nondet!(/** verif: the interleaving is the decision under test */))
        .collect_vec()
        .into_stream()
        .all_ticks()
        .sim_output();
    (send, out)
}
