#!/usr/bin/env bash
# Build of engine `sim` (called by /verif/check with CARGO_TARGET_DIR, RUSTFLAGS, VERIF_* set).
set -euo pipefail
cd "$(dirname "$0")"
exec cargo build --release --offline
