//! C40: the replicated-log examples never commit different entries at the same log position.
//!
//! Raft (`hydro_test::cluster::raft::raft`, 3 members, fail-stop TCP) is instantiated exactly
//! like the repository's `fully_concurrent_run_never_forks_the_committed_log` test; the *input*
//! (which election timers fire, which requests arrive where, heartbeat pumps, optional phase
//! barriers) is generated, the *schedule* is a generated decision tape.
//!
//! Paxos: `paxos_core` cannot be compiled by the simulator at this commit (top-level unbounded
//! `reduce`/`max` hits `todo!("Reduce with optional intermediates is not yet supported in
//! simulator")`, and the protocol's elections are driven by wall-clock timers), so only the two
//! public components the simulator can run are checked: the proposer's slot assignment
//! (`index_payloads`: no slot is ever used twice, for every batching) and the acceptor's phase 2
//! (`acceptor_p2`: ballot check, reply, log contents).

use std::cell::Cell;
use std::collections::{BTreeMap, BTreeSet};

use hydro_lang::location::MemberId;
use hydro_lang::prelude::*;
use hydro_lang::sim::compiled::CompiledSim;
use hydro_test::cluster::paxos::{Acceptor, Proposer};
use hydro_test::cluster::raft::Replica;
use serde::{Deserialize, Serialize};
use vcommon::proptest;
use vcommon::proptest::prelude::*;
use vcommon::{Ctx, Fail, Obs};
use vsim::progs::*;

use crate::drive_sim;
use crate::proglevel::*;

pub const N: usize = 3;

pub fn canary_path() -> String {
    let root = std::env::var("VERIF_ROOT").unwrap_or_else(|_| "/verif".into());
    let _ = std::fs::create_dir_all(format!("{root}/work/sim"));
    format!("{root}/work/sim/c40-current-case.json")
}

/// C40 runs under a supervising parent process: the actual check is the child (`--inner 1`).
/// If the child is killed by an abort while a raft case is in flight, the parent reports that
/// case as a violation (staged protocol code panicked: in particular raft_step's guard against
/// truncating a committed entry); any other abnormal exit stays inconclusive.
pub fn supervise(args: vcommon::Args) -> ! {
    use std::io::{BufRead, BufReader, Write};
    let canary = canary_path();
    let _ = std::fs::remove_file(&canary);
    let exe = std::env::current_exe().expect("current_exe");
    let mut child = std::process::Command::new(exe)
        .args(std::env::args().skip(1))
        .args(["--inner", "1"])
        .stdin(std::process::Stdio::null())
        .stderr(std::process::Stdio::piped())
        .spawn()
        .expect("spawn inner C40 process");
    let stderr = child.stderr.take().unwrap();
    let reader = std::thread::spawn(move || {
        let mut tail: std::collections::VecDeque<String> = std::collections::VecDeque::new();
        let mut err = std::io::stderr();
        for line in BufReader::new(stderr).lines().map_while(Result::ok) {
            let _ = writeln!(err, "{line}");
            if tail.len() >= 200 {
                tail.pop_front();
            }
            tail.push_back(line);
        }
        tail
    });
    let status = child.wait().expect("wait for inner C40 process");
    let tail = reader.join().unwrap_or_default();
    if let Some(code) = status.code() {
        if code != 134 {
            std::process::exit(code);
        }
    }
    // aborted / killed by a signal
    let case = std::fs::read_to_string(&canary)
        .ok()
        .and_then(|t| serde_json::from_str::<serde_json::Value>(&t).ok());
    let Some(case) = case else {
        println!("HARNESS-ABORT property=C40 inner process ended with {status:?} outside a raft case (inconclusive)");
        std::process::exit(2);
    };
    let lines: Vec<&String> = tail.iter().collect();
    let mut msg = String::new();
    for (i, l) in lines.iter().enumerate() {
        if l.contains("panicked at") {
            msg = format!("{} {}", l.trim(), lines.get(i + 1).map(|s| s.trim()).unwrap_or(""));
        }
    }
    if msg.is_empty() {
        msg = lines.iter().rev().take(3).map(|s| s.as_str()).collect::<Vec<_>>().join(" | ");
    }
    let sig = if msg.contains("truncate committed") || msg.contains("protocol violation") {
        "raft:truncation-guard-fired".to_string()
    } else {
        format!("raft:staged-code-aborted-the-simulation:{}", crate::util::squash(&msg))
    };
    let replay = args.replay.is_some();
    let mut ctx = Ctx::new(args);
    ctx.rule = "supervisor record: the inner check process aborted while running the recorded raft case".into();
    ctx.report(
        "raft-tapes",
        &Fail::new(sig, format!("the simulation process aborted while running this case: {msg}")),
        case,
    );
    if replay {
        std::process::exit(if ctx.violations() > 0 { 1 } else { 0 });
    }
    ctx.floor = 0;
    ctx.finish()
}

#[derive(Clone, Copy, Debug, PartialEq, Eq, Serialize, Deserialize)]
pub enum Ev {
    Election(u8),
    Heartbeat(u8),
    Request(u8),
    /// `sim::quiesce()`: everything sent so far settles before the script goes on
    Barrier,
}

#[derive(Clone, Debug, Serialize, Deserialize)]
pub struct RaftCase {
    pub script: Vec<Ev>,
    pub tape: Vec<u8>,
}

fn ev_strategy() -> impl Strategy<Value = Ev> {
    prop_oneof![
        3 => (0u8..N as u8).prop_map(Ev::Election),
        5 => (0u8..N as u8).prop_map(Ev::Heartbeat),
        3 => (0u8..N as u8).prop_map(Ev::Request),
        1 => Just(Ev::Barrier),
    ]
}

/// Scripts shaped like the repository's `concurrent_elections_never_fork_the_committed_log`
/// test: a race-free election + seed commit, then rounds in which a challenger's election
/// timer is primed and, in one un-quiesced burst, fresh requests, the leader's heartbeat pumps
/// and the challenger's candidacy overlap; each round settles with heartbeat pumps of everybody.
fn raft_race_strategy() -> impl Strategy<Value = RaftCase> {
    (
        1usize..=4,
        proptest::collection::vec((1u8..N as u8, proptest::collection::vec(0u8..5, 5), 1usize..=3), 1..=6),
        prop_oneof![
            proptest::collection::vec(any::<u8>(), 0..256),
            proptest::collection::vec(any::<u8>(), 256..4096),
        ],
    )
        .prop_map(|(seed_pumps, rounds, tape)| {
            let mut script = vec![Ev::Election(0), Ev::Barrier, Ev::Request(0)];
            for _ in 0..seed_pumps {
                script.push(Ev::Heartbeat(0));
                script.push(Ev::Barrier);
            }
            for (ch, order, settle) in rounds {
                script.push(Ev::Election(ch));
                // the burst, in a generated order
                let burst = [Ev::Request(0), Ev::Request(ch), Ev::Heartbeat(0), Ev::Election(ch), Ev::Heartbeat(0)];
                let mut idx: Vec<usize> = (0..5).collect();
                idx.sort_by_key(|i| (order[*i], *i));
                for i in idx {
                    script.push(burst[i]);
                }
                script.push(Ev::Barrier);
                for _ in 0..settle {
                    for m in 0..N as u8 {
                        script.push(Ev::Heartbeat(m));
                    }
                    script.push(Ev::Barrier);
                }
            }
            RaftCase { script, tape }
        })
}

/// Figure-8 family for the simulator: member `a` wins a term and accepts requests it never
/// replicates (its heartbeat timer does not fire); member `b` wins the next term and accepts its
/// own requests; then, in one un-quiesced burst, `b`'s heartbeat timer (replicating / committing
/// with the third member) races `a`'s election timer; finally `a` gets another request and
/// everybody's heartbeat timer is pumped. Which AppendEntries is still in flight when `a`
/// campaigns is decided by the schedule (the decision tape).
fn raft_figure8_strategy() -> impl Strategy<Value = RaftCase> {
    (
        0usize..6,
        1usize..=2,
        1usize..=2,
        proptest::collection::vec(0u8..4, 4),
        1usize..=3,
        prop_oneof![
            proptest::collection::vec(any::<u8>(), 0..128),
            proptest::collection::vec(any::<u8>(), 128..2048),
        ],
    )
        .prop_map(|(perm, ka, kb, order, rounds, tape)| {
            let perms = [[0u8, 1, 2], [0, 2, 1], [1, 0, 2], [1, 2, 0], [2, 0, 1], [2, 1, 0]];
            let [a, b, _c] = perms[perm];
            let mut script = vec![Ev::Election(a), Ev::Barrier];
            for _ in 0..ka {
                script.push(Ev::Request(a));
            }
            script.push(Ev::Barrier);
            script.push(Ev::Election(b));
            script.push(Ev::Barrier);
            for _ in 0..kb {
                script.push(Ev::Request(b));
            }
            script.push(Ev::Barrier);
            // the racy burst, in a generated order
            let burst = [Ev::Heartbeat(b), Ev::Election(a), Ev::Heartbeat(b), Ev::Request(a)];
            let mut idx: Vec<usize> = (0..4).collect();
            idx.sort_by_key(|i| (order[*i], *i));
            for i in idx {
                script.push(burst[i]);
            }
            script.push(Ev::Barrier);
            script.push(Ev::Request(a));
            script.push(Ev::Barrier);
            for _ in 0..rounds {
                for m in 0..N as u8 {
                    script.push(Ev::Heartbeat(m));
                }
                script.push(Ev::Barrier);
            }
            RaftCase { script, tape }
        })
}

fn raft_strategy() -> impl Strategy<Value = RaftCase> {
    prop_oneof![raft_random_strategy(), raft_race_strategy(), raft_figure8_strategy()]
}

fn raft_random_strategy() -> impl Strategy<Value = RaftCase> {
    (
        // an optional race-free prefix that gets a leader elected and an entry committed, so that
        // later candidates have something to be behind (same idea as the repository's tests)
        any::<bool>(),
        proptest::collection::vec(ev_strategy(), 4..40),
        prop_oneof![
            proptest::collection::vec(any::<u8>(), 0..64),
            proptest::collection::vec(any::<u8>(), 64..1024),
            proptest::collection::vec(any::<u8>(), 1024..4096),
        ],
    )
        .prop_map(|(seed_leader, mut script, tape)| {
            if seed_leader {
                let mut pre = vec![Ev::Election(0), Ev::Barrier, Ev::Request(0)];
                for _ in 0..3 {
                    pre.push(Ev::Heartbeat(0));
                    pre.push(Ev::Barrier);
                }
                pre.append(&mut script);
                script = pre;
            }
            RaftCase { script, tape }
        })
}

type Committed = Vec<Vec<RaftEntry>>;

fn run_raft(comp: &CompiledSim, p: &RaftPorts, c: &RaftCase) -> Result<Committed, SimPanic> {
    let mut committed: Committed = vec![vec![]; N];
    let tape = Some(c.tape.clone());
    drive_sim!(comp, &tape, async || {
        let mut req = 0;
        for ev in &c.script {
            match ev {
                Ev::Election(m) => p.election.send(*m as u32, ()),
                Ev::Heartbeat(m) => p.heartbeat.send(*m as u32, ()),
                Ev::Request(m) => {
                    p.request.send(*m as u32, format!("req-{req}@{m}"));
                    req += 1;
                }
                Ev::Barrier => {
                    hydro_lang::sim::quiesce().await;
                    for m in 0..N as u32 {
                        committed[m as usize].extend(p.committed.collect::<Vec<_>>(m).await);
                        let _: Vec<(String, Option<MemberId<Replica>>)> = p.redirected.collect(m).await;
                    }
                }
            }
        }
        for m in 0..N as u32 {
            committed[m as usize].extend(p.committed.collect::<Vec<_>>(m).await);
            let _: Vec<(String, Option<MemberId<Replica>>)> = p.redirected.collect(m).await;
        }
    })?;
    Ok(committed)
}

fn check_agreement(c: &Committed, script: &[Ev]) -> Result<(), Fail> {
    for (m, h) in c.iter().enumerate() {
        for (pos, e) in h.iter().enumerate() {
            if e.index != pos + 1 {
                return Err(Fail::new(
                    "raft:committed-positions-not-contiguous",
                    format!(
                        "member {m} emitted committed indexes {:?}; script {script:?}",
                        h.iter().map(|e| e.index).collect::<Vec<_>>()
                    ),
                ));
            }
        }
    }
    for a in 0..c.len() {
        for b in (a + 1)..c.len() {
            for (pos, (ea, eb)) in c[a].iter().zip(&c[b]).enumerate() {
                if ea != eb {
                    return Err(Fail::new(
                        "raft:different-entries-at-same-log-position",
                        format!(
                            "members {a} and {b} disagree at committed position {}: {ea:?} vs {eb:?}; script {script:?}",
                            pos + 1
                        ),
                    ));
                }
            }
        }
    }
    Ok(())
}

// ---------------------------------------------------------------------------------------------
// paxos components
// ---------------------------------------------------------------------------------------------

#[derive(Clone, Debug, Serialize, Deserialize)]
pub struct IndexCase {
    pub n: usize,
    /// number of items sent before a phase barrier (0 = everything at once)
    pub first: usize,
}

#[derive(Clone, Debug, Serialize, Deserialize)]
pub struct AccCase {
    /// (acceptor, ballot number, proposer) promised before phase 2
    pub ballots: Vec<(u8, u32, u8)>,
    /// (acceptor, sender/proposer, ballot number, slot)
    pub p2as: Vec<(u8, u8, u32, usize)>,
    pub tape: Option<Vec<u8>>,
}

const NP: usize = 2;
const NA: usize = 2;

fn ballot(num: u32, proposer: u8) -> PBallot {
    PBallot {
        num,
        proposer_id: MemberId::<Proposer>::from_raw_id(proposer as u32),
    }
}

/// the value a proposer sends for (ballot, slot): a function of both, so equal ballots agree
fn value_of(num: u32, proposer: u8, slot: usize) -> u32 {
    num * 100 + proposer as u32 * 10 + slot as u32
}

type Reply = ((usize, PBallot), Result<(), Option<PBallot>>);

struct AccRun {
    replies: Vec<Vec<Reply>>,
    logs: Vec<Vec<Vec<PLogRow>>>,
}

fn run_acceptor(comp: &CompiledSim, p: &AcceptorPorts, c: &AccCase) -> Result<Vec<AccRun>, SimPanic> {
    let mut runs: Vec<AccRun> = vec![];
    drive_sim!(comp, &c.tape, async || {
        p.ballots
            .send_many(c.ballots.iter().map(|(a, n, pr)| (*a as u32, ballot(*n, *pr))));
        hydro_lang::sim::quiesce().await;
        let mut logs: Vec<Vec<Vec<PLogRow>>> = vec![vec![]; NA];
        for a in 0..NA as u32 {
            logs[a as usize].extend(p.log.collect::<Vec<_>>(a).await);
        }
        p.p2as.send_many_unordered(c.p2as.iter().map(|(a, s, n, slot)| {
            (
                *a as u32,
                PP2a {
                    sender: MemberId::<Proposer>::from_raw_id(*s as u32),
                    ballot: ballot(*n, *s),
                    slot: *slot,
                    value: Some(value_of(*n, *s, *slot)),
                },
            )
        }));
        hydro_lang::sim::quiesce().await;
        let mut replies = vec![];
        for pr in 0..NP as u32 {
            replies.push(p.replies.collect_sorted::<Vec<Reply>>(pr).await);
        }
        for a in 0..NA as u32 {
            logs[a as usize].extend(p.log.collect::<Vec<_>>(a).await);
        }
        runs.push(AccRun { replies, logs });
    })?;
    Ok(runs)
}

fn check_acceptor(c: &AccCase, r: &AccRun) -> Result<(), Fail> {
    // promised ballot per acceptor after phase 1
    let mut promised: BTreeMap<u8, PBallot> = BTreeMap::new();
    for (a, n, pr) in &c.ballots {
        let b = ballot(*n, *pr);
        match promised.get(a) {
            Some(cur) if *cur >= b => {}
            _ => {
                promised.insert(*a, b);
            }
        }
    }
    // replies
    for pr in 0..NP as u8 {
        let mut want: Vec<Reply> = c
            .p2as
            .iter()
            .filter(|x| x.1 == pr)
            .map(|(a, s, n, slot)| {
                let b = ballot(*n, *s);
                let m = promised.get(a).cloned();
                ((*slot, b.clone()), if Some(&b) == m.as_ref() { Ok(()) } else { Err(m) })
            })
            .collect();
        want.sort();
        if want != r.replies[pr as usize] {
            return Err(Fail::new(
                "paxos acceptor_p2:p2b-reply-disagrees-with-promised-ballot",
                format!(
                    "proposer {pr}: expected replies {want:?}, got {:?}; case {c:?}",
                    r.replies[pr as usize]
                ),
            ));
        }
    }
    // log: every row is an accepted p2a (ballot >= promised); per slot the ballot never decreases;
    // the last snapshot holds, per slot, the highest-ballot acceptable p2a
    for a in 0..NA as u8 {
        let prom = promised.get(&a).cloned();
        let acceptable: Vec<(usize, u32, u32, Option<u32>)> = c
            .p2as
            .iter()
            .filter(|x| x.0 == a && Some(&ballot(x.2, x.1)) >= prom.as_ref())
            .map(|(_, s, n, slot)| (*slot, *n, *s as u32, Some(value_of(*n, *s, *slot))))
            .collect();
        let mut last: BTreeMap<usize, (u32, u32)> = BTreeMap::new();
        for snap in &r.logs[a as usize] {
            for row in snap {
                if !acceptable.contains(row) {
                    return Err(Fail::new(
                        "paxos acceptor_p2:log-holds-a-rejected-p2a",
                        format!("acceptor {a} (promised {prom:?}) logged {row:?}; case {c:?}"),
                    ));
                }
                if let Some(prev) = last.get(&row.0) {
                    if (row.1, row.2) < *prev {
                        return Err(Fail::new(
                            "paxos acceptor_p2:log-entry-replaced-by-lower-ballot",
                            format!("acceptor {a} slot {}: {prev:?} then {row:?}; case {c:?}", row.0),
                        ));
                    }
                }
                last.insert(row.0, (row.1, row.2));
            }
        }
    }
    Ok(())
}

pub fn run(ctx: &mut Ctx) {
    let tier = ctx.tier();
    ctx.assume("paxos_core / paxos_with_client cannot be compiled by the simulator at this commit (todo!: 'Reduce with optional intermediates is not yet supported in simulator'; elections are driven by wall-clock timers): only index_payloads and acceptor_p2 are exercised");
    // second raft driver: raft_step over harness-owned per-link FIFO queues (cheap, needs no
    // simulator compile, runs first)
    crate::raftstep::run(ctx);
    if crate::util::violated(ctx) {
        return;
    }
    let t0 = std::time::Instant::now();
    // probe: does the simulator accept paxos_core at all? (recorded in the evidence)
    let paxos_probe = {
        let mut flow = FlowBuilder::new();
        let proposers = flow.cluster::<Proposer>();
        let acceptors = flow.cluster::<Acceptor>();
        let _ports = paxos_prog(&proposers, &acceptors);
        match compile(
            flow.sim()
                .skip_consistency_assertions()
                .with_cluster_size(&proposers, 2)
                .with_cluster_size(&acceptors, 3),
        ) {
            Ok(_) => "compiles".to_string(),
            Err(p) => format!("rejected by the simulator: {}", p.msg),
        }
    };
    ctx.extra.insert("paxos_core_in_simulator".into(), paxos_probe.clone().into());

    let (raft, index, acc) = std::thread::scope(|s| {
        let a = s.spawn(|| {
            let mut flow = FlowBuilder::new();
            let cluster = flow.cluster::<Replica>();
            let ports = raft_prog(&cluster, N);
            compile(
                flow.sim()
                    .skip_consistency_assertions()
                    .with_cluster_size(&cluster, N),
            )
            .map(|c| (c, ports))
        });
        let b = s.spawn(|| {
            let mut flow = FlowBuilder::new();
            let node = flow.process::<()>();
            let ports = paxos_index_prog(&node);
            compile(flow.sim()).map(|c| (c, ports))
        });
        let c = s.spawn(|| {
            let mut flow = FlowBuilder::new();
            let proposers = flow.cluster::<Proposer>();
            let acceptors = flow.cluster::<Acceptor>();
            let ports = paxos_acceptor_prog(&proposers, &acceptors);
            compile(
                flow.sim()
                    .skip_consistency_assertions()
                    .with_cluster_size(&proposers, NP)
                    .with_cluster_size(&acceptors, NA),
            )
            .map(|c| (c, ports))
        });
        (a.join().unwrap(), b.join().unwrap(), c.join().unwrap())
    });
    let acc = match acc {
        Ok(a) => {
            ctx.extra.insert("paxos_acceptor_p2_in_simulator".into(), "compiles".into());
            Some(a)
        }
        Err(p) if p.msg.contains("not yet implemented") || p.msg.contains("not implemented") => {
            // the simulator refuses the component (e.g. `batch not implemented for kind Optional`):
            // recorded, the sub-check is skipped
            ctx.extra.insert(
                "paxos_acceptor_p2_in_simulator".into(),
                format!("rejected by the simulator: {}", p.msg).into(),
            );
            ctx.count_excluded("paxos acceptor_p2: not supported by the simulator at this commit", 1);
            None
        }
        Err(p) => {
            ctx.inconclusive(format!("cannot compile acceptor_p2: {} at {}", p.msg, p.loc));
            return;
        }
    };
    let (raft, index) = match (raft, index) {
        (Ok(a), Ok(b)) => (a, b),
        (a, b) => {
            for (n, e) in [("raft", a.err()), ("index_payloads", b.err())] {
                if let Some(p) = e {
                    ctx.inconclusive(format!("cannot compile {n}: {} at {}", p.msg, p.loc));
                }
            }
            return;
        }
    };
    ctx.extra
        .insert("sim_compile_secs".into(), t0.elapsed().as_secs_f64().into());
    let execs = Cell::new(0u64);
    let commits = Cell::new(0u64);

    let (rc, rp) = &raft;
    ctx.check("raft-tapes", tier.pick(4000, 80000), raft_strategy(), |c: &RaftCase, obs: &mut Obs| {
        obs.class("raft_3");
        // a panic inside staged code (e.g. raft_step's truncation guard) unwinds out of the
        // simulator dylib as a foreign exception and aborts this process; the supervising parent
        // (see `supervise`) reads this file to attribute the abort to the case
        let canary = canary_path();
        let _ = std::fs::write(&canary, serde_json::to_string(c).unwrap_or_default());
        let run = run_raft(rc, rp, c);
        let _ = std::fs::remove_file(&canary);
        let committed = match run {
            Ok(c) => c,
            Err(p) if p.msg.contains("protocol violation") => {
                return Err(Fail::new(
                    "raft:truncation-guard-fired",
                    format!("{} at {}; script {:?}", p.msg, p.loc, c.script),
                ));
            }
            Err(p) => return Err(panic_fail("raft", &p)),
        };
        execs.set(execs.get() + 1);
        let candidates: BTreeSet<u8> = c
            .script
            .iter()
            .filter_map(|e| if let Ev::Election(m) = e { Some(*m) } else { None })
            .collect();
        let any_commit = committed.iter().any(|h| !h.is_empty());
        if any_commit {
            commits.set(commits.get() + 1);
            obs.class("raft:committed>=1");
        }
        let terms: BTreeSet<usize> = committed.iter().flatten().map(|e| e.term_received).collect();
        if terms.len() >= 2 {
            obs.class("raft:entries-from->=2-terms");
        }
        obs.nontrivial(candidates.len() >= 2 && any_commit);
        check_agreement(&committed, &c.script)
    });

    if crate::util::violated(ctx) {
        return;
    }
    let (ic, (isend, iout)) = &index;
    let mut icases = vec![];
    for n in 1..=tier.pick(5, 6) {
        for first in 0..n {
            icases.push(IndexCase { n, first });
        }
    }
    ctx.check_all("paxos-index-payloads-exhaustive", icases, |c: &IndexCase, obs: &mut Obs| {
        obs.class("paxos index_payloads");
        obs.nontrivial(c.n >= 3);
        let items: Vec<i32> = (0..c.n as i32).map(|x| x + 10).collect();
        let mut outs: Vec<Vec<(usize, i32)>> = vec![];
        let none: Option<Vec<u8>> = None;
        drive_sim!(ic, &none, async || {
            let mut all: Vec<(usize, i32)> = vec![];
            if c.first > 0 {
                isend.send_many(items[..c.first].to_vec());
                hydro_lang::sim::quiesce().await;
                all.extend(iout.collect::<Vec<_>>().await);
                isend.send_many(items[c.first..].to_vec());
            } else {
                isend.send_many(items.clone());
            }
            all.extend(iout.collect::<Vec<_>>().await);
            outs.push(all);
        })
        .map_err(|p| panic_fail("paxos index_payloads", &p))?;
        execs.set(execs.get() + outs.len() as u64);
        let want: Vec<(usize, i32)> = items.iter().copied().enumerate().collect();
        for o in &outs {
            let slots: BTreeSet<usize> = o.iter().map(|x| x.0).collect();
            if slots.len() != o.len() {
                return Err(Fail::new(
                    "paxos index_payloads:slot-assigned-twice",
                    format!("{o:?}"),
                ));
            }
            if *o != want {
                return Err(Fail::new(
                    "paxos index_payloads:slots-not-consecutive-in-arrival-order",
                    format!("expected {want:?}, got {o:?}"),
                ));
            }
        }
        Ok(())
    });

    if let Some((ac, ap)) = &acc {
        let acc_strategy = |with_tape: bool, max_p2a: usize| {
            (
                proptest::collection::vec((0u8..NA as u8, 0u32..4, 0u8..NP as u8), 0..4),
                proptest::collection::vec((0u8..NA as u8, 0u8..NP as u8, 0u32..4, 0usize..2), 1..=max_p2a),
                proptest::collection::vec(any::<u8>(), 0..300),
            )
                .prop_map(move |(ballots, mut p2as, tape)| {
                    // a proposer sends one p2a per (acceptor, ballot, slot)
                    p2as.sort();
                    p2as.dedup();
                    AccCase {
                        ballots,
                        p2as,
                        tape: if with_tape { Some(tape) } else { None },
                    }
                })
        };
        let body = |c: &AccCase, obs: &mut Obs| -> Result<(), Fail> {
            obs.class("paxos acceptor_p2");
            obs.nontrivial(c.p2as.len() >= 2 && !c.ballots.is_empty());
            let runs = run_acceptor(ac, ap, c).map_err(|p| panic_fail("paxos acceptor_p2", &p))?;
            execs.set(execs.get() + runs.len() as u64);
            for r in &runs {
                check_acceptor(c, r)?;
            }
            Ok(())
        };
        ctx.check("paxos-acceptor-p2-exhaustive", tier.pick(40, 800), acc_strategy(false, 3), &body);
        ctx.check("paxos-acceptor-p2-tapes", tier.pick(150, 4000), acc_strategy(true, 8), &body);
    }

    ctx.extra.insert("program_executions_checked".into(), execs.get().into());
    ctx.extra.insert("raft_runs_with_a_commit".into(), commits.get().into());
}
