//! C31 (simulator half): slices partition streams, snapshots are monotone, state hooks carry
//! their value to the next slice. Every slice emits its raw observation; all schedules for <=4
//! input items (`exhaustive()`), sampled decision tapes beyond.

use std::cell::Cell;
use std::collections::BTreeMap;

use hydro_lang::prelude::*;
use hydro_lang::sim::compiled::CompiledSim;
use serde::{Deserialize, Serialize};
use vcommon::proptest;
use vcommon::proptest::prelude::*;
use vcommon::{Ctx, Fail, Obs};
use vsim::progs::*;

use crate::drive_sim;
use crate::proglevel::*;

#[derive(Clone, Copy, Debug, PartialEq, Eq, Serialize, Deserialize)]
pub enum SProg {
    BatchCount,
    BatchUnordered,
    State,
    StateNull,
    KeyedSnapshot,
}

const SPROGS: [SProg; 5] = [
    SProg::BatchCount,
    SProg::BatchUnordered,
    SProg::State,
    SProg::StateNull,
    SProg::KeyedSnapshot,
];

impl SProg {
    fn name(self) -> &'static str {
        match self {
            SProg::BatchCount => "sliced_batch_count",
            SProg::BatchUnordered => "sliced_batch_unordered",
            SProg::State => "sliced_state",
            SProg::StateNull => "sliced_state_null",
            SProg::KeyedSnapshot => "sliced_keyed_snapshot",
        }
    }
}

#[derive(Clone, Debug, Serialize, Deserialize)]
pub struct SCase {
    pub prog: SProg,
    /// (key, value); the key is only used by the keyed program
    pub items: Vec<(u8, i32)>,
    pub tape: Option<Vec<u8>>,
}

struct Built {
    batch_count: (CompiledSim, (OrdSend<i32>, OrdRecv<(Vec<i32>, usize)>)),
    batch_unordered: (CompiledSim, (NoSend<i32>, OrdRecv<Vec<i32>>)),
    state: (CompiledSim, (OrdSend<i32>, OrdRecv<(i32, Vec<i32>, i32)>)),
    state_null: (CompiledSim, (OrdSend<i32>, OrdRecv<(Vec<i32>, Vec<i32>)>)),
    keyed: (CompiledSim, (OrdSend<(u8, i32)>, OrdRecv<Vec<(u8, i32)>>)),
}

macro_rules! build1 {
    ($f:path) => {{
        let mut flow = FlowBuilder::new();
        let node = flow.process::<()>();
        let ports = $f(&node);
        compile(flow.sim()).map(|c| (c, ports))
    }};
}

fn build_all() -> Result<Built, SimPanic> {
    // compile concurrently (five independent trybuild jobs)
    std::thread::scope(|s| {
        let a = s.spawn(|| build1!(sliced_batch_count));
        let b = s.spawn(|| build1!(sliced_batch_unordered));
        let c = s.spawn(|| build1!(sliced_state));
        let d = s.spawn(|| build1!(sliced_state_null));
        let e = s.spawn(|| build1!(sliced_keyed_snapshot));
        Ok(Built {
            batch_count: a.join().unwrap()?,
            batch_unordered: b.join().unwrap()?,
            state: c.join().unwrap()?,
            state_null: d.join().unwrap()?,
            keyed: e.join().unwrap()?,
        })
    })
}

fn partition_check(name: &str, ordered: bool, input: &[i32], batches: &[Vec<i32>]) -> Result<(), Fail> {
    let mut got: Vec<i32> = batches.iter().flatten().copied().collect();
    let mut want = input.to_vec();
    if !ordered {
        got.sort();
        want.sort();
    }
    if got != want {
        return Err(Fail::new(
            format!("{name}:batches-do-not-partition-the-input"),
            format!("input {want:?}, observed batches {batches:?}"),
        ));
    }
    Ok(())
}

/// Returns (number of slice executions, number of non-empty batches).
fn check_case(b: &Built, c: &SCase, execs: &Cell<u64>) -> Result<(usize, usize), Fail> {
    let name = c.prog.name();
    let vals: Vec<i32> = c.items.iter().map(|x| x.1).collect();
    let mut most = (0usize, 0usize);
    let mut note = |slices: usize, nonempty: usize| {
        if nonempty > most.1 || (nonempty == most.1 && slices > most.0) {
            most = (slices, nonempty);
        }
    };
    match c.prog {
        SProg::BatchCount => {
            let (comp, (send, out)) = &b.batch_count;
            let mut outs: Vec<Vec<(Vec<i32>, usize)>> = vec![];
            drive_sim!(comp, &c.tape, async || {
                send.send_many(vals.clone());
                let all: Vec<(Vec<i32>, usize)> = out.collect().await;
                outs.push(all);
            })
            .map_err(|p| panic_fail(name, &p))?;
            execs.set(execs.get() + outs.len() as u64);
            for o in &outs {
                let batches: Vec<Vec<i32>> = o.iter().map(|x| x.0.clone()).collect();
                partition_check(name, true, &vals, &batches)?;
                let snaps: Vec<usize> = o.iter().map(|x| x.1).collect();
                if snaps.windows(2).any(|w| w[1] < w[0]) {
                    return Err(Fail::new(format!("{name}:snapshot-went-back"), format!("{o:?}")));
                }
                if snaps.iter().any(|s| *s > vals.len()) {
                    return Err(Fail::new(format!("{name}:snapshot-exceeds-input"), format!("{o:?}")));
                }
                note(o.len(), batches.iter().filter(|x| !x.is_empty()).count());
            }
        }
        SProg::BatchUnordered => {
            let (comp, (send, out)) = &b.batch_unordered;
            let mut outs: Vec<Vec<Vec<i32>>> = vec![];
            drive_sim!(comp, &c.tape, async || {
                send.send_many_unordered(vals.clone());
                let all: Vec<Vec<i32>> = out.collect().await;
                outs.push(all);
            })
            .map_err(|p| panic_fail(name, &p))?;
            execs.set(execs.get() + outs.len() as u64);
            for o in &outs {
                partition_check(name, false, &vals, o)?;
                note(o.len(), o.iter().filter(|x| !x.is_empty()).count());
            }
        }
        SProg::State => {
            let (comp, (send, out)) = &b.state;
            let mut outs: Vec<Vec<(i32, Vec<i32>, i32)>> = vec![];
            drive_sim!(comp, &c.tape, async || {
                send.send_many(vals.clone());
                let all: Vec<(i32, Vec<i32>, i32)> = out.collect().await;
                outs.push(all);
            })
            .map_err(|p| panic_fail(name, &p))?;
            execs.set(execs.get() + outs.len() as u64);
            for o in &outs {
                let batches: Vec<Vec<i32>> = o.iter().map(|x| x.1.clone()).collect();
                partition_check(name, true, &vals, &batches)?;
                let mut prev_after = 0;
                for (before, batch, after) in o {
                    if *before != prev_after {
                        return Err(Fail::new(
                            format!("{name}:state-not-carried-to-next-slice"),
                            format!("slice starts with state {before}, previous slice ended with {prev_after}: {o:?}"),
                        ));
                    }
                    if *after != before + batch.iter().sum::<i32>() {
                        return Err(Fail::new(format!("{name}:state-update-wrong"), format!("{o:?}")));
                    }
                    prev_after = *after;
                }
                note(o.len(), batches.iter().filter(|x| !x.is_empty()).count());
            }
        }
        SProg::StateNull => {
            let (comp, (send, out)) = &b.state_null;
            let mut outs: Vec<Vec<(Vec<i32>, Vec<i32>)>> = vec![];
            drive_sim!(comp, &c.tape, async || {
                send.send_many(vals.clone());
                let all: Vec<(Vec<i32>, Vec<i32>)> = out.collect().await;
                outs.push(all);
            })
            .map_err(|p| panic_fail(name, &p))?;
            execs.set(execs.get() + outs.len() as u64);
            for o in &outs {
                let batches: Vec<Vec<i32>> = o.iter().map(|x| x.1.clone()).collect();
                partition_check(name, true, &vals, &batches)?;
                let mut prev: Vec<i32> = vec![];
                for (carried, batch) in o {
                    if *carried != prev {
                        return Err(Fail::new(
                            format!("{name}:state-not-carried-to-next-slice"),
                            format!("slice sees carried {carried:?}, previous slice stored {prev:?}: {o:?}"),
                        ));
                    }
                    prev = batch.clone();
                }
                note(o.len(), batches.iter().filter(|x| !x.is_empty()).count());
            }
        }
        SProg::KeyedSnapshot => {
            let (comp, (send, out)) = &b.keyed;
            let mut outs: Vec<Vec<Vec<(u8, i32)>>> = vec![];
            drive_sim!(comp, &c.tape, async || {
                send.send_many(c.items.clone());
                let all: Vec<Vec<(u8, i32)>> = out.collect().await;
                outs.push(all);
            })
            .map_err(|p| panic_fail(name, &p))?;
            execs.set(execs.get() + outs.len() as u64);
            // versions of each key: running maxima of its inputs
            let mut versions: BTreeMap<u8, Vec<i32>> = BTreeMap::new();
            for (k, v) in &c.items {
                let e = versions.entry(*k).or_default();
                let m = e.last().map_or(*v, |l| (*l).max(*v));
                e.push(m);
            }
            let finals: BTreeMap<u8, i32> = versions.iter().map(|(k, v)| (*k, *v.last().unwrap())).collect();
            for o in &outs {
                let mut last: BTreeMap<u8, i32> = BTreeMap::new();
                for snap in o {
                    let m: BTreeMap<u8, i32> = snap.iter().copied().collect();
                    if m.len() != snap.len() {
                        return Err(Fail::new(format!("{name}:key-twice-in-snapshot"), format!("{o:?}")));
                    }
                    for (k, v) in &last {
                        match m.get(k) {
                            None => {
                                return Err(Fail::new(format!("{name}:key-vanished"), format!("{o:?}")));
                            }
                            Some(nv) if nv < v => {
                                return Err(Fail::new(format!("{name}:snapshot-went-back"), format!("{o:?}")));
                            }
                            _ => {}
                        }
                    }
                    for (k, v) in &m {
                        if !versions.get(k).is_some_and(|vs| vs.contains(v)) {
                            return Err(Fail::new(format!("{name}:snapshot-not-a-version"), format!("{o:?}")));
                        }
                    }
                    last = m;
                }
                if !c.items.is_empty() && last != finals {
                    return Err(Fail::new(
                        format!("{name}:final-snapshot-stale"),
                        format!("last snapshot {last:?}, final state {finals:?}: {o:?}"),
                    ));
                }
                note(o.len(), o.len());
            }
        }
    }
    Ok(most)
}

pub fn run(ctx: &mut Ctx) {
    let tier = ctx.tier();
    let t0 = std::time::Instant::now();
    let built = match build_all() {
        Ok(b) => b,
        Err(p) => {
            ctx.inconclusive(format!("cannot compile slice programs: {} at {}", p.msg, p.loc));
            return;
        }
    };
    ctx.extra
        .insert("sim_compile_secs".into(), t0.elapsed().as_secs_f64().into());
    let execs = Cell::new(0u64);

    // all schedules for 0..=4 items
    let mut enumerated = vec![];
    let n_max = tier.pick(5, 6);
    for prog in SPROGS {
        for n in 0..=n_max {
            if prog == SProg::KeyedSnapshot {
                // two keys, interleaved; values chosen so that maxima change
                for pat in 0..(1u32 << n.min(3)) {
                    let items: Vec<(u8, i32)> = (0..n)
                        .map(|i| (((pat >> i.min(2)) & 1) as u8, [3, 1, 4, 1, 5, 9, 2, 6][i]))
                        .collect();
                    enumerated.push(SCase { prog, items, tape: None });
                }
            } else {
                let items: Vec<(u8, i32)> = (0..n).map(|i| (0, i as i32 + 1)).collect();
                enumerated.push(SCase { prog, items, tape: None });
            }
        }
    }
    ctx.check_all("slices-exhaustive", enumerated, |c: &SCase, obs: &mut Obs| {
        obs.class(format!("prog:{}", c.prog.name()));
        let (slices, nonempty) = check_case(&built, c, &execs)?;
        obs.nontrivial(slices >= 3 && nonempty >= 2);
        Ok(())
    });

    if crate::util::violated(ctx) {
        return;
    }
    let strat = (
        0..SPROGS.len(),
        proptest::collection::vec((0u8..3, -5i32..20), 5..=10),
        proptest::collection::vec(any::<u8>(), 0..400),
    )
        .prop_map(|(p, items, tape)| SCase {
            prog: SPROGS[p],
            items,
            tape: Some(tape),
        });
    ctx.check("slices-tapes", tier.pick(3000, 80000), strat, |c: &SCase, obs: &mut Obs| {
        obs.class(format!("prog:{}", c.prog.name()));
        let (slices, nonempty) = check_case(&built, c, &execs)?;
        obs.nontrivial(slices >= 3 && nonempty >= 2);
        Ok(())
    });
    ctx.extra.insert("program_executions_checked".into(), execs.get().into());
}
