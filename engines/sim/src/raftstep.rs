//! C40, second driver: the public, pure `hydro_test::cluster::raft::raft_step` run over
//! harness-owned FIFO queues, one per directed link (the fail-stop TCP model: per-link order, no
//! loss, no duplication, arbitrary delay), under a *generated delivery schedule*: every tick names
//! a member, which timers fire, whether a client request arrives, and how long a prefix of each
//! incoming link is delivered. Same oracle as the simulator half: committed positions contiguous,
//! committed histories pairwise prefix-consistent after every tick, and `raft_step`'s own guard
//! against truncating a committed entry never fires.
//!
//! Two generators: unconstrained random schedules, and a "figure-8 family" (RAFT paper fig. 8
//! shape): a leader appends without replicating, another member wins the next term and commits
//! at the same index while its AppendEntries to the old leader is withheld on the link, the old
//! leader's election timer fires and it campaigns with an older last term but an equally long log.

use std::collections::{BTreeSet, VecDeque};

use hydro_lang::location::MemberId;
use hydro_test::cluster::raft::{
    LogEntry, RaftRpc, RaftServerState, RaftState, RaftStepInput, Replica, raft_step,
};
use serde::{Deserialize, Serialize};
use vcommon::proptest;
use vcommon::proptest::prelude::*;
use vcommon::{Ctx, Fail, Obs};

const N: usize = 3;
/// `deliver[from] == ALL`: deliver everything in flight on that link
const ALL: u8 = 255;

#[derive(Clone, Copy, Debug, PartialEq, Eq, Serialize, Deserialize)]
pub struct Tick {
    pub member: u8,
    pub election: bool,
    pub heartbeat: bool,
    pub request: bool,
    /// per source member: length of the prefix of link `from -> member` delivered in this tick
    pub deliver: [u8; N],
}

#[derive(Clone, Debug, Serialize, Deserialize)]
pub struct DCase {
    pub ticks: Vec<Tick>,
}

fn id(m: usize) -> MemberId<Replica> {
    MemberId::from_raw_id(m as u32)
}

#[derive(Default)]
pub struct Stats {
    pub commits: usize,
    pub terms_with_entries: usize,
    pub leader_change_after_unreplicated_append: bool,
    pub leaders_elected: usize,
}

pub fn run_case(c: &DCase) -> Result<Stats, Fail> {
    let mut states: Vec<RaftServerState<u32, Replica>> = (0..N).map(|_| RaftServerState::new()).collect();
    let mut links: Vec<Vec<VecDeque<RaftRpc<u32, Replica>>>> =
        (0..N).map(|_| (0..N).map(|_| VecDeque::new()).collect()).collect();
    let mut committed: Vec<Vec<LogEntry<u32>>> = vec![vec![]; N];
    let mut next_req = 1u32;
    let mut stats = Stats::default();
    let mut terms: BTreeSet<usize> = BTreeSet::new();

    for (step, t) in c.ticks.iter().enumerate() {
        let m = t.member as usize % N;
        let mut messages = vec![];
        for from in 0..N {
            if from == m {
                continue;
            }
            let k = t.deliver[from];
            let mut n = 0u8;
            while k == ALL || n < k {
                match links[from][m].pop_front() {
                    Some(msg) => messages.push((id(from), msg)),
                    None => break,
                }
                n += 1;
            }
        }
        let requests = if t.request {
            next_req += 1;
            vec![next_req * 10 + m as u32]
        } else {
            vec![]
        };
        let was_leader = states[m].role == RaftState::Leader;
        let input = RaftStepInput {
            me: id(m),
            other_members: (0..N).filter(|x| *x != m).map(id).collect(),
            cluster_size: N,
            election_timer_fired: t.election,
            heartbeat_timer_fired: t.heartbeat,
            requests,
            messages,
        };
        let st = &mut states[m];
        let out = match std::panic::catch_unwind(std::panic::AssertUnwindSafe(|| raft_step(st, input))) {
            Ok(o) => o,
            Err(p) => {
                let msg = vcommon::panic_msg(&p);
                let _ = crate::util::take_panics();
                let sig = if msg.contains("truncate committed") || msg.contains("protocol violation") {
                    "raft_step:truncation-guard-fired".to_string()
                } else {
                    format!("raft_step:panic:{}", crate::util::squash(&msg))
                };
                return Err(Fail::new(sig, format!("tick {step} ({t:?}): raft_step panicked: {msg}")));
            }
        };
        for (target, msg) in out.outbound {
            links[m][target.get_raw_id() as usize % N].push_back(msg);
        }
        committed[m].extend(out.committed);

        if !was_leader && states[m].role == RaftState::Leader {
            stats.leaders_elected += 1;
            // does some other member hold an entry the new leader lacks?
            let mine: BTreeSet<(usize, usize)> =
                states[m].log.iter().map(|e| (e.index, e.term_received)).collect();
            for (x, s) in states.iter().enumerate() {
                if x != m && s.log.iter().any(|e| !mine.contains(&(e.index, e.term_received))) {
                    stats.leader_change_after_unreplicated_append = true;
                }
            }
        }
        for s in &states {
            for e in &s.log {
                terms.insert(e.term_received);
            }
        }

        // oracle, after every tick
        for (mm, h) in committed.iter().enumerate() {
            for (pos, e) in h.iter().enumerate() {
                if e.index != pos + 1 {
                    return Err(Fail::new(
                        "raft_step:committed-positions-not-contiguous",
                        format!(
                            "after tick {step}: member {mm} emitted committed indexes {:?}",
                            h.iter().map(|e| e.index).collect::<Vec<_>>()
                        ),
                    ));
                }
            }
        }
        for a in 0..N {
            for b in (a + 1)..N {
                for (pos, (ea, eb)) in committed[a].iter().zip(&committed[b]).enumerate() {
                    if ea != eb {
                        return Err(Fail::new(
                            "raft_step:different-entries-at-same-log-position",
                            format!(
                                "after tick {step} ({t:?}): members {a} and {b} disagree at committed position {}: {ea:?} vs {eb:?}",
                                pos + 1
                            ),
                        ));
                    }
                }
            }
        }
    }
    stats.commits = committed.iter().map(|h| h.len()).max().unwrap_or(0);
    stats.terms_with_entries = terms.len();
    Ok(stats)
}

fn tick(member: usize) -> Tick {
    Tick {
        member: member as u8,
        election: false,
        heartbeat: false,
        request: false,
        deliver: [0; N],
    }
}

fn deliver(member: usize, from: &[usize], k: u8) -> Tick {
    let mut t = tick(member);
    for f in from {
        t.deliver[*f] = k;
    }
    t
}

fn random_tick() -> impl Strategy<Value = Tick> {
    (
        0u8..N as u8,
        proptest::bool::weighted(0.12),
        proptest::bool::weighted(0.35),
        proptest::bool::weighted(0.25),
        proptest::array::uniform3(prop_oneof![2 => Just(0u8), 5 => Just(ALL), 2 => Just(1u8), 1 => Just(2u8)]),
    )
        .prop_map(|(member, election, heartbeat, request, deliver)| Tick {
            member,
            election,
            heartbeat,
            request,
            deliver,
        })
}

pub fn random_schedule() -> impl Strategy<Value = DCase> {
    proptest::collection::vec(random_tick(), 8..70).prop_map(|ticks| DCase { ticks })
}

/// Figure-8 family; all shape parameters are generated.
pub fn figure8_schedule() -> impl Strategy<Value = DCase> {
    (
        0usize..6,                                        // which permutation (a, b, c)
        1usize..=2,                                       // entries the first leader appends, unreplicated
        1usize..=2,                                       // entries the second leader appends
        prop_oneof![3 => Just(1u8), 1 => Just(0u8), 1 => Just(2u8), 1 => Just(ALL)], // prefix of link b->a let through before a's timer
        any::<bool>(),                                    // does a hear b's candidacy before c?
        any::<bool>(),                                    // is b's heartbeat delivered to c before a times out?
        1usize..=3,                                       // rounds of the re-elected a pumping its log
        proptest::collection::vec((random_tick(), 0usize..40), 0..4), // noise ticks and where they go
        0usize..=2,                                       // final all-to-all rounds
    )
        .prop_map(|(perm, ka, kb, through, a_first, commit_first, rounds, noise, finals)| {
            let perms = [[0, 1, 2], [0, 2, 1], [1, 0, 2], [1, 2, 0], [2, 0, 1], [2, 1, 0]];
            let [a, b, c] = perms[perm];
            let mut s: Vec<Tick> = vec![];
            // (1) a wins a term and appends without replicating
            let mut t = tick(a);
            t.election = true;
            s.push(t);
            s.push(deliver(b, &[a], ALL));
            s.push(deliver(c, &[a], ALL));
            s.push(deliver(a, &[b, c], ALL));
            for _ in 0..ka {
                let mut t = tick(a);
                t.request = true;
                s.push(t);
            }
            // (2) b wins the next term (c grants; a refuses or has not heard yet)
            let mut t = tick(b);
            t.election = true;
            s.push(t);
            if a_first {
                s.push(deliver(a, &[b], ALL));
                s.push(deliver(c, &[b], ALL));
            } else {
                s.push(deliver(c, &[b], ALL));
            }
            s.push(deliver(b, &[a, c], ALL));
            for _ in 0..kb {
                let mut t = tick(b);
                t.request = true;
                s.push(t);
            }
            let mut t = tick(b);
            t.heartbeat = true;
            s.push(t);
            if commit_first {
                s.push(deliver(c, &[b], ALL));
                s.push(deliver(b, &[c], ALL));
            }
            // (3) a's election timer fires while b's AppendEntries sits on the link b -> a
            let mut t = deliver(a, &[b], through);
            t.election = true;
            s.push(t);
            if !commit_first {
                s.push(deliver(c, &[b], ALL));
                s.push(deliver(b, &[c], ALL));
            }
            s.push(deliver(c, &[a], ALL));
            s.push(deliver(a, &[c], ALL));
            // (4) a gets a request and pumps; traffic between a and c flows
            let mut t = tick(a);
            t.request = true;
            s.push(t);
            for _ in 0..rounds {
                let mut t = tick(a);
                t.heartbeat = true;
                s.push(t);
                s.push(deliver(c, &[a], ALL));
                s.push(deliver(a, &[c], ALL));
            }
            for _ in 0..finals {
                for m in 0..N {
                    let mut t = deliver(m, &[0, 1, 2], ALL);
                    t.heartbeat = true;
                    s.push(t);
                }
            }
            for (t, pos) in noise {
                let p = pos.min(s.len());
                s.insert(p, t);
            }
            DCase { ticks: s }
        })
}

pub fn run(ctx: &mut Ctx) {
    let tier = ctx.tier();
    let body = |c: &DCase, obs: &mut Obs| -> Result<(), Fail> {
        let st = run_case(c)?;
        if st.commits >= 1 {
            obs.class("raft_step:committed>=1");
        }
        if st.terms_with_entries >= 2 {
            obs.class("raft_step:entries-from->=2-terms");
        }
        if st.leader_change_after_unreplicated_append {
            obs.class("raft_step:leader-change-after-unreplicated-append");
        }
        if st.leaders_elected >= 2 {
            obs.class("raft_step:>=2-leaders-elected");
        }
        obs.nontrivial(st.leaders_elected >= 2 && st.commits >= 1);
        Ok(())
    };
    ctx.check("raft-step-figure8-family", tier.pick(6000, 200000), figure8_schedule(), &body);
    if crate::util::violated(ctx) {
        return;
    }
    ctx.check("raft-step-random-schedules", tier.pick(40000, 1500000), random_schedule(), &body);
}
