//! Developer experiments (`--prop X-exp`): not a registered check.

use hydro_lang::prelude::*;

use crate::proglevel::*;

pub fn run() {
    let mut flow = FlowBuilder::new();
    let proposers = flow.cluster::<hydro_test::cluster::paxos::Proposer>();
    let acceptors = flow.cluster::<hydro_test::cluster::paxos::Acceptor>();
    let ports = vsim::progs::paxos_prog(&proposers, &acceptors);
    let t0 = std::time::Instant::now();
    let c = compile(
        flow.sim()
            .skip_consistency_assertions()
            .with_cluster_size(&proposers, 2)
            .with_cluster_size(&acceptors, 3),
    );
    println!("paxos compile: {:?} in {:?}", c.as_ref().map(|_| ()), t0.elapsed());
    let Ok(c) = c else { return };
    let mut out = String::new();
    let r = sim_guard(|| {
        c.fuzz_repro(vec![1, 2, 3, 4, 5, 6, 7, 8], async |inst| {
            inst.run_with_scheduler_and_logger(std::io::sink(), async {
                ports.payloads.send(0, 7);
                ports.payloads.send(1, 8);
                let a: Vec<(usize, Option<u32>)> = ports.decided.collect_sorted(0).await;
                let b: Vec<(usize, Option<u32>)> = ports.decided.collect_sorted(1).await;
                out = format!("{a:?} {b:?}");
            })
            .await;
        })
    });
    println!("paxos run: {r:?} {out}");
}
// touch
