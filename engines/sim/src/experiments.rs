//! Developer experiments (`--prop X-exp`): not a registered check.

use std::collections::BTreeSet;

use hydro_lang::prelude::*;

use crate::proglevel::*;

pub fn run() {
    {
        let mut flow = FlowBuilder::new();
        let node = flow.process::<()>();
        let (send, out) = vsim::progs::snapshot_count(&node);
        let c = compile(flow.sim()).unwrap();
        let mut outs = BTreeSet::new();
        let n = sim_guard(|| {
            c.exhaustive(async || {
                send.send_many([7, 8, 9]);
                let all: Vec<usize> = out.collect().await;
                outs.insert(all);
            })
        });
        println!("snapshot_count: {n:?} {outs:?}");
    }
    {
        let mut flow = FlowBuilder::new();
        let node = flow.process::<()>();
        let (send, out) = vsim::progs::batch_unordered(&node);
        let c = compile(flow.sim()).unwrap();
        let mut outs = BTreeSet::new();
        let n = sim_guard(|| {
            c.exhaustive(async || {
                send.send_many_unordered([1, 2, 3]);
                let all: Vec<Vec<i32>> = out.collect().await;
                outs.insert(all);
            })
        });
        println!("batch_unordered: {n:?} {} {outs:?}", outs.len());
    }
    {
        let mut flow = FlowBuilder::new();
        let node = flow.process::<()>();
        let (send, out) = vsim::progs::sliced_batch_count(&node);
        let c = compile(flow.sim()).unwrap();
        let mut outs = BTreeSet::new();
        let n = sim_guard(|| {
            c.exhaustive(async || {
                send.send_many([1, 2, 3]);
                let all: Vec<(Vec<i32>, usize)> = out.collect().await;
                outs.insert(all);
            })
        });
        println!("sliced_batch_count: {n:?} {} {outs:?}", outs.len());
    }
    {
        let mut flow = FlowBuilder::new();
        let node = flow.process::<()>();
        let (send, out) = vsim::progs::fold_unordered_snapshot(&node);
        let c = compile(flow.sim()).unwrap();
        let mut outs = BTreeSet::new();
        let n = sim_guard(|| {
            c.exhaustive(async || {
                send.send_many_unordered([1, 2, 4]);
                let all: Vec<i32> = out.collect().await;
                outs.insert(all);
            })
        });
        println!("fold_unordered_snapshot: {n:?} {} {outs:?}", outs.len());
    }
    {
        let mut flow = FlowBuilder::new();
        let node = flow.process::<()>();
        let (send, send_b, out) = vsim::progs::fold_snapshot_with_batch(&node);
        let c = compile(flow.sim()).unwrap();
        let mut outs = BTreeSet::new();
        let n = sim_guard(|| {
            c.exhaustive(async || {
                send.send_many_unordered([1, 2]);
                send_b.send_many([10, 20]);
                let all: Vec<(Vec<i32>, i32)> = out.collect().await;
                outs.insert(all);
            })
        });
        println!("fold_snapshot_with_batch: {n:?} {} {outs:?}", outs.len());
    }
    {
        let mut flow = FlowBuilder::new();
        let node = flow.process::<()>();
        let (send, out) = vsim::progs::sliced_state(&node);
        let c = compile(flow.sim()).unwrap();
        let mut outs = BTreeSet::new();
        let n = sim_guard(|| {
            c.exhaustive(async || {
                send.send_many([1, 2, 3]);
                let all: Vec<(i32, Vec<i32>, i32)> = out.collect().await;
                outs.insert(all);
            })
        });
        println!("sliced_state: {n:?} {} {outs:?}", outs.len());
    }
}
