//! Engine E6 `sim`: C31, C34, C36-C40 against `hydro_lang::sim` (see /verif/DESIGN.md).

mod c31;
mod c34;
mod c38;
mod c39;
mod c40;
mod experiments;
mod hookchecks;
mod hooklevel;
mod progchecks;
mod proglevel;
mod raftstep;
mod tape;
mod util;

use vcommon::{Args, Ctx};

use util::violated;

/// A hang is never a verdict: after the budget the process exits 2 (inconclusive), or 1 if a
/// violation had already been printed.
fn watchdog(prop: String, secs: u64) {
    std::thread::spawn(move || {
        std::thread::sleep(std::time::Duration::from_secs(secs));
        let seen = util::VIOLATION_SEEN.load(std::sync::atomic::Ordering::SeqCst);
        println!("INCONCLUSIVE property={prop} watchdog: no result after {secs}s (hang or overload)");
        std::process::exit(if seen { 1 } else { 2 });
    });
}

fn main() {
    let args = Args::parse();
    util::install_panic_hook();
    colored::control::set_override(false);
    if let Some(job) = args.extra.get("child") {
        c38::child_main(job);
    }
    if args.prop == "C40" && !args.extra.contains_key("inner") {
        c40::supervise(args);
    }
    let mut ctx = Ctx::new(args);
    watchdog(ctx.prop().to_string(), ctx.tier().pick(90 * 60, 10 * 3600));
    // harness / infrastructure trouble is never a verdict
    ctx.soft_prefixes = vec!["harness:".to_string()];
    // a vacuous run must not look like a pass (DESIGN section 5)
    ctx.floor = match ctx.prop() {
        "C36" | "C37" => 2000,
        "C38" => 300,
        "C39" => 200,
        "C40" => 1000,
        "C31" => 500,
        "C34" => 300,
        _ => 2,
    };
    match ctx.prop().to_string().as_str() {
        "C36" => {
            ctx.rule = "hook level: every scenario = hook kind(s) of one tick/observation x layout of <=4 (thorough 5) uniquely numbered items over <=2 keys / 2 merge inputs x split into <=3 instalments x 1-2 scheduling attempts per instalment, resolved through the scheduler's run_hooks (and, for solo hooks, through the bare SimHook API with both force values); ALL decision tapes of a scenario are enumerated depth-first by the harness driver; proptest scenarios (5-9 items, <=3 hooks, 3 keys) with sampled tapes beyond. Non-trivial: some tape of the scenario splits a queue of >=3 items into >=2 releases (snapshots: skips to a newer version with >=2 pending). Distinct: structural hash of the scenario.".into();
            hookchecks::c36_hooks(&mut ctx);
            let progs = progchecks::Progs::default();
            if !violated(&ctx) {
                progchecks::c36_programs(&mut ctx, &progs);
            }
            if !violated(&ctx) {
                progchecks::c36_passthrough_pair(&mut ctx);
            }
            ctx.extra.insert("sim_compile_secs".into(), (*progs.compile_secs.lock().unwrap()).into());
        }
        "C37" => {
            ctx.rule = "hook level: for every enumerated scenario (same space as C36) the set of outcomes (sequence of normalised releases) reached over all decision tapes, and over all inputs of bolero's exhaustive driver, is compared for equality with the outcome set of an independent reference model. Non-trivial: outcome set with >=5 elements.".into();
            hookchecks::c37_hooks(&mut ctx);
            let progs = progchecks::Progs::default();
            if !violated(&ctx) {
                progchecks::c37_programs(&mut ctx, &progs);
            }
            ctx.extra.insert("sim_compile_secs".into(), (*progs.compile_secs.lock().unwrap()).into());
        }
        "C38" => {
            ctx.rule = "corpus of 16 simulator programs (ordered/unordered/keyed batches, slices with snapshots, hooked top-level fold, two ticks, top-level and in-tick ordering observations (stream, keyed stream, merge_ordered, entries_partially_ordered), 3-member cluster relay over fail-stop TCP, quorum helper, atomic keyed counter, 3-member raft) x proptest decision tapes (0..4096 bytes; bolero's byte driver pads with zeros); each tape is replayed with CompiledSim::fuzz_repro + run_with_scheduler_and_logger twice in this process and (per program, batches of tapes) once in a freshly spawned process; decision log (colour off), outputs and verdict are compared. Non-trivial: the decision log has >=5 non-trivial decisions. Distinct: hash of (program, tape).".into();
            c38::run(&mut ctx);
        }
        "C39" => {
            ctx.rule = "collect_quorum / collect_quorum_with_response over 14 configurations ((min,max) in {(1,1),(2,2),(2,3),(1,3),(2,4)} ordered, plus unordered (2,2),(2,3),(1,3)) x proptest response sequences over <=3 keys with Ok/Err mixes and <=max responses per key, split into 1-3 rounds separated by sim::quiesce(); sequences of <=6 responses are run under CompiledSim::exhaustive (every batching inside a round), sequences of <=12 under fuzz_repro with a sampled tape; join_responses: 4 keys x metadata phase x response phase under exhaustive. Non-trivial: a key reaches min strictly before max and receives further responses afterwards (join: >=2 responses and a second metadata phase). Distinct: hash of the case.".into();
            c39::run(&mut ctx);
        }
        "C31" => {
            ctx.rule = "simulator half: slice programs (batch+count snapshot of the same stream, unordered batch, use::state accumulator, use::state_null carried stream, snapshot of a keyed monotone singleton) emitting every slice's raw observation; all schedules (CompiledSim::exhaustive) for 0..=5 input items (thorough 6), proptest inputs of 5-10 items with sampled decision tapes beyond. Non-trivial: >=3 slice executions with >=2 non-empty batches in some explored schedule. Distinct: hash of (program, input, tape).".into();
            c31::run(&mut ctx);
        }
        "C34" => {
            ctx.rule = "simulator half: the tutorial keyed counter (atomic) and a single atomic counter; proptest scripts of 1-5 phases (writes to 2 keys, wait for all outstanding acknowledgements or not, reads); scripts of <=4 (thorough 5) operations under CompiledSim::exhaustive, <=12 operations with sampled tapes; oracle: a read issued after an awaited acknowledgement answers >= the acknowledged writes of its key and <= all writes. Non-trivial: a read with >=1 acknowledged write while further writes of the key exist, or two such reads. The non-atomic tutorial variant and a non-atomic twin are negative controls.".into();
            c34::run(&mut ctx);
        }
        "C40" => {
            ctx.rule = "raft: 3 members, fail-stop TCP, proptest input scripts (4-40 events: election timer, heartbeat timer, client request per member, optional quiesce barriers; optionally prefixed by a race-free election+commit; scripts shaped like the repository's concurrent-elections test; a figure-8 family: a leader appends unreplicated entries, another member wins the next term, then its heartbeat races the old leader's election timer) x proptest decision tapes (0-4096 bytes) through fuzz_repro; oracle: per-member committed indexes contiguous from 1, pairwise prefix-consistent histories, raft_step's truncation guard never fires. second raft driver: the public raft_step over harness-owned FIFO queues per directed link with a generated delivery schedule (per tick: member, timers, request, delivered prefix of each incoming link), random schedules and a figure-8 family, same oracle after every tick. paxos (components only): index_payloads under exhaustive for 1-5 payloads with/without a phase barrier; acceptor_p2 with generated promised ballots and P2a sets (exhaustive <=3, tapes <=8). Non-trivial (raft): >=2 distinct candidates and >=1 committed entry.".into();
            c40::run(&mut ctx);
        }
        "X-exp" => {
            experiments::run();
            std::process::exit(0);
        }
        other => {
            eprintln!("engine sim does not serve {other}");
            std::process::exit(2);
        }
    }
    ctx.finish();
}
