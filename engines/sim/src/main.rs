//! Engine E6 `sim`: C31, C34, C36-C40 against `hydro_lang::sim` (see /verif/DESIGN.md).

mod c38;
mod experiments;
mod hookchecks;
mod hooklevel;
mod progchecks;
mod proglevel;
mod tape;
mod util;

use vcommon::{Args, Ctx};

fn main() {
    let args = Args::parse();
    util::install_panic_hook();
    colored::control::set_override(false);
    if let Some(job) = args.extra.get("child") {
        c38::child_main(job);
    }
    let mut ctx = Ctx::new(args);
    match ctx.prop().to_string().as_str() {
        "C36" => {
            ctx.rule = "hook level: every scenario = hook kind(s) of one tick/observation x layout of <=4 (thorough 5) uniquely numbered items over <=2 keys / 2 merge inputs x split into <=3 instalments x 1-2 scheduling attempts per instalment, resolved through the scheduler's run_hooks (and, for solo hooks, through the bare SimHook API with both force values); ALL decision tapes of a scenario are enumerated depth-first by the harness driver; proptest scenarios (5-9 items, <=3 hooks, 3 keys) with sampled tapes beyond. Non-trivial: some tape of the scenario splits a queue of >=3 items into >=2 releases (snapshots: skips to a newer version with >=2 pending). Distinct: structural hash of the scenario.".into();
            hookchecks::c36_hooks(&mut ctx);
            let progs = progchecks::Progs::default();
            progchecks::c36_programs(&mut ctx, &progs);
            progchecks::c36_passthrough_pair(&mut ctx);
            ctx.extra.insert("sim_compile_secs".into(), progs.compile_secs.get().into());
        }
        "C37" => {
            ctx.rule = "hook level: for every enumerated scenario (same space as C36) the set of outcomes (sequence of normalised releases) reached over all decision tapes, and over all inputs of bolero's exhaustive driver, is compared for equality with the outcome set of an independent reference model. Non-trivial: outcome set with >=5 elements.".into();
            hookchecks::c37_hooks(&mut ctx);
            let progs = progchecks::Progs::default();
            progchecks::c37_programs(&mut ctx, &progs);
            ctx.extra.insert("sim_compile_secs".into(), progs.compile_secs.get().into());
        }
        "C38" => {
            ctx.rule = "corpus of 13 simulator programs (ordered/unordered/keyed batches, slices with snapshots, hooked top-level fold, two ticks, top-level and in-tick ordering observations, 3-member cluster relay over fail-stop TCP, quorum helper, atomic keyed counter, 3-member raft) x proptest decision tapes (0..4096 bytes; bolero's byte driver pads with zeros); each tape is replayed with CompiledSim::fuzz_repro + run_with_scheduler_and_logger twice in this process and (per program, batches of tapes) once in a freshly spawned process; decision log (colour off), outputs and verdict are compared. Non-trivial: the decision log has >=5 non-trivial decisions. Distinct: hash of (program, tape).".into();
            c38::run(&mut ctx);
        }
        "X-exp" => {
            experiments::run();
            std::process::exit(0);
        }
        other => {
            eprintln!("engine sim does not serve {other}");
            std::process::exit(2);
        }
    }
    ctx.finish();
}
