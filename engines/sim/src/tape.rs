//! Decision tapes (DESIGN §3.6): a `bolero_generator` driver that answers every request of a
//! simulator hook from a choice vector and records `(lo, hi, choice)` for each request, so the
//! whole decision space of a small scenario can be enumerated depth-first (by this harness, not
//! by bolero) or sampled by proptest, and the record is the replay file.

use std::ops::Bound;

use bolero::generator::bolero_generator::driver::object::DynDriver;
use serde::{Deserialize, Serialize};

#[derive(Clone, Copy, Debug, PartialEq, Eq, Serialize, Deserialize)]
pub struct Choice {
    pub lo: u64,
    pub hi: u64,
    pub v: u64,
}

pub struct TapeDriver {
    /// offsets (relative to `lo`) for the first requests; requests beyond the tape take `lo`
    pub tape: Vec<u64>,
    pub pos: usize,
    pub rec: Vec<Choice>,
    /// sampled tapes wrap (`offset % width`); enumerated tapes must be exact
    pub wrap: bool,
    pub errors: Vec<String>,
    depth: usize,
}

impl TapeDriver {
    pub fn new(tape: Vec<u64>, wrap: bool) -> TapeDriver {
        TapeDriver {
            tape,
            pos: 0,
            rec: vec![],
            wrap,
            errors: vec![],
            depth: 0,
        }
    }

    fn choose(&mut self, lo: u64, hi: u64) -> Option<u64> {
        if lo > hi {
            self.errors.push(format!("empty range requested: {lo}..={hi}"));
            return None;
        }
        let width = hi - lo;
        if width >= (1 << 32) {
            self.errors.push(format!("unbounded range requested: {lo}..={hi}"));
            return None;
        }
        let t = self.tape.get(self.pos).copied().unwrap_or(0);
        let off = if self.wrap {
            t % (width + 1)
        } else {
            if t > width {
                self.errors
                    .push(format!("tape offset {t} out of range 0..={width} at {}", self.pos));
            }
            t.min(width)
        };
        self.pos += 1;
        let v = lo + off;
        self.rec.push(Choice { lo, hi, v });
        Some(v)
    }

    fn unsupported<T>(&mut self, what: &str) -> Option<T> {
        self.errors.push(format!("unsupported driver request: {what}"));
        None
    }

    /// The tape (offsets) that reproduces the recorded run.
    pub fn recorded_tape(&self) -> Vec<u64> {
        self.rec.iter().map(|c| c.v - c.lo).collect()
    }
}

/// Next tape in depth-first order after a run that recorded `rec`; `None` when the space is
/// exhausted. (Same scheme as any odometer: bump the last request that has room, drop the rest.)
pub fn next_tape(rec: &[Choice]) -> Option<Vec<u64>> {
    for i in (0..rec.len()).rev() {
        if rec[i].v < rec[i].hi {
            let mut t: Vec<u64> = rec[..i].iter().map(|c| c.v - c.lo).collect();
            t.push(rec[i].v - rec[i].lo + 1);
            return Some(t);
        }
    }
    None
}

fn lo_u64(b: Bound<u64>) -> Option<u64> {
    match b {
        Bound::Included(v) => Some(v),
        Bound::Excluded(v) => v.checked_add(1),
        Bound::Unbounded => Some(0),
    }
}

fn hi_u64(b: Bound<u64>, max: u64) -> Option<u64> {
    match b {
        Bound::Included(v) => Some(v),
        Bound::Excluded(v) => v.checked_sub(1),
        Bound::Unbounded => Some(max),
    }
}

macro_rules! unsigned {
    ($name:ident, $ty:ty) => {
        fn $name(&mut self, min: Bound<&$ty>, max: Bound<&$ty>) -> Option<$ty> {
            let lo = lo_u64(min.map(|v| *v as u64));
            let hi = hi_u64(max.map(|v| *v as u64), <$ty>::MAX as u64);
            match (lo, hi) {
                (Some(lo), Some(hi)) => self.choose(lo, hi).map(|v| v as $ty),
                _ => {
                    self.errors.push("empty range requested (bound overflow)".into());
                    None
                }
            }
        }
    };
}

macro_rules! unsupported {
    ($name:ident, $ty:ty) => {
        fn $name(&mut self, _min: Bound<&$ty>, _max: Bound<&$ty>) -> Option<$ty> {
            self.unsupported(stringify!($name))
        }
    };
}

impl DynDriver for TapeDriver {
    fn depth(&self) -> usize {
        self.depth
    }
    fn set_depth(&mut self, depth: usize) {
        self.depth = depth;
    }
    fn max_depth(&self) -> usize {
        64
    }
    fn gen_variant(&mut self, variants: usize, _base_case: usize) -> Option<usize> {
        if variants == 0 {
            return self.unsupported("gen_variant(0)");
        }
        self.choose(0, variants as u64 - 1).map(|v| v as usize)
    }
    unsigned!(gen_u8, u8);
    unsigned!(gen_u16, u16);
    unsigned!(gen_u32, u32);
    unsigned!(gen_u64, u64);
    unsigned!(gen_usize, usize);
    unsupported!(gen_i8, i8);
    unsupported!(gen_i16, i16);
    unsupported!(gen_i32, i32);
    unsupported!(gen_i64, i64);
    unsupported!(gen_u128, u128);
    unsupported!(gen_i128, i128);
    unsupported!(gen_isize, isize);
    unsupported!(gen_f32, f32);
    unsupported!(gen_f64, f64);
    unsupported!(gen_char, char);
    fn gen_bool(&mut self, _probability: Option<f32>) -> Option<bool> {
        self.choose(0, 1).map(|v| v == 1)
    }
    fn gen_from_bytes(
        &mut self,
        _hint: &mut dyn FnMut() -> (usize, Option<usize>),
        _produce: &mut dyn FnMut(&[u8]) -> Option<usize>,
    ) -> Option<()> {
        self.unsupported("gen_from_bytes")
    }
}
