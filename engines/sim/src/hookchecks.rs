//! Hook-level sub-checks of C36 (soundness of every decision) and C37 (the decision space is
//! reached completely), built on `hooklevel`.

use std::cell::Cell;
use std::collections::BTreeSet;

use serde::{Deserialize, Serialize};
use vcommon::proptest;
use vcommon::proptest::prelude::*;
use vcommon::{Ctx, Fail, Obs, Tier};

use crate::hooklevel::*;
use crate::util::guarded;

const TAPE_CAP: usize = 200_000;

/// Outcome of evaluating one enumerated scenario (computed on worker threads, then replayed
/// into `Ctx::check_all`, whose body stays a pure function of the case).
#[derive(Clone)]
struct Eval {
    res: Result<(), Fail>,
    nontrivial: bool,
    tapes: u64,
    bolero: u64,
}

fn par_eval<S: Sync>(cases: &[S], f: impl Fn(&S) -> Eval + Sync) -> Vec<Eval> {
    let threads = std::thread::available_parallelism().map(|n| n.get()).unwrap_or(4).clamp(1, 8);
    let chunk = cases.len().div_ceil(threads).max(1);
    std::thread::scope(|s| {
        let f = &f;
        let hs: Vec<_> = cases
            .chunks(chunk)
            .map(|c| s.spawn(move || c.iter().map(f).collect::<Vec<Eval>>()))
            .collect();
        hs.into_iter().flat_map(|h| h.join().expect("worker panicked")).collect()
    })
}

fn eval_c36(scen: &Scenario) -> Eval {
    let tapes = Cell::new(0u64);
    let mut obs = Obs::default();
    let res = check_all_tapes(scen, &mut obs, &tapes).map(|_| ());
    Eval { res, nontrivial: obs.nontrivial, tapes: tapes.get(), bolero: 0 }
}

/// Feed pre-computed evaluations into `check_all` (replay mode computes on demand).
fn check_all_par(ctx: &mut Ctx, sub: &str, prefix: &str, scens: Vec<Scenario>, f: impl Fn(&Scenario) -> Eval + Sync, tapes: &Cell<u64>, bolero: &Cell<u64>) {
    let evals = if ctx.is_replay() { vec![] } else { par_eval(&scens, &f) };
    let idx = Cell::new(0usize);
    let n = scens.len();
    ctx.check_all(sub, scens, |scen: &Scenario, obs| {
        obs.class(format!("{prefix}:{}", label(scen)));
        let e = if evals.len() == n {
            let i = idx.get();
            idx.set(i + 1);
            evals[i].clone()
        } else {
            f(scen)
        };
        tapes.set(tapes.get() + e.tapes);
        bolero.set(bolero.get() + e.bolero);
        obs.nontrivial(e.nontrivial);
        e.res
    });
}

/// Scenario space: `n` items over the given hooks, <= 2 keys, <= 3 instalments.
fn scenarios_for(hooks: &[Kind], n_max: usize, direct: bool, patterns: &[Vec<bool>]) -> Vec<Scenario> {
    let mut out = vec![];
    for n in 1..=n_max {
        for phases in layouts(hooks, n, 2, 3) {
            for pat in patterns {
                out.push(Scenario {
                    hooks: hooks.to_vec(),
                    phases: phases
                        .iter()
                        .map(|p| Phase {
                            push: p.clone(),
                            decisions: pat.clone(),
                        })
                        .collect(),
                    direct,
                });
            }
        }
    }
    out
}

/// Hook kinds that may share a tick with others (`SimBuilder::batch` puts them there).
/// `PassthroughSingletonHook` is only exercised on its own, see `passthrough_pair` below.
const PAIRABLE: [Kind; 6] = [
    Kind::StreamTotal,
    Kind::StreamNo,
    Kind::KeyedTotal,
    Kind::KeyedNo,
    Kind::Singleton,
    Kind::KeyedSingleton,
];

pub fn tick_scenarios(tier: Tier) -> Vec<Scenario> {
    let attempts: Vec<Vec<bool>> = vec![vec![false], vec![false, false]];
    let mut out = vec![];
    let solo_n = tier.pick(5, 6);
    for k in TICK_KINDS.iter().chain(TOP_KINDS.iter()) {
        let n = if k.keyed() && k.two_sources() { solo_n - 1 } else { solo_n };
        out.extend(scenarios_for(&[*k], n, false, &attempts));
    }
    let pair_n = tier.pick(4, 5);
    for a in PAIRABLE {
        for b in PAIRABLE {
            let n = if a.keyed() && b.keyed() { pair_n - 1 } else { pair_n };
            out.extend(scenarios_for(&[a, b], n, false, &attempts[..1]));
        }
    }
    out
}

pub fn direct_scenarios(tier: Tier) -> Vec<Scenario> {
    let pats: Vec<Vec<bool>> = vec![
        vec![false],
        vec![true],
        vec![false, true],
        vec![true, false],
        vec![false, false],
    ];
    let mut out = vec![];
    let n_max = tier.pick(5, 6);
    for k in TICK_KINDS.iter().chain(TOP_KINDS.iter()) {
        // an unforced decision of a hook that cannot release is what the scheduler's first
        // pass asks for in a multi-hook tick; PassthroughSingletonHook is covered separately
        if *k == Kind::Passthrough {
            continue;
        }
        let n = if k.keyed() && k.two_sources() { n_max - 1 } else { n_max };
        out.extend(scenarios_for(&[*k], n, true, &pats));
    }
    // passthrough: only decisions the scheduler makes for a one-hook tick (it can release)
    out.extend(scenarios_for(&[Kind::Passthrough], n_max, true, &[vec![true]]));
    out
}

pub fn inline_scenarios(tier: Tier) -> Vec<InlineScenario> {
    let n_max = tier.pick(4, 5);
    let mut out = vec![];
    for kind in INLINE_KINDS {
        for n in 0..=n_max {
            // assignments of (key, src) per item
            let keys = if kind.keyed() { 2u8 } else { 1 };
            let srcs = if kind.two_sources() { 2u8 } else { 1 };
            let opts = (keys * srcs) as usize;
            let total = opts.pow(n as u32);
            for code in 0..total {
                let mut c = code;
                let mut first = vec![];
                let mut second = vec![];
                let mut first_key_seen = None;
                let mut canonical = true;
                for id in 0..n {
                    let o = c % opts;
                    c /= opts;
                    let key = (o as u8) % keys;
                    let src = (o as u8) / keys;
                    if first_key_seen.is_none() {
                        first_key_seen = Some(key);
                        if key != 0 {
                            canonical = false;
                        }
                    }
                    if src == 0 {
                        first.push((key, id as u8));
                    } else {
                        second.push((key, id as u8));
                    }
                }
                if canonical {
                    out.push(InlineScenario { kind, first, second });
                }
            }
        }
    }
    out
}

fn check_all_tapes(scen: &Scenario, obs: &mut Obs, tapes: &Cell<u64>) -> Result<BTreeSet<Outcome>, Fail> {
    // depth-first over every tape; each run is checked as soon as it is made, so that a broken
    // hook is reported at the first offending tape instead of after enumerating a blown-up space
    let mut reached = BTreeSet::new();
    let mut split = false;
    let mut tape = vec![];
    let mut n = 0usize;
    loop {
        let r = guarded("hook", || run_real(scen, tape, false))?;
        n += 1;
        tapes.set(tapes.get() + 1);
        if !r.driver_errors.is_empty() {
            return Err(Fail::new(
                format!("{}:driver-request-invalid", scen.hooks[0].name()),
                format!("{:?}", r.driver_errors),
            ));
        }
        let (out, stats) = check_run(scen, &r.events, r.spin)?;
        split |= stats.split;
        reached.insert(out);
        if n > TAPE_CAP {
            return Err(Fail::new("harness:tape-cap", format!("more than {TAPE_CAP} tapes")));
        }
        match crate::tape::next_tape(&r.rec) {
            Some(t) => tape = t,
            None => break,
        }
    }
    obs.nontrivial(split);
    Ok(reached)
}

fn label(scen: &Scenario) -> String {
    scen.hooks.iter().map(|k| k.name()).collect::<Vec<_>>().join("+")
}

/// C36 hook level.
pub fn c36_hooks(ctx: &mut Ctx) {
    let tier = ctx.tier();
    let tapes = Cell::new(0u64);

    let none = Cell::new(0u64);
    check_all_par(ctx, "hook-tick-enum", "tick", tick_scenarios(tier), eval_c36, &tapes, &none);
    check_all_par(ctx, "hook-direct-enum", "direct", direct_scenarios(tier), eval_c36, &tapes, &none);
    ctx.check_all("hook-inline-enum", inline_scenarios(tier), |s: &InlineScenario, obs| {
        obs.class(format!("inline:{}", s.kind.name()));
        let mut tape = vec![];
        let mut n = 0u64;
        loop {
            let r = guarded("inline-hook", || run_inline(s, tape.clone(), false))?;
            n += 1;
            if !r.driver_errors.is_empty() {
                return Err(Fail::new(
                    format!("{}:driver-request-invalid", s.kind.name()),
                    format!("{:?}", r.driver_errors),
                ));
            }
            check_inline(s, &r)?;
            match crate::tape::next_tape(&r.rec) {
                Some(t) => tape = t,
                None => break,
            }
            if n as usize > TAPE_CAP {
                return Err(Fail::new("harness:tape-cap", "inline"));
            }
        }
        tapes.set(tapes.get() + n);
        obs.nontrivial(s.first.len() + s.second.len() >= 3 && n >= 2);
        Ok(())
    });

    // PassthroughSingletonHook sharing a tick with another hook: the scenarios in which the
    // passthrough hook has no new value when the tick runs hit the known finding
    let mut pp = vec![];
    for other in [Kind::StreamTotal, Kind::StreamNo, Kind::Singleton] {
        pp.extend(scenarios_for(&[Kind::Passthrough, other], 3, false, &[vec![false]]));
        pp.extend(scenarios_for(&[other, Kind::Passthrough], 3, false, &[vec![false]]));
    }
    ctx.check_all("hook-passthrough-shared-tick", pp, |scen: &Scenario, obs| {
        obs.class(format!("tick:{}", label(scen)));
        match check_all_tapes(scen, obs, &tapes) {
            Err(f) if f.sig.starts_with("hook:panic:") => Err(Fail::new(
                "PassthroughSingletonHook:no-trivial-decision-in-shared-tick:run_hooks-panics",
                f.msg,
            )),
            other => other.map(|_| ()),
        }
    });

    // beyond the enumerated bounds: sampled scenarios and sampled tapes
    let cases = tier.pick(6000, 150000);
    ctx.check("hook-sampled", cases, sampled_strategy(), |c: &Sampled, obs| {
        obs.class(format!("sampled:{}", label(&c.scen)));
        let r = guarded("hook", || run_real(&c.scen, c.tape.clone(), true))?;
        if !r.driver_errors.is_empty() {
            return Err(Fail::new(
                format!("{}:driver-request-invalid", c.scen.hooks[0].name()),
                format!("{:?}", r.driver_errors),
            ));
        }
        let (_, stats) = check_run(&c.scen, &r.events, r.spin)?;
        obs.nontrivial(stats.split);
        Ok(())
    });
    ctx.extra
        .insert("hook_tapes_enumerated".into(), tapes.get().into());
}

#[derive(Clone, Debug, Serialize, Deserialize)]
pub struct Sampled {
    pub scen: Scenario,
    pub tape: Vec<u64>,
}

fn sampled_strategy() -> impl Strategy<Value = Sampled> {
    let kinds: Vec<Kind> = PAIRABLE.to_vec();
    let solo: Vec<Kind> = TICK_KINDS.iter().chain(TOP_KINDS.iter()).copied().collect();
    (
        prop_oneof![
            (0..solo.len()).prop_map(move |i| vec![solo[i]]),
            (0..kinds.len(), 0..kinds.len(), 0..kinds.len()).prop_map({
                let kinds = kinds.clone();
                move |(a, b, c)| vec![kinds[a], kinds[b], kinds[c]]
            }),
            (0..kinds.len(), 0..kinds.len()).prop_map(move |(a, b)| vec![kinds[a], kinds[b]]),
        ],
        proptest::collection::vec((0u8..3, 0u8..3, 0u8..2, 0u8..4), 5..=9),
        proptest::collection::vec(0u64..6, 0..40),
        proptest::collection::vec(1usize..=2, 4),
    )
        .prop_map(|(hooks, raw, tape, attempts)| {
            let mut phases: Vec<Phase> = (0..4)
                .map(|i| Phase {
                    push: vec![],
                    decisions: vec![false; attempts[i]],
                })
                .collect();
            // items must be pushed in id order: sort by phase first
            let mut raw = raw;
            raw.sort_by_key(|r| r.3);
            for (id, (h, key, src, ph)) in raw.into_iter().enumerate() {
                let hook = (h as usize % hooks.len()) as u8;
                let k = hooks[hook as usize];
                phases[ph as usize].push.push(Item {
                    hook,
                    key: if k.keyed() { key } else { 0 },
                    src: if k.two_sources() { src } else { 0 },
                    id: id as u8,
                });
            }
            phases.retain(|p| !p.push.is_empty());
            Sampled {
                scen: Scenario {
                    hooks,
                    phases,
                    direct: false,
                },
                tape,
            }
        })
}

/// C37 hook level: reached outcome set == independently enumerated set, for the harness
/// enumeration of all tapes *and* for bolero's exhaustive driver.
pub fn c37_hooks(ctx: &mut Ctx) {
    let tier = ctx.tier();
    let tapes = Cell::new(0u64);
    let bolero_inputs = Cell::new(0u64);
    let eval = |scen: &Scenario| -> Eval {
        let tag = label(scen);
        let t = Cell::new(0u64);
        let mut b = 0u64;
        let mut nontrivial = false;
        let res = (|| -> Result<(), Fail> {
            let mut dummy = Obs::default();
            let reached = check_all_tapes(scen, &mut dummy, &t)?;
            let model = model_outcomes(scen);
            nontrivial = model.len() >= 5;
            compare_sets(&tag, "all-tapes", &reached, &model)?;
            // the driver CompiledSim::exhaustive uses
            let runs = guarded("hook", || enumerate_bolero(scen, TAPE_CAP))?
                .map_err(|e| Fail::new("harness:tape-cap", e))?;
            b = runs.len() as u64;
            let mut reached_b = BTreeSet::new();
            for ev in &runs {
                let (out, _) = check_run(scen, ev, false)?;
                reached_b.insert(out);
            }
            compare_sets(&tag, "bolero-exhaustive", &reached_b, &model)
        })();
        Eval { res, nontrivial, tapes: t.get(), bolero: b }
    };
    check_all_par(ctx, "hook-outcomes-tick-enum", "tick", tick_scenarios(tier), eval, &tapes, &bolero_inputs);
    check_all_par(ctx, "hook-outcomes-direct-enum", "direct", direct_scenarios(tier), eval, &tapes, &bolero_inputs);
    ctx.check_all("inline-outcomes-enum", inline_scenarios(tier), |s: &InlineScenario, obs| {
        obs.class(format!("inline:{}", s.kind.name()));
        let model = inline_model(s);
        obs.nontrivial(model.len() >= 5);
        let mut reached = BTreeSet::new();
        let mut tape = vec![];
        let mut n = 0usize;
        loop {
            let r = guarded("inline-hook", || run_inline(s, tape.clone(), false))?;
            check_inline(s, &r)?;
            reached.insert(inline_outcome(s.kind, &r.out[0]));
            n += 1;
            match crate::tape::next_tape(&r.rec) {
                Some(t) => tape = t,
                None => break,
            }
            if n > TAPE_CAP {
                return Err(Fail::new("harness:tape-cap", "inline"));
            }
        }
        tapes.set(tapes.get() + n as u64);
        let name = s.kind.name();
        if let Some(missing) = model.difference(&reached).next() {
            return Err(Fail::new(
                format!("{name}:outcome-not-reached"),
                format!("no tape produces {missing:?}; reached {} of {}", reached.len(), model.len()),
            ));
        }
        if let Some(extra) = reached.difference(&model).next() {
            return Err(Fail::new(
                format!("{name}:outcome-not-admissible"),
                format!("reached {extra:?} which the model does not admit"),
            ));
        }
        Ok(())
    });
    ctx.extra
        .insert("hook_tapes_enumerated".into(), tapes.get().into());
    ctx.extra
        .insert("bolero_exhaustive_inputs".into(), bolero_inputs.get().into());
}

fn compare_sets(tag: &str, how: &str, reached: &BTreeSet<Outcome>, model: &BTreeSet<Outcome>) -> Result<(), Fail> {
    if let Some(missing) = model.difference(reached).next() {
        return Err(Fail::new(
            format!("{tag}:outcome-not-reached:{how}"),
            format!(
                "no decision input produces the admissible outcome {missing:?}; reached {} of {} outcomes",
                reached.len(),
                model.len()
            ),
        ));
    }
    if let Some(extra) = reached.difference(model).next() {
        return Err(Fail::new(
            format!("{tag}:outcome-not-admissible:{how}"),
            format!("reached outcome {extra:?} which the reference model does not admit"),
        ));
    }
    Ok(())
}
