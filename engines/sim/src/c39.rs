//! C39: `hydro_std::quorum::{collect_quorum, collect_quorum_with_response}` and
//! `hydro_std::request_response::join_responses` under every batching the simulator can produce.
//!
//! Oracle (property text; the helpers carry no doc comments): with at most `max` responses per
//! key (the documented domain: `max` is the number of responders), a key is reported exactly
//! once iff at least `min` of its responses are successes, in the round in which the `min`-th
//! success arrives; every error response passes through exactly once. Rounds are separated by
//! the simulator's explicit phase barrier `sim::quiesce()` (the pattern of the repository's raft
//! tests), so "when" is checked at round granularity while every batching *inside* a round is
//! explored. For `_with_response` the key-level claims are checked strictly; how many values are
//! delivered for a key is only bounded (>= min, a sub-multiset of that key's successes) and
//! differences across batchings are recorded as an observation.

use std::cell::{Cell, RefCell};
use std::collections::{BTreeMap, BTreeSet};

use hydro_lang::prelude::*;
use hydro_lang::sim::compiled::CompiledSim;
use serde::{Deserialize, Serialize};
use vcommon::proptest;
use vcommon::proptest::prelude::*;
use vcommon::{Ctx, Fail, Obs};
use vsim::progs::*;

use crate::proglevel::*;

#[derive(Clone, Copy, Debug, PartialEq, Eq)]
pub struct QConf {
    pub resp: bool,
    pub ordered: bool,
    pub min: usize,
    pub max: usize,
}

pub const CONFS: [QConf; 14] = [
    QConf { resp: false, ordered: true, min: 1, max: 1 },
    QConf { resp: false, ordered: true, min: 2, max: 2 },
    QConf { resp: false, ordered: true, min: 2, max: 3 },
    QConf { resp: false, ordered: true, min: 1, max: 3 },
    QConf { resp: false, ordered: true, min: 2, max: 4 },
    QConf { resp: false, ordered: false, min: 2, max: 2 },
    QConf { resp: false, ordered: false, min: 2, max: 3 },
    QConf { resp: true, ordered: true, min: 1, max: 1 },
    QConf { resp: true, ordered: true, min: 2, max: 2 },
    QConf { resp: true, ordered: true, min: 2, max: 3 },
    QConf { resp: true, ordered: true, min: 1, max: 3 },
    QConf { resp: true, ordered: true, min: 2, max: 4 },
    QConf { resp: true, ordered: false, min: 2, max: 3 },
    QConf { resp: true, ordered: false, min: 1, max: 3 },
];

impl QConf {
    pub fn name(&self) -> String {
        format!(
            "{}<{}>({},{})",
            if self.resp { "collect_quorum_with_response" } else { "collect_quorum" },
            if self.ordered { "TotalOrder" } else { "NoOrder" },
            self.min,
            self.max
        )
    }
}

pub enum QPorts {
    PO(OrdSend<Resp>, NoRecv<u8>, OrdRecv<(u8, u8)>),
    PU(NoSend<Resp>, NoRecv<u8>, NoRecv<(u8, u8)>),
    RO(OrdSend<RespV>, OrdRecv<(u8, u8)>, OrdRecv<(u8, u8)>),
    RU(NoSend<RespV>, NoRecv<(u8, u8)>, NoRecv<(u8, u8)>),
}

pub struct QProg {
    pub conf: QConf,
    pub compiled: CompiledSim,
    pub ports: QPorts,
}

pub fn build_qprog(conf: QConf) -> Result<QProg, SimPanic> {
    let mut flow = FlowBuilder::new();
    let node = flow.process::<()>();
    let ports = match (conf.resp, conf.ordered) {
        (false, true) => {
            let (a, b, c) = quorum_ordered(&node, conf.min, conf.max);
            QPorts::PO(a, b, c)
        }
        (false, false) => {
            let (a, b, c) = quorum_unordered(&node, conf.min, conf.max);
            QPorts::PU(a, b, c)
        }
        (true, true) => {
            let (a, b, c) = quorum_resp_ordered(&node, conf.min, conf.max);
            QPorts::RO(a, b, c)
        }
        (true, false) => {
            let (a, b, c) = quorum_resp_unordered(&node, conf.min, conf.max);
            QPorts::RU(a, b, c)
        }
    };
    Ok(QProg {
        conf,
        compiled: compile(flow.sim())?,
        ports,
    })
}

/// What came out of the two output streams during one round.
#[derive(Clone, Debug, PartialEq, Eq, PartialOrd, Ord)]
pub struct RoundObs {
    pub oks: Vec<(u8, u8)>,
    pub errs: Vec<(u8, u8)>,
}
pub type Exec = Vec<RoundObs>;

#[derive(Clone, Debug, Serialize, Deserialize)]
pub struct QCase {
    pub conf: usize,
    /// (key, Ok(value) | Err(code)) in send order
    pub responses: Vec<(u8, Result<u8, u8>)>,
    /// sizes of the rounds (a composition of `responses.len()`)
    pub rounds: Vec<usize>,
    /// `None`: explore all schedules with `exhaustive()`; `Some(tape)`: one schedule
    pub tape: Option<Vec<u8>>,
}

impl QCase {
    fn round_slices(&self) -> Vec<Vec<(u8, Result<u8, u8>)>> {
        let mut out = vec![];
        let mut i = 0;
        for n in &self.rounds {
            out.push(self.responses[i..i + n].to_vec());
            i += n;
        }
        out
    }
}

macro_rules! round_thunk {
    ($rounds:expr, $execs:expr, $send:expr, $conv:expr, $ok_collect:expr, $err_collect:expr) => {
        async || {
            let mut exec: Exec = vec![];
            for r in $rounds.iter() {
                let items: Vec<_> = r.iter().map($conv).collect();
                ($send)(items);
                hydro_lang::sim::quiesce().await;
                let oks: Vec<(u8, u8)> = $ok_collect.await;
                let errs: Vec<(u8, u8)> = $err_collect.await;
                exec.push(RoundObs { oks, errs });
            }
            $execs.push(exec);
        }
    };
}

fn plain(r: &(u8, Result<u8, u8>)) -> Resp {
    (r.0, r.1.map(|_| ()))
}
fn withv(r: &(u8, Result<u8, u8>)) -> RespV {
    *r
}

/// Run the case; returns the recorded executions (one for a tape, all for exhaustive).
pub fn run_case(p: &QProg, case: &QCase) -> Result<Vec<Exec>, SimPanic> {
    let rounds = case.round_slices();
    let mut execs: Vec<Exec> = vec![];
    macro_rules! drive {
        ($thunk:expr) => {{
            match &case.tape {
                None => sim_guard(|| {
                    p.compiled.exhaustive($thunk);
                }),
                Some(t) => sim_guard(|| {
                    let mut th = $thunk;
                    p.compiled.fuzz_repro(t.clone(), async |inst| {
                        inst.run_with_scheduler_and_logger(std::io::sink(), th()).await;
                    })
                }),
            }
        }};
    }
    let r = match &p.ports {
        QPorts::PO(send, ok, err) => drive!(round_thunk!(
            rounds,
            execs,
            |items: Vec<Resp>| send.send_many(items),
            plain,
            async { ok.collect_sorted::<Vec<u8>>().await.into_iter().map(|k| (k, 0u8)).collect::<Vec<_>>() },
            err.collect::<Vec<(u8, u8)>>()
        )),
        QPorts::PU(send, ok, err) => drive!(round_thunk!(
            rounds,
            execs,
            |items: Vec<Resp>| send.send_many_unordered(items),
            plain,
            async { ok.collect_sorted::<Vec<u8>>().await.into_iter().map(|k| (k, 0u8)).collect::<Vec<_>>() },
            err.collect_sorted::<Vec<(u8, u8)>>()
        )),
        QPorts::RO(send, ok, err) => drive!(round_thunk!(
            rounds,
            execs,
            |items: Vec<RespV>| send.send_many(items),
            withv,
            ok.collect::<Vec<(u8, u8)>>(),
            err.collect::<Vec<(u8, u8)>>()
        )),
        QPorts::RU(send, ok, err) => drive!(round_thunk!(
            rounds,
            execs,
            |items: Vec<RespV>| send.send_many_unordered(items),
            withv,
            ok.collect_sorted::<Vec<(u8, u8)>>(),
            err.collect_sorted::<Vec<(u8, u8)>>()
        )),
    };
    r.map(|_| execs)
}

/// Model: keys whose quorum completes in each round, and the errors of each round.
pub struct Model {
    pub new_keys: Vec<BTreeSet<u8>>,
    pub errs: Vec<Vec<(u8, u8)>>,
    /// per key: the successful values seen up to and including each round
    pub ok_values_upto: Vec<BTreeMap<u8, Vec<u8>>>,
}

pub fn model(conf: &QConf, case: &QCase) -> Model {
    let mut oks: BTreeMap<u8, Vec<u8>> = BTreeMap::new();
    let mut reported: BTreeSet<u8> = BTreeSet::new();
    let mut m = Model {
        new_keys: vec![],
        errs: vec![],
        ok_values_upto: vec![],
    };
    for round in case.round_slices() {
        let mut errs = vec![];
        for (k, r) in &round {
            match r {
                Ok(v) => oks.entry(*k).or_default().push(*v),
                Err(e) => errs.push((*k, *e)),
            }
        }
        let mut new = BTreeSet::new();
        for (k, vs) in &oks {
            if vs.len() >= conf.min && !reported.contains(k) {
                new.insert(*k);
            }
        }
        reported.extend(new.iter().copied());
        m.new_keys.push(new);
        m.errs.push(errs);
        m.ok_values_upto.push(oks.clone());
    }
    m
}

pub fn check_exec(conf: &QConf, case: &QCase, m: &Model, ex: &Exec) -> Result<(), Fail> {
    let name = conf.name();
    let fail = |what: &str, msg: String| Err(Fail::new(format!("{name}:{what}"), msg));
    if ex.len() != case.rounds.len() {
        return Err(Fail::new("harness:round-count", format!("{ex:?}")));
    }
    for (i, ob) in ex.iter().enumerate() {
        let mut keys_out: BTreeMap<u8, Vec<u8>> = BTreeMap::new();
        for (k, v) in &ob.oks {
            keys_out.entry(*k).or_default().push(*v);
        }
        let got: BTreeSet<u8> = keys_out.keys().copied().collect();
        if let Some(k) = got.difference(&m.new_keys[i]).next() {
            let earlier = m.new_keys[..i].iter().any(|s| s.contains(k));
            return fail(
                if earlier { "key-reported-again" } else { "key-reported-without-quorum" },
                format!(
                    "round {i}: key {k} reported; model says new quorums {:?}; responses {:?} rounds {:?}; observed {ex:?}",
                    m.new_keys[i], case.responses, case.rounds
                ),
            );
        }
        if let Some(k) = m.new_keys[i].difference(&got).next() {
            return fail(
                "quorum-not-reported-when-reached",
                format!(
                    "round {i}: key {k} reached its quorum but was not reported; responses {:?} rounds {:?}; observed {ex:?}",
                    case.responses, case.rounds
                ),
            );
        }
        for (k, vs) in &keys_out {
            if !conf.resp {
                if vs.len() != 1 {
                    return fail(
                        "key-reported-twice",
                        format!("round {i}: key {k} reported {} times; observed {ex:?}", vs.len()),
                    );
                }
            } else {
                // values: at least `min`, and a sub-multiset of the successes that have arrived
                let mut avail = m.ok_values_upto[i].get(k).cloned().unwrap_or_default();
                for v in vs {
                    match avail.iter().position(|x| x == v) {
                        Some(p) => {
                            avail.remove(p);
                        }
                        None => {
                            return fail(
                                "value-not-a-received-success",
                                format!("round {i}: key {k} delivered value {v}; observed {ex:?}; responses {:?}", case.responses),
                            );
                        }
                    }
                }
                if vs.len() < conf.min {
                    return fail(
                        "fewer-values-than-min",
                        format!("round {i}: key {k} delivered {} values, min {}; observed {ex:?}", vs.len(), conf.min),
                    );
                }
            }
        }
        // errors pass through: exactly once, in the round they were sent
        let mut want = m.errs[i].clone();
        let mut have = ob.errs.clone();
        if !conf.ordered {
            want.sort();
            have.sort();
        }
        if want != have {
            return fail(
                "errors-not-passed-through",
                format!("round {i}: errors sent {want:?}, received {have:?}; observed {ex:?}"),
            );
        }
    }
    Ok(())
}

fn nontrivial(conf: &QConf, case: &QCase) -> bool {
    // a key reaches `min` strictly before `max` and further responses for it arrive later
    let mut per_key: BTreeMap<u8, Vec<bool>> = BTreeMap::new();
    for (k, r) in &case.responses {
        per_key.entry(*k).or_default().push(r.is_ok());
    }
    per_key.values().any(|rs| {
        let mut oks = 0;
        for (i, ok) in rs.iter().enumerate() {
            if *ok {
                oks += 1;
            }
            if oks == conf.min {
                return i + 1 < conf.max && i + 1 < rs.len();
            }
        }
        false
    })
}

fn case_strategy(max_total: usize, with_tape: bool) -> impl Strategy<Value = QCase> {
    (
        0..CONFS.len(),
        proptest::collection::vec((0u8..3, proptest::bool::weighted(0.7), 0u16..1000), 1..=max_total),
        proptest::collection::vec(0u8..3, max_total),
        proptest::collection::vec(any::<u8>(), 0..600),
    )
        .prop_map(move |(conf, raw, cuts, tape)| {
            let c = CONFS[conf];
            // at most `max` responses per key
            let mut per_key: BTreeMap<u8, usize> = BTreeMap::new();
            let mut responses = vec![];
            for (i, (k, ok, _)) in raw.iter().enumerate() {
                let n = per_key.entry(*k).or_default();
                if *n >= c.max {
                    continue;
                }
                *n += 1;
                responses.push((*k, if *ok { Ok(10 + i as u8) } else { Err(100 + i as u8) }));
            }
            // rounds: cut after an element when cuts[i] == 0 (at most 3 rounds)
            let mut rounds = vec![];
            let mut cur = 0;
            for i in 0..responses.len() {
                cur += 1;
                if cuts[i] == 0 && rounds.len() < 2 && i + 1 < responses.len() {
                    rounds.push(cur);
                    cur = 0;
                }
            }
            if cur > 0 {
                rounds.push(cur);
            }
            QCase {
                conf,
                responses,
                rounds,
                tape: if with_tape { Some(tape) } else { None },
            }
        })
}

// ---------------------------------------------------------------------------------------------
// join_responses
// ---------------------------------------------------------------------------------------------

#[derive(Clone, Debug, Serialize, Deserialize)]
pub struct JCase {
    /// (key, metadata) announced in phase 1 / phase 2 (keys distinct overall)
    pub meta1: Vec<(u8, u8)>,
    pub meta2: Vec<(u8, u8)>,
    /// (key, value) responses sent after phase 1 / after phase 2 (each key at most once overall)
    pub resp1: Vec<(u8, u8)>,
    pub resp2: Vec<(u8, u8)>,
}

fn jcase_strategy() -> impl Strategy<Value = JCase> {
    // 4 keys; each key: metadata phase (0 none, 1, 2) and response phase (0 none, 1, 2)
    proptest::collection::vec((0u8..3, 0u8..3), 4).prop_map(|ks| {
        let mut c = JCase {
            meta1: vec![],
            meta2: vec![],
            resp1: vec![],
            resp2: vec![],
        };
        for (k, (mp, rp)) in ks.into_iter().enumerate() {
            let k = k as u8;
            match mp {
                1 => c.meta1.push((k, 50 + k)),
                2 => c.meta2.push((k, 50 + k)),
                _ => {}
            }
            // documented precondition: the metadata is generated no later than the response
            let rp = if mp == 2 && rp == 1 { 2 } else { rp };
            match rp {
                1 => c.resp1.push((k, 200 + k)),
                2 => c.resp2.push((k, 200 + k)),
                _ => {}
            }
        }
        c
    })
}

pub fn run(ctx: &mut Ctx) {
    let tier = ctx.tier();
    ctx.assume("collect_quorum*: at most `max` responses per key (max = number of responders); the helpers have no doc comments, the bound is taken from the property text 'before the maximum number of responses'");
    ctx.assume("join_responses: documented preconditions honoured (one response and one metadata element per key; metadata generated no later than its response, enforced by waiting for the atomic acknowledgement)");
    let t0 = std::time::Instant::now();
    let built = par_map(CONFS.to_vec(), build_qprog);
    let mut progs = vec![];
    for (c, r) in CONFS.iter().zip(built) {
        match r {
            Ok(p) => progs.push(p),
            Err(p) => {
                ctx.inconclusive(format!("cannot compile {}: {} at {}", c.name(), p.msg, p.loc));
                return;
            }
        }
    }
    let join = {
        let mut flow = FlowBuilder::new();
        let node = flow.process::<()>();
        let ports = join_responses_prog(&node);
        match compile(flow.sim()) {
            Ok(c) => (c, ports),
            Err(p) => {
                ctx.inconclusive(format!("cannot compile join_responses: {} at {}", p.msg, p.loc));
                return;
            }
        }
    };
    ctx.extra
        .insert("sim_compile_secs".into(), t0.elapsed().as_secs_f64().into());

    let execs = Cell::new(0u64);
    let multiplicity: RefCell<BTreeMap<String, u64>> = RefCell::new(BTreeMap::new());
    let body = |case: &QCase, obs: &mut Obs| -> Result<(), Fail> {
        let p = &progs[case.conf % progs.len()];
        let conf = p.conf;
        obs.class(conf.name());
        obs.nontrivial(nontrivial(&conf, case));
        let exs = match run_case(p, case) {
            Ok(e) => e,
            Err(pn) if pn.harness => {
                return Err(Fail::new("harness:thunk", format!("{} at {}", pn.msg, pn.loc)));
            }
            Err(pn) => {
                return Err(Fail::new(
                    format!("{}:simulator-panics:{}", conf.name(), crate::util::squash(&pn.msg)),
                    format!("{} at {}", pn.msg, pn.loc),
                ));
            }
        };
        execs.set(execs.get() + exs.len() as u64);
        if exs.is_empty() {
            return Err(Fail::new("harness:no-execution", "no instance completed"));
        }
        let m = model(&conf, case);
        for ex in &exs {
            check_exec(&conf, case, &m, ex)?;
        }
        if conf.resp && case.tape.is_none() {
            // observation (not a verdict): does the number of delivered values depend on batching?
            let counts: BTreeSet<Vec<usize>> = exs
                .iter()
                .map(|ex| ex.iter().map(|r| r.oks.len()).collect())
                .collect();
            if counts.len() > 1 {
                obs.class("observation:value-multiplicity-depends-on-batching");
                *multiplicity.borrow_mut().entry(conf.name()).or_default() += 1;
            }
        }
        Ok(())
    };
    ctx.check("quorum-exhaustive", tier.pick(700, 8000), case_strategy(6, false), &body);
    if crate::util::violated(ctx) {
        return;
    }
    ctx.check("quorum-tapes", tier.pick(2000, 60000), case_strategy(12, true), &body);

    if crate::util::violated(ctx) {
        return;
    }
    let (jc, (meta_send, resp_send, ack, joined)) = &join;
    ctx.check("join-responses-exhaustive", tier.pick(200, 2000), jcase_strategy(), |c: &JCase, obs: &mut Obs| {
        obs.class("join_responses");
        obs.nontrivial(c.resp1.len() + c.resp2.len() >= 2 && !c.meta2.is_empty());
        let mut outs: Vec<Vec<(u8, (u8, u8))>> = vec![];
        let r = sim_guard(|| {
            jc.exhaustive(async || {
                if !c.meta1.is_empty() {
                    meta_send.send_many(c.meta1.clone());
                    ack.assert_yields(c.meta1.clone()).await;
                }
                if !c.resp1.is_empty() {
                    resp_send.send_many(c.resp1.clone());
                }
                if !c.meta2.is_empty() {
                    meta_send.send_many(c.meta2.clone());
                    ack.assert_yields(c.meta2.clone()).await;
                }
                if !c.resp2.is_empty() {
                    resp_send.send_many(c.resp2.clone());
                }
                let all: Vec<(u8, (u8, u8))> = joined.collect_sorted().await;
                outs.push(all);
            })
        });
        match r {
            Err(p) if p.harness => return Err(Fail::new("harness:thunk", format!("{} at {}", p.msg, p.loc))),
            Err(p) => {
                return Err(Fail::new(
                    format!("join_responses:simulator-panics:{}", crate::util::squash(&p.msg)),
                    format!("{} at {}", p.msg, p.loc),
                ));
            }
            Ok(_) => {}
        }
        execs.set(execs.get() + outs.len() as u64);
        let meta: BTreeMap<u8, u8> = c.meta1.iter().chain(&c.meta2).copied().collect();
        let mut want: Vec<(u8, (u8, u8))> = c
            .resp1
            .iter()
            .chain(&c.resp2)
            .filter_map(|(k, v)| meta.get(k).map(|m| (*k, (*m, *v))))
            .collect();
        want.sort();
        for o in &outs {
            if *o != want {
                return Err(Fail::new(
                    "join_responses:responses-not-matched-exactly-once",
                    format!("expected {want:?}, got {o:?} for {c:?}"),
                ));
            }
        }
        Ok(())
    });

    ctx.extra.insert("program_executions_checked".into(), execs.get().into());
    let mult = multiplicity.borrow();
    if !mult.is_empty() {
        println!(
            "OBSERVATION property=C39 collect_quorum_with_response delivers a batching-dependent number of values per key when min<max (key-level behaviour is unaffected); cases per configuration: {:?}",
            *mult
        );
    }
    ctx.extra.insert(
        "observation_value_multiplicity_batching_dependent".into(),
        serde_json::to_value(&*mult).unwrap(),
    );
}
