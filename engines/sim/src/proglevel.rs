//! Program level: helpers around `flow.sim().compiled()`, `CompiledSim::exhaustive` and
//! `CompiledSim::fuzz_repro`.

use hydro_lang::sim::compiled::CompiledSim;
use hydro_lang::sim::flow::SimFlow;

use crate::util::take_panics;

/// Why a simulator call did not complete normally.
#[derive(Clone, Debug)]
pub struct SimPanic {
    pub msg: String,
    pub loc: String,
    /// the panic was raised from harness code (a thunk's own await / assertion): harness error
    pub harness: bool,
}

fn classify(payload: Box<dyn std::any::Any + Send>) -> SimPanic {
    let top = vcommon::panic_msg(&payload);
    let seen = take_panics();
    // bolero re-raises as "test failed" after replaying the failing input with panics forwarded;
    // the first recorded panic is the root cause.
    let (msg, loc) = seen
        .iter()
        .find(|(m, _)| m != "test failed")
        .cloned()
        .unwrap_or((top, String::new()));
    let harness = loc.contains("engines/sim/src") || loc.is_empty() && msg == "test failed";
    SimPanic { msg, loc, harness }
}

/// Run a simulator entry point; panics are caught and classified.
pub fn sim_guard<T>(f: impl FnOnce() -> T) -> Result<T, SimPanic> {
    let _ = take_panics();
    let _quiet = StdoutToStderr::new();
    std::panic::catch_unwind(std::panic::AssertUnwindSafe(f)).map_err(classify)
}

/// bolero's test engine prints progress statistics with `println!` while an exhaustive run is
/// in flight; stdout is reserved for the verdict lines, so it is pointed at stderr (the log
/// file set up by run.sh) for the duration of a simulator call.
struct StdoutToStderr;

/// (nesting depth over all threads, saved stdout descriptor)
static REDIRECT: std::sync::Mutex<(usize, i32)> = std::sync::Mutex::new((0, -1));

impl StdoutToStderr {
    fn new() -> Self {
        use std::io::Write;
        let mut g = REDIRECT.lock().unwrap_or_else(|e| e.into_inner());
        if g.0 == 0 {
            let _ = std::io::stdout().flush();
            // SAFETY: plain fd duplication on the process's own stdout/stderr
            let saved = unsafe { libc::dup(1) };
            if saved >= 0 {
                unsafe { libc::dup2(2, 1) };
            }
            g.1 = saved;
        }
        g.0 += 1;
        StdoutToStderr
    }
}

impl Drop for StdoutToStderr {
    fn drop(&mut self) {
        use std::io::Write;
        let mut g = REDIRECT.lock().unwrap_or_else(|e| e.into_inner());
        g.0 -= 1;
        if g.0 == 0 && g.1 >= 0 {
            let _ = std::io::stdout().flush();
            // SAFETY: restores the descriptor saved by the outermost guard
            unsafe {
                libc::dup2(g.1, 1);
                libc::close(g.1);
            }
            g.1 = -1;
        }
    }
}

pub fn compile(flow: SimFlow<'_>) -> Result<CompiledSim, SimPanic> {
    sim_guard(|| flow.compiled())
}

/// Run `f` over `items` on one thread each (trybuild compiles of different programs can run
/// concurrently; hydro_lang's trybuild driver serialises what has to be serialised).
pub fn par_map<T: Send, R: Send>(items: Vec<T>, f: impl Fn(T) -> R + Sync) -> Vec<R> {
    std::thread::scope(|s| {
        let f = &f;
        let hs: Vec<_> = items.into_iter().map(|it| s.spawn(move || f(it))).collect();
        hs.into_iter().map(|h| h.join().expect("compile thread panicked")).collect()
    })
}

/// Drive a thunk either through `CompiledSim::exhaustive` (all schedules) or through
/// `fuzz_repro(tape)` (one schedule). `$thunk` must be an `async || { .. }` closure expression.
#[macro_export]
macro_rules! drive_sim {
    ($compiled:expr, $tape:expr, $thunk:expr) => {{
        match $tape {
            None => $crate::proglevel::sim_guard(|| {
                $compiled.exhaustive($thunk);
            }),
            Some(t) => $crate::proglevel::sim_guard(|| {
                let mut th = $thunk;
                $compiled.fuzz_repro(t.clone(), async |inst| {
                    inst.run_with_scheduler_and_logger(std::io::sink(), th()).await;
                })
            }),
        }
    }};
}

/// Turn a simulator panic into the failure of a property body: harness-side panics (the thunk's
/// own awaits) are harness errors, everything else is reported with the panic as signature.
pub fn panic_fail(what: &str, p: &SimPanic) -> vcommon::Fail {
    if p.harness {
        vcommon::Fail::new("harness:thunk", format!("{} at {}", p.msg, p.loc))
    } else {
        vcommon::Fail::new(
            format!("{what}:simulator-panics:{}", crate::util::squash(&p.msg)),
            format!("{} at {}", p.msg, p.loc),
        )
    }
}
