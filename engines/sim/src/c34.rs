//! C34 (simulator half): once an acknowledgement released through `end_atomic` has been
//! observed, every later atomic read reflects the acknowledged write.
//!
//! The driver issues writes, optionally waits for *all* outstanding acknowledgements, issues
//! reads, and so on in phases; all read answers are collected at the end. A read issued after an
//! awaited acknowledgement must see at least the acknowledged writes of its key (and never more
//! than all writes of the run). The tutorial's deliberately non-atomic counter and a non-atomic
//! twin of the harness's own counter are run through the same oracle as negative controls: if
//! the oracle finds nothing there, the run is inconclusive.

use std::cell::Cell;
use std::collections::BTreeMap;

use hydro_lang::prelude::*;
use hydro_lang::sim::compiled::CompiledSim;
use serde::{Deserialize, Serialize};
use vcommon::proptest;
use vcommon::proptest::prelude::*;
use vcommon::{Ctx, Fail, Obs};
use vsim::progs::*;

use crate::drive_sim;
use crate::proglevel::*;

#[derive(Clone, Debug, Serialize, Deserialize)]
pub struct Phase {
    /// keys written in this phase (key 0/1; the single counter ignores the key)
    pub writes: Vec<u8>,
    /// wait for the acknowledgements of all writes issued so far
    pub await_acks: bool,
    /// keys read after the (optional) wait
    pub reads: Vec<u8>,
}

#[derive(Clone, Copy, Debug, PartialEq, Eq, Serialize, Deserialize)]
pub enum AProg {
    AtomicCounter,
    AtomicMax,
    AtomicMin,
    AtomicLastWrite,
    AtomicKeyedReduce,
    KeyedCounter,
    NonAtomicCounter,
    KeyedCounterNonAtomic,
}

impl AProg {
    fn name(self) -> &'static str {
        match self {
            AProg::AtomicCounter => "atomic_counter",
            AProg::AtomicMax => "atomic_max (max() in an atomic region)",
            AProg::AtomicMin => "atomic_min (min() in an atomic region)",
            AProg::AtomicLastWrite => "atomic_last_write (reduce in an atomic region)",
            AProg::AtomicKeyedReduce => "atomic_keyed_reduce (keyed reduce in an atomic region)",
            AProg::KeyedCounter => "tutorial keyed_counter_service",
            AProg::NonAtomicCounter => "non_atomic_counter (control)",
            AProg::KeyedCounterNonAtomic => "tutorial keyed_counter_service_buggy (control)",
        }
    }
    fn keyed(self) -> bool {
        matches!(self, AProg::KeyedCounter | AProg::KeyedCounterNonAtomic)
    }
}

#[derive(Clone, Debug, Serialize, Deserialize)]
pub struct ACase {
    pub prog: AProg,
    pub phases: Vec<Phase>,
    pub tape: Option<Vec<u8>>,
}

type Single = (CompiledSim, (OrdSend<u8>, OrdSend<u8>, OrdRecv<u8>, OrdRecv<(u8, usize)>));
type Keyed = (
    CompiledSim,
    (
        OrdSend<(u32, String)>,
        OrdSend<(u32, String)>,
        NoRecv<(u32, String)>,
        NoRecv<(u32, (String, usize))>,
    ),
);

struct Built {
    atomic: Single,
    max: Single,
    min: Single,
    last: Single,
    keyed_reduce: Single,
    non_atomic: Single,
    keyed: Keyed,
    keyed_buggy: Keyed,
}

fn build_all() -> Result<Built, SimPanic> {
    std::thread::scope(|s| {
        let a = s.spawn(|| {
            let mut flow = FlowBuilder::new();
            let node = flow.process::<()>();
            let ports = atomic_counter(&node);
            compile(flow.sim()).map(|c| (c, ports))
        });
        let b = s.spawn(|| {
            let mut flow = FlowBuilder::new();
            let node = flow.process::<()>();
            let ports = non_atomic_counter(&node);
            compile(flow.sim()).map(|c| (c, ports))
        });
        macro_rules! single {
            ($f:path) => {
                s.spawn(|| {
                    let mut flow = FlowBuilder::new();
                    let node = flow.process::<()>();
                    let ports = $f(&node);
                    compile(flow.sim()).map(|c| (c, ports))
                })
            };
        }
        let m1 = single!(atomic_max);
        let m2 = single!(atomic_min);
        let m3 = single!(atomic_last_write);
        let m4 = single!(atomic_keyed_reduce);
        let c = s.spawn(|| {
            let mut flow = FlowBuilder::new();
            let node = flow.process::<hydro_test::tutorials::keyed_counter::CounterServer>();
            let ports = keyed_counter(&node);
            compile(flow.sim()).map(|c| (c, ports))
        });
        let d = s.spawn(|| {
            let mut flow = FlowBuilder::new();
            let node = flow.process::<hydro_test::tutorials::keyed_counter_non_atomic::CounterServer>();
            let ports = keyed_counter_non_atomic(&node);
            compile(flow.sim()).map(|c| (c, ports))
        });
        Ok(Built {
            atomic: a.join().unwrap()?,
            max: m1.join().unwrap()?,
            min: m2.join().unwrap()?,
            last: m3.join().unwrap()?,
            keyed_reduce: m4.join().unwrap()?,
            non_atomic: b.join().unwrap()?,
            keyed: c.join().unwrap()?,
            keyed_buggy: d.join().unwrap()?,
        })
    })
}

/// One read of the script: its id, key, and the bounds the answer must respect.
struct ReadSpec {
    id: u32,
    key: u8,
    lower: usize,
    upper: usize,
}

fn read_specs(c: &ACase) -> Vec<ReadSpec> {
    let keyed = c.prog.keyed();
    let k = |x: u8| if keyed { x } else { 0 };
    let mut total: BTreeMap<u8, usize> = BTreeMap::new();
    for p in &c.phases {
        for w in &p.writes {
            *total.entry(k(*w)).or_default() += 1;
        }
    }
    let mut issued: BTreeMap<u8, usize> = BTreeMap::new();
    let mut acked: BTreeMap<u8, usize> = BTreeMap::new();
    let mut out = vec![];
    let mut rid = 0u32;
    for p in &c.phases {
        for w in &p.writes {
            *issued.entry(k(*w)).or_default() += 1;
        }
        if p.await_acks {
            acked = issued.clone();
        }
        for r in &p.reads {
            out.push(ReadSpec {
                id: rid,
                key: k(*r),
                lower: acked.get(&k(*r)).copied().unwrap_or(0),
                upper: total.get(&k(*r)).copied().unwrap_or(0),
            });
            rid += 1;
        }
    }
    out
}

fn key_name(k: u8) -> String {
    format!("k{k}")
}

/// Runs the script; returns the answers (read id -> count) of every execution.
fn run_script(b: &Built, c: &ACase) -> Result<Vec<Vec<(u32, usize)>>, SimPanic> {
    let mut outs: Vec<Vec<(u32, usize)>> = vec![];
    match c.prog {
        AProg::AtomicCounter
        | AProg::NonAtomicCounter
        | AProg::AtomicMax
        | AProg::AtomicMin
        | AProg::AtomicLastWrite
        | AProg::AtomicKeyedReduce => {
            let (comp, (w_send, r_send, acks, answers)) = match c.prog {
                AProg::AtomicCounter => &b.atomic,
                AProg::AtomicMax => &b.max,
                AProg::AtomicMin => &b.min,
                AProg::AtomicLastWrite => &b.last,
                AProg::AtomicKeyedReduce => &b.keyed_reduce,
                _ => &b.non_atomic,
            };
            drive_sim!(comp, &c.tape, async || {
                let mut wid = 0u8;
                let mut rid = 0u8;
                let mut outstanding = 0usize;
                for p in &c.phases {
                    for _ in &p.writes {
                        w_send.send(wid);
                        wid += 1;
                        outstanding += 1;
                    }
                    if p.await_acks && outstanding > 0 {
                        let _got: Vec<u8> = acks.collect_n(outstanding).await;
                        outstanding = 0;
                    }
                    for _ in &p.reads {
                        r_send.send(rid);
                        rid += 1;
                    }
                }
                let all: Vec<(u8, usize)> = answers.collect().await;
                outs.push(all.into_iter().map(|(i, n)| (i as u32, n)).collect());
            })?;
        }
        AProg::KeyedCounter | AProg::KeyedCounterNonAtomic => {
            let (comp, (inc, get, acks, resp)) =
                if c.prog == AProg::KeyedCounter { &b.keyed } else { &b.keyed_buggy };
            drive_sim!(comp, &c.tape, async || {
                let mut wid = 1000u32;
                let mut rid = 0u32;
                let mut outstanding: Vec<(u32, String)> = vec![];
                for p in &c.phases {
                    for w in &p.writes {
                        inc.send((wid, key_name(*w)));
                        outstanding.push((wid, key_name(*w)));
                        wid += 1;
                    }
                    if p.await_acks && !outstanding.is_empty() {
                        acks.assert_yields_unordered(std::mem::take(&mut outstanding)).await;
                    }
                    for r in &p.reads {
                        get.send((rid, key_name(*r)));
                        rid += 1;
                    }
                }
                let all: Vec<(u32, (String, usize))> = resp.collect_sorted().await;
                outs.push(all.into_iter().map(|(i, (_, n))| (i, n)).collect());
            })?;
        }
    }
    Ok(outs)
}

/// `Ok(nontrivial)`; `Err` = read-after-write (or exactly-one-answer) violated.
fn check_case(b: &Built, c: &ACase, execs: &Cell<u64>) -> Result<bool, Fail> {
    let name = c.prog.name();
    let specs = read_specs(c);
    let outs = run_script(b, c).map_err(|p| panic_fail(name, &p))?;
    execs.set(execs.get() + outs.len() as u64);
    for o in &outs {
        let mut got: Vec<u32> = o.iter().map(|x| x.0).collect();
        got.sort();
        let want: Vec<u32> = specs.iter().map(|s| s.id).collect();
        // the keyed service answers a read by joining with the per-key counts: a key that has
        // never been incremented (as far as the snapshot shows) yields no answer at all
        let must: Vec<u32> = specs
            .iter()
            .filter(|s| !c.prog.keyed() || s.lower >= 1)
            .map(|s| s.id)
            .collect();
        let dup = got.windows(2).any(|w| w[0] == w[1]);
        if dup || got.iter().any(|g| !want.contains(g)) || must.iter().any(|m| !got.contains(m)) {
            return Err(Fail::new(
                format!("{name}:reads-not-answered-exactly-once"),
                format!("reads {want:?} (must be answered: {must:?}), answers {o:?}; script {:?}", c.phases),
            ));
        }
        for (id, n) in o {
            let s = &specs[*id as usize];
            if *n < s.lower {
                return Err(Fail::new(
                    format!("{name}:read-misses-acknowledged-write"),
                    format!(
                        "read {id} of key {} was issued after {} writes of that key had been acknowledged but answered {n}; script {:?}; answers {o:?}",
                        s.key, s.lower, c.phases
                    ),
                ));
            }
            if *n > s.upper {
                return Err(Fail::new(
                    format!("{name}:read-sees-more-than-was-written"),
                    format!("read {id} answered {n} > {} writes; script {:?}", s.upper, c.phases),
                ));
            }
        }
    }
    // non-trivial: some read must see >=1 acknowledged write while more writes are in flight or follow
    Ok(specs.iter().any(|s| s.lower >= 1 && s.upper > s.lower) || specs.iter().filter(|s| s.lower >= 1).count() >= 2)
}

fn phase_strategy(max_phases: usize, max_ops: usize) -> impl Strategy<Value = Vec<Phase>> {
    proptest::collection::vec(
        (
            proptest::collection::vec(0u8..2, 0..=2),
            any::<bool>(),
            proptest::collection::vec(0u8..2, 0..=2),
        ),
        1..=max_phases,
    )
    .prop_map(move |raw| {
        let mut budget = max_ops;
        let mut out = vec![];
        for (mut writes, await_acks, mut reads) in raw {
            writes.truncate(budget);
            budget -= writes.len();
            reads.truncate(budget);
            budget -= reads.len();
            out.push(Phase { writes, await_acks, reads });
        }
        out
    })
}

pub fn run(ctx: &mut Ctx) {
    let tier = ctx.tier();
    let t0 = std::time::Instant::now();
    let built = match build_all() {
        Ok(b) => b,
        Err(p) => {
            ctx.inconclusive(format!("cannot compile counter programs: {} at {}", p.msg, p.loc));
            return;
        }
    };
    ctx.extra
        .insert("sim_compile_secs".into(), t0.elapsed().as_secs_f64().into());
    let execs = Cell::new(0u64);
    let progs = [
        AProg::AtomicCounter,
        AProg::KeyedCounter,
        AProg::AtomicMax,
        AProg::AtomicMin,
        AProg::AtomicLastWrite,
        AProg::AtomicKeyedReduce,
    ];

    let strat_ex = (0..progs.len(), phase_strategy(3, tier.pick(4, 5))).prop_map(move |(p, phases)| ACase {
        prog: progs[p],
        phases,
        tape: None,
    });
    ctx.check("atomic-exhaustive", tier.pick(500, 6000), strat_ex, |c: &ACase, obs: &mut Obs| {
        obs.class(format!("prog:{}", c.prog.name()));
        let nt = check_case(&built, c, &execs)?;
        obs.nontrivial(nt);
        Ok(())
    });
    if crate::util::violated(ctx) {
        return;
    }
    let strat_tape = (
        0..progs.len(),
        phase_strategy(5, 12),
        proptest::collection::vec(any::<u8>(), 0..500),
    )
        .prop_map(move |(p, phases, tape)| ACase {
            prog: progs[p],
            phases,
            tape: Some(tape),
        });
    ctx.check("atomic-tapes", tier.pick(3000, 80000), strat_tape, |c: &ACase, obs: &mut Obs| {
        obs.class(format!("prog:{}", c.prog.name()));
        let nt = check_case(&built, c, &execs)?;
        obs.nontrivial(nt);
        Ok(())
    });

    if crate::util::violated(ctx) {
        return;
    }
    // negative controls: the same oracle must reject the non-atomic twins
    let script = vec![
        Phase { writes: vec![0], await_acks: true, reads: vec![0] },
        Phase { writes: vec![0], await_acks: true, reads: vec![0] },
    ];
    let mut caught = vec![];
    for prog in [AProg::NonAtomicCounter, AProg::KeyedCounterNonAtomic] {
        let c = ACase { prog, phases: script.clone(), tape: None };
        match check_case(&built, &c, &execs) {
            Err(f) if f.sig.ends_with(":read-misses-acknowledged-write") => caught.push(prog.name()),
            Err(f) => {
                ctx.inconclusive(format!("negative control {} failed differently: {} {}", prog.name(), f.sig, f.msg));
            }
            Ok(_) => {
                ctx.inconclusive(format!(
                    "negative control {}: the read-after-write oracle found nothing on the non-atomic program",
                    prog.name()
                ));
            }
        }
    }
    ctx.extra
        .insert("negative_controls_caught".into(), serde_json::to_value(&caught).unwrap());
    ctx.extra.insert("program_executions_checked".into(), execs.get().into());
}
