//! C38: replaying a simulation instance with the same decision input gives the same decision
//! log, the same outputs and the same verdict — twice in this process and once in a fresh one.

use std::cell::Cell;
use std::io::Write;

use hydro_lang::prelude::*;
use hydro_lang::sim::compiled::CompiledSim;
use serde::{Deserialize, Serialize};
use vcommon::proptest;
use vcommon::proptest::prelude::*;
use vcommon::{Ctx, Fail, Obs};
use vsim::progs::*;

use crate::proglevel::*;

#[derive(Clone, Debug, PartialEq, Eq, Serialize, Deserialize)]
pub struct Record {
    pub log: String,
    pub outputs: String,
    pub verdict: String,
}

pub trait CorpusProg: Send {
    fn name(&self) -> &'static str;
    fn run(&self, tape: Vec<u8>) -> Record;
}

/// Runs `thunk` (which fills `outputs`) under `fuzz_repro(tape)` with the decision log captured.
macro_rules! repro {
    ($compiled:expr, $tape:expr, |$outputs:ident| $body:block) => {{
        let mut log: Vec<u8> = Vec::new();
        let mut $outputs = String::new();
        let r = sim_guard(|| {
            $compiled.fuzz_repro($tape, async |inst| {
                inst.run_with_scheduler_and_logger(&mut log, async $body).await;
            })
        });
        Record {
            log: String::from_utf8_lossy(&log).into_owned(),
            outputs: $outputs,
            verdict: match r {
                Ok(()) => "ok".to_string(),
                Err(p) => format!("panic: {}", p.msg),
            },
        }
    }};
}

pub struct PBatchOrdered {
    compiled: CompiledSim,
    ports: (OrdSend<i32>, OrdRecv<Vec<i32>>),
}
impl PBatchOrdered {
    pub fn build() -> Result<Self, SimPanic> {
        let mut flow = FlowBuilder::new();
        let node = flow.process::<()>();
        let ports = batch_ordered(&node);
        Ok(Self { compiled: compile(flow.sim())?, ports })
    }
}
impl CorpusProg for PBatchOrdered {
    fn name(&self) -> &'static str {
        "batch_ordered"
    }
    fn run(&self, tape: Vec<u8>) -> Record {
        let (send, out) = &self.ports;
        repro!(self.compiled, tape, |outputs| {
            send.send_many([1, 2, 3, 4, 5, 6]);
            let all: Vec<Vec<i32>> = out.collect().await;
            outputs = format!("{all:?}");
        })
    }
}

pub struct PKeyedUnordered {
    compiled: CompiledSim,
    ports: (NoSend<(u8, i32)>, OrdRecv<Vec<(u8, Vec<i32>)>>),
}
impl PKeyedUnordered {
    pub fn build() -> Result<Self, SimPanic> {
        let mut flow = FlowBuilder::new();
        let node = flow.process::<()>();
        let ports = batch_keyed_unordered(&node);
        Ok(Self { compiled: compile(flow.sim())?, ports })
    }
}
impl CorpusProg for PKeyedUnordered {
    fn name(&self) -> &'static str {
        "batch_keyed_unordered"
    }
    fn run(&self, tape: Vec<u8>) -> Record {
        let (send, out) = &self.ports;
        repro!(self.compiled, tape, |outputs| {
            send.send_many_unordered([(3u8, 1), (7, 2), (3, 3), (11, 4), (7, 5), (200, 6), (3, 7), (64, 8)]);
            let all: Vec<Vec<(u8, Vec<i32>)>> = out.collect().await;
            outputs = format!("{all:?}");
        })
    }
}

pub struct PKeyedOrdered {
    compiled: CompiledSim,
    ports: (OrdSend<(u8, i32)>, OrdRecv<Vec<(u8, Vec<i32>)>>),
}
impl PKeyedOrdered {
    pub fn build() -> Result<Self, SimPanic> {
        let mut flow = FlowBuilder::new();
        let node = flow.process::<()>();
        let ports = batch_keyed_ordered(&node);
        Ok(Self { compiled: compile(flow.sim())?, ports })
    }
}
impl CorpusProg for PKeyedOrdered {
    fn name(&self) -> &'static str {
        "batch_keyed_ordered"
    }
    fn run(&self, tape: Vec<u8>) -> Record {
        let (send, out) = &self.ports;
        repro!(self.compiled, tape, |outputs| {
            send.send_many([(3u8, 1), (7, 2), (3, 3), (11, 4), (7, 5), (200, 6), (3, 7), (64, 8)]);
            let all: Vec<Vec<(u8, Vec<i32>)>> = out.collect().await;
            outputs = format!("{all:?}");
        })
    }
}

pub struct PSlicedBatchCount {
    compiled: CompiledSim,
    ports: (OrdSend<i32>, OrdRecv<(Vec<i32>, usize)>),
}
impl PSlicedBatchCount {
    pub fn build() -> Result<Self, SimPanic> {
        let mut flow = FlowBuilder::new();
        let node = flow.process::<()>();
        let ports = sliced_batch_count(&node);
        Ok(Self { compiled: compile(flow.sim())?, ports })
    }
}
impl CorpusProg for PSlicedBatchCount {
    fn name(&self) -> &'static str {
        "sliced_batch_count"
    }
    fn run(&self, tape: Vec<u8>) -> Record {
        let (send, out) = &self.ports;
        repro!(self.compiled, tape, |outputs| {
            send.send_many([1, 2, 3, 4, 5]);
            let all: Vec<(Vec<i32>, usize)> = out.collect().await;
            outputs = format!("{all:?}");
        })
    }
}

pub struct PKeyedSnapshot {
    compiled: CompiledSim,
    ports: (OrdSend<(u8, i32)>, OrdRecv<Vec<(u8, i32)>>),
}
impl PKeyedSnapshot {
    pub fn build() -> Result<Self, SimPanic> {
        let mut flow = FlowBuilder::new();
        let node = flow.process::<()>();
        let ports = sliced_keyed_snapshot(&node);
        Ok(Self { compiled: compile(flow.sim())?, ports })
    }
}
impl CorpusProg for PKeyedSnapshot {
    fn name(&self) -> &'static str {
        "sliced_keyed_snapshot"
    }
    fn run(&self, tape: Vec<u8>) -> Record {
        let (send, out) = &self.ports;
        repro!(self.compiled, tape, |outputs| {
            send.send_many([(3u8, 1), (7, 2), (3, 3), (11, 4), (7, 5), (200, 6), (3, 7)]);
            let all: Vec<Vec<(u8, i32)>> = out.collect().await;
            outputs = format!("{all:?}");
        })
    }
}

pub struct PFoldSnapshot {
    compiled: CompiledSim,
    ports: (NoSend<i32>, OrdRecv<i32>),
}
impl PFoldSnapshot {
    pub fn build() -> Result<Self, SimPanic> {
        let mut flow = FlowBuilder::new();
        let node = flow.process::<()>();
        let ports = fold_unordered_snapshot(&node);
        Ok(Self { compiled: compile(flow.sim())?, ports })
    }
}
impl CorpusProg for PFoldSnapshot {
    fn name(&self) -> &'static str {
        "fold_unordered_snapshot"
    }
    fn run(&self, tape: Vec<u8>) -> Record {
        let (send, out) = &self.ports;
        repro!(self.compiled, tape, |outputs| {
            send.send_many_unordered([1, 2, 4, 8, 16]);
            let all: Vec<i32> = out.collect().await;
            outputs = format!("{all:?}");
        })
    }
}

pub struct PTickOrder {
    compiled: CompiledSim,
    ports: (OrdSend<i32>, OrdSend<i32>, OrdRecv<(i32, usize)>),
}
impl PTickOrder {
    pub fn build() -> Result<Self, SimPanic> {
        let mut flow = FlowBuilder::new();
        let node = flow.process::<()>();
        let ports = tick_order_witness(&node);
        Ok(Self { compiled: compile(flow.sim())?, ports })
    }
}
impl CorpusProg for PTickOrder {
    fn name(&self) -> &'static str {
        "tick_order_witness"
    }
    fn run(&self, tape: Vec<u8>) -> Record {
        let (send_a, send_b, out) = &self.ports;
        repro!(self.compiled, tape, |outputs| {
            send_a.send_many([1, 2, 3]);
            send_b.send_many([101, 102, 103]);
            let all: Vec<(i32, usize)> = out.collect().await;
            outputs = format!("{all:?}");
        })
    }
}

pub struct PTopOrder {
    compiled: CompiledSim,
    ports: (NoSend<i32>, OrdRecv<i32>),
}
impl PTopOrder {
    pub fn build() -> Result<Self, SimPanic> {
        let mut flow = FlowBuilder::new();
        let node = flow.process::<()>();
        let ports = toplevel_order(&node);
        Ok(Self { compiled: compile(flow.sim())?, ports })
    }
}
impl CorpusProg for PTopOrder {
    fn name(&self) -> &'static str {
        "toplevel_order"
    }
    fn run(&self, tape: Vec<u8>) -> Record {
        let (send, out) = &self.ports;
        repro!(self.compiled, tape, |outputs| {
            send.send_many_unordered([1, 2, 3, 4, 5, 6]);
            let all: Vec<i32> = out.collect().await;
            outputs = format!("{all:?}");
        })
    }
}

pub struct PIntickOrder {
    compiled: CompiledSim,
    ports: (NoSend<i32>, OrdRecv<Vec<i32>>),
}
impl PIntickOrder {
    pub fn build() -> Result<Self, SimPanic> {
        let mut flow = FlowBuilder::new();
        let node = flow.process::<()>();
        let ports = intick_order(&node);
        Ok(Self { compiled: compile(flow.sim())?, ports })
    }
}
impl CorpusProg for PIntickOrder {
    fn name(&self) -> &'static str {
        "intick_order"
    }
    fn run(&self, tape: Vec<u8>) -> Record {
        let (send, out) = &self.ports;
        repro!(self.compiled, tape, |outputs| {
            send.send_many_unordered([1, 2, 3, 4, 5]);
            let all: Vec<Vec<i32>> = out.collect().await;
            outputs = format!("{all:?}");
        })
    }
}

pub struct PClusterRelay {
    compiled: CompiledSim,
    ports: (
        hydro_lang::sim::SimClusterSender<i32, hydro_lang::live_collections::stream::TotalOrder, hydro_lang::live_collections::stream::ExactlyOnce>,
        OrdRecv<Vec<(u32, Vec<i32>)>>,
    ),
}
impl PClusterRelay {
    pub fn build() -> Result<Self, SimPanic> {
        let mut flow = FlowBuilder::new();
        let cluster = flow.cluster::<()>();
        let node = flow.process::<()>();
        let ports = cluster_relay(&cluster, &node);
        Ok(Self {
            compiled: compile(flow.sim().with_cluster_size(&cluster, 3))?,
            ports,
        })
    }
}
impl CorpusProg for PClusterRelay {
    fn name(&self) -> &'static str {
        "cluster_relay"
    }
    fn run(&self, tape: Vec<u8>) -> Record {
        let (send, out) = &self.ports;
        repro!(self.compiled, tape, |outputs| {
            send.send_many([(0u32, 1), (1, 2), (2, 3), (0, 4), (1, 5), (2, 6), (0, 7)]);
            let all: Vec<Vec<(u32, Vec<i32>)>> = out.collect().await;
            outputs = format!("{all:?}");
        })
    }
}

pub struct PQuorum {
    compiled: CompiledSim,
    ports: (NoSend<RespV>, NoRecv<(u8, u8)>, NoRecv<(u8, u8)>),
}
impl PQuorum {
    pub fn build() -> Result<Self, SimPanic> {
        let mut flow = FlowBuilder::new();
        let node = flow.process::<()>();
        let ports = quorum_resp_unordered(&node, 2, 3);
        Ok(Self { compiled: compile(flow.sim())?, ports })
    }
}
impl CorpusProg for PQuorum {
    fn name(&self) -> &'static str {
        "quorum_resp_unordered_2_3"
    }
    fn run(&self, tape: Vec<u8>) -> Record {
        let (send, ok, err) = &self.ports;
        repro!(self.compiled, tape, |outputs| {
            send.send_many_unordered([
                (1u8, Ok(10u8)),
                (2, Ok(20)),
                (1, Err(1)),
                (3, Ok(30)),
                (2, Ok(21)),
                (1, Ok(11)),
                (3, Err(3)),
                (2, Ok(22)),
            ]);
            let oks: Vec<(u8, u8)> = ok.collect_sorted().await;
            let errs: Vec<(u8, u8)> = err.collect_sorted().await;
            outputs = format!("{oks:?} {errs:?}");
        })
    }
}

pub struct PKeyedCounter {
    compiled: CompiledSim,
    ports: (
        OrdSend<(u32, String)>,
        OrdSend<(u32, String)>,
        NoRecv<(u32, String)>,
        NoRecv<(u32, (String, usize))>,
    ),
}
impl PKeyedCounter {
    pub fn build() -> Result<Self, SimPanic> {
        let mut flow = FlowBuilder::new();
        let node = flow.process::<hydro_test::tutorials::keyed_counter::CounterServer>();
        let ports = keyed_counter(&node);
        Ok(Self { compiled: compile(flow.sim())?, ports })
    }
}
impl CorpusProg for PKeyedCounter {
    fn name(&self) -> &'static str {
        "keyed_counter"
    }
    fn run(&self, tape: Vec<u8>) -> Record {
        let (inc, get, acks, resp) = &self.ports;
        repro!(self.compiled, tape, |outputs| {
            inc.send_many([(1u32, "a".to_owned()), (2, "b".to_owned()), (1, "a".to_owned()), (3, "b".to_owned())]);
            get.send_many([(1u32, "a".to_owned()), (2, "b".to_owned()), (4, "a".to_owned())]);
            let a: Vec<(u32, String)> = acks.collect_sorted().await;
            let r: Vec<(u32, (String, usize))> = resp.collect_sorted().await;
            outputs = format!("{a:?} {r:?}");
        })
    }
}

pub struct PRaft {
    compiled: CompiledSim,
    ports: RaftPorts,
}
impl PRaft {
    pub fn build() -> Result<Self, SimPanic> {
        let mut flow = FlowBuilder::new();
        let cluster = flow.cluster::<hydro_test::cluster::raft::Replica>();
        let ports = raft_prog(&cluster, 3);
        Ok(Self {
            compiled: compile(
                flow.sim()
                    .skip_consistency_assertions()
                    .with_cluster_size(&cluster, 3),
            )?,
            ports,
        })
    }
}
impl CorpusProg for PRaft {
    fn name(&self) -> &'static str {
        "raft_3"
    }
    fn run(&self, tape: Vec<u8>) -> Record {
        let p = &self.ports;
        repro!(self.compiled, tape, |outputs| {
            for m in 0..2u32 {
                p.election.send(m, ());
                p.request.send(m, format!("r{m}"));
            }
            for _ in 0..3 {
                for m in 0..3u32 {
                    p.heartbeat.send(m, ());
                }
            }
            let mut all = vec![];
            for m in 0..3u32 {
                let c: Vec<RaftEntry> = p.committed.collect(m).await;
                let r: Vec<(String, Option<hydro_lang::location::MemberId<hydro_test::cluster::raft::Replica>>)> =
                    p.redirected.collect(m).await;
                all.push((c, r));
            }
            outputs = format!("{all:?}");
        })
    }
}

pub struct PIntickKeyedOrder {
    compiled: CompiledSim,
    ports: (NoSend<(u8, i32)>, OrdRecv<Vec<(u8, Vec<i32>)>>),
}
impl PIntickKeyedOrder {
    pub fn build() -> Result<Self, SimPanic> {
        let mut flow = FlowBuilder::new();
        let node = flow.process::<()>();
        let ports = intick_keyed_order(&node);
        Ok(Self { compiled: compile(flow.sim())?, ports })
    }
}
impl CorpusProg for PIntickKeyedOrder {
    fn name(&self) -> &'static str {
        "intick_keyed_order"
    }
    fn run(&self, tape: Vec<u8>) -> Record {
        let (send, out) = &self.ports;
        repro!(self.compiled, tape, |outputs| {
            // 4 keys x 3 values: most batches hold several keys with several values each
            send.send_many_unordered([
                (3u8, 1), (7, 2), (11, 3), (200, 4),
                (3, 5), (7, 6), (11, 7), (200, 8),
                (3, 9), (7, 10), (11, 11), (200, 12),
            ]);
            let all: Vec<Vec<(u8, Vec<i32>)>> = out.collect().await;
            outputs = format!("{all:?}");
        })
    }
}

pub struct PIntickMerge {
    compiled: CompiledSim,
    ports: (OrdSend<i32>, OrdSend<i32>, OrdRecv<Vec<i32>>),
}
impl PIntickMerge {
    pub fn build() -> Result<Self, SimPanic> {
        let mut flow = FlowBuilder::new();
        let node = flow.process::<()>();
        let ports = intick_merge_ordered(&node);
        Ok(Self { compiled: compile(flow.sim())?, ports })
    }
}
impl CorpusProg for PIntickMerge {
    fn name(&self) -> &'static str {
        "intick_merge_ordered"
    }
    fn run(&self, tape: Vec<u8>) -> Record {
        let (send_a, send_b, out) = &self.ports;
        repro!(self.compiled, tape, |outputs| {
            send_a.send_many([1, 2, 3, 4]);
            send_b.send_many([101, 102, 103, 104]);
            let all: Vec<Vec<i32>> = out.collect().await;
            outputs = format!("{all:?}");
        })
    }
}

pub struct PIntickPartial {
    compiled: CompiledSim,
    ports: (OrdSend<(u8, i32)>, OrdRecv<Vec<(u8, i32)>>),
}
impl PIntickPartial {
    pub fn build() -> Result<Self, SimPanic> {
        let mut flow = FlowBuilder::new();
        let node = flow.process::<()>();
        let ports = intick_partially_ordered(&node);
        Ok(Self { compiled: compile(flow.sim())?, ports })
    }
}
impl CorpusProg for PIntickPartial {
    fn name(&self) -> &'static str {
        "intick_partially_ordered"
    }
    fn run(&self, tape: Vec<u8>) -> Record {
        let (send, out) = &self.ports;
        repro!(self.compiled, tape, |outputs| {
            send.send_many([(3u8, 1), (7, 2), (3, 3), (11, 4), (7, 5), (3, 6), (11, 7), (7, 8)]);
            let all: Vec<Vec<(u8, i32)>> = out.collect().await;
            outputs = format!("{all:?}");
        })
    }
}

pub fn corpus_names(with_raft: bool) -> Vec<&'static str> {
    let mut v = vec![
        "batch_ordered",
        "batch_keyed_unordered",
        "batch_keyed_ordered",
        "sliced_batch_count",
        "sliced_keyed_snapshot",
        "fold_unordered_snapshot",
        "tick_order_witness",
        "toplevel_order",
        "intick_order",
        "intick_keyed_order",
        "intick_merge_ordered",
        "intick_partially_ordered",
        "cluster_relay",
        "quorum_resp_unordered_2_3",
        "keyed_counter",
    ];
    if with_raft {
        v.push("raft_3");
    }
    v
}

pub fn build_prog(name: &str) -> Result<Box<dyn CorpusProg>, SimPanic> {
    let t0 = std::time::Instant::now();
    let r = build_prog_inner(name);
    eprintln!("compiled {name} in {:.1}s", t0.elapsed().as_secs_f64());
    r
}

fn build_prog_inner(name: &str) -> Result<Box<dyn CorpusProg>, SimPanic> {
    Ok(match name {
        "batch_ordered" => Box::new(PBatchOrdered::build()?),
        "batch_keyed_unordered" => Box::new(PKeyedUnordered::build()?),
        "batch_keyed_ordered" => Box::new(PKeyedOrdered::build()?),
        "sliced_batch_count" => Box::new(PSlicedBatchCount::build()?),
        "sliced_keyed_snapshot" => Box::new(PKeyedSnapshot::build()?),
        "fold_unordered_snapshot" => Box::new(PFoldSnapshot::build()?),
        "tick_order_witness" => Box::new(PTickOrder::build()?),
        "toplevel_order" => Box::new(PTopOrder::build()?),
        "intick_order" => Box::new(PIntickOrder::build()?),
        "intick_keyed_order" => Box::new(PIntickKeyedOrder::build()?),
        "intick_merge_ordered" => Box::new(PIntickMerge::build()?),
        "intick_partially_ordered" => Box::new(PIntickPartial::build()?),
        "cluster_relay" => Box::new(PClusterRelay::build()?),
        "quorum_resp_unordered_2_3" => Box::new(PQuorum::build()?),
        "keyed_counter" => Box::new(PKeyedCounter::build()?),
        "raft_3" => Box::new(PRaft::build()?),
        other => panic!("unknown corpus program {other}"),
    })
}

fn nontrivial_decisions(log: &str) -> usize {
    log.lines()
        .filter(|l| l.contains("^ "))
        .filter(|l| !l.contains("releasing no items") && !l.contains("unchanged snapshot"))
        .count()
}

/// Number of keyed in-tick ordering decisions in the log whose batch holds >=2 keys with >=2
/// values each (the situation in which the per-key shuffle decisions depend on the order in
/// which the hook visits the keys).
fn keyed_order_decisions(log: &str) -> usize {
    log.lines()
        .filter(|l| l.contains("observed non-deterministic order: {"))
        .filter(|l| {
            l.split('[')
                .skip(1)
                .filter(|g| g.split(']').next().is_some_and(|inner| inner.contains(',')))
                .count()
                >= 2
        })
        .count()
}

fn first_diff(a: &str, b: &str) -> String {
    for (i, (x, y)) in a.lines().zip(b.lines()).enumerate() {
        if x != y {
            return format!("line {i}: {x:?} vs {y:?}");
        }
    }
    format!("lengths {} vs {} lines", a.lines().count(), b.lines().count())
}

fn compare(prog: &str, how: &str, a: &Record, b: &Record) -> Result<(), Fail> {
    if a.log != b.log {
        return Err(Fail::new(
            format!("{prog}:decision-log-differs:{how}"),
            format!("same decision input, different decisions: {}", first_diff(&a.log, &b.log)),
        ));
    }
    if a.outputs != b.outputs {
        return Err(Fail::new(
            format!("{prog}:outputs-differ:{how}"),
            format!("{} vs {}", a.outputs, b.outputs),
        ));
    }
    if a.verdict != b.verdict {
        return Err(Fail::new(
            format!("{prog}:verdict-differs:{how}"),
            format!("{} vs {}", a.verdict, b.verdict),
        ));
    }
    Ok(())
}

#[derive(Clone, Debug, Serialize, Deserialize)]
pub struct TapeCase {
    pub prog: usize,
    pub tape: Vec<u8>,
}

#[derive(Clone, Debug, Serialize, Deserialize)]
pub struct FreshCase {
    pub prog: usize,
    pub tapes: Vec<Vec<u8>>,
}

fn tape_strategy() -> impl Strategy<Value = Vec<u8>> {
    prop_oneof![
        proptest::collection::vec(any::<u8>(), 0..48),
        proptest::collection::vec(any::<u8>(), 48..512),
        proptest::collection::vec(any::<u8>(), 512..4096),
        // mostly-trivial decisions with a few deviations
        proptest::collection::vec(prop_oneof![4 => Just(0u8), 1 => any::<u8>()], 16..256),
    ]
}

#[derive(Serialize, Deserialize)]
struct ChildJob {
    prog: String,
    tapes: Vec<Vec<u8>>,
}

/// Child mode: `--child FILE` → prints the records as JSON on stdout.
pub fn child_main(path: &str) -> ! {
    let job: ChildJob = serde_json::from_str(&std::fs::read_to_string(path).expect("job file")).expect("job json");
    let prog = match build_prog(&job.prog) {
        Ok(p) => p,
        Err(p) => {
            eprintln!("child: cannot compile {}: {} at {}", job.prog, p.msg, p.loc);
            std::process::exit(2);
        }
    };
    let recs: Vec<Record> = job.tapes.into_iter().map(|t| prog.run(t)).collect();
    let mut out = std::io::stdout().lock();
    out.write_all(serde_json::to_string(&recs).unwrap().as_bytes()).unwrap();
    out.flush().unwrap();
    std::process::exit(0);
}

fn run_child(ctx_prop: &str, prog: &str, tapes: &[Vec<u8>]) -> Result<Vec<Record>, String> {
    let root = std::env::var("VERIF_ROOT").unwrap_or_else(|_| "/verif".into());
    let dir = format!("{root}/work/sim");
    std::fs::create_dir_all(&dir).map_err(|e| e.to_string())?;
    let path = format!("{dir}/child-job-{}-{prog}.json", std::process::id());
    let job = ChildJob {
        prog: prog.to_string(),
        tapes: tapes.to_vec(),
    };
    std::fs::write(&path, serde_json::to_string(&job).unwrap()).map_err(|e| e.to_string())?;
    let exe = std::env::current_exe().map_err(|e| e.to_string())?;
    let out = std::process::Command::new(exe)
        .args(["--prop", ctx_prop, "--child", &path])
        .stdin(std::process::Stdio::null())
        .stderr(std::process::Stdio::null())
        .output()
        .map_err(|e| e.to_string())?;
    let _ = std::fs::remove_file(&path);
    if !out.status.success() {
        return Err(format!("child exited with {:?}", out.status));
    }
    serde_json::from_slice(&out.stdout).map_err(|e| format!("child output: {e}"))
}

pub fn run(ctx: &mut Ctx) {
    let tier = ctx.tier();
    let names = corpus_names(true);
    let mut progs: Vec<Box<dyn CorpusProg>> = vec![];
    let t0 = std::time::Instant::now();
    for (n, r) in names.iter().zip(par_map(names.clone(), build_prog)) {
        match r {
            Ok(p) => progs.push(p),
            Err(p) => {
                ctx.inconclusive(format!("cannot compile corpus program {n}: {} at {}", p.msg, p.loc));
                return;
            }
        }
    }
    ctx.extra
        .insert("sim_compile_secs".into(), t0.elapsed().as_secs_f64().into());
    let nprog = progs.len();
    let replays = Cell::new(0u64);

    let cases = tier.pick(1500, 30000);
    ctx.check(
        "replay-twice-in-process",
        cases,
        (0..nprog, tape_strategy()).prop_map(|(prog, tape)| TapeCase { prog, tape }),
        |c: &TapeCase, obs: &mut Obs| {
            let p = &progs[c.prog % nprog];
            obs.class(format!("prog:{}", p.name()));
            let a = p.run(c.tape.clone());
            let b = p.run(c.tape.clone());
            replays.set(replays.get() + 2);
            obs.class(if a.verdict == "ok" { "verdict:ok" } else { "verdict:panic" });
            obs.nontrivial(nontrivial_decisions(&a.log) >= 5);
            if keyed_order_decisions(&a.log) >= 1 {
                obs.class("keyed-in-tick-order-decision:>=2-keys-with->=2-values");
            }
            for (needle, label) in [
                ("observed non-deterministic merge order", "inline:merge-ordered-decision"),
                ("observed partially-ordered interleaving", "inline:partially-ordered-decision"),
                ("observed non-deterministic order: [", "inline:stream-order-decision"),
            ] {
                if a.log.contains(needle) {
                    obs.class(label);
                }
            }
            compare(p.name(), "same-process", &a, &b)
        },
    );

    if crate::util::violated(ctx) {
        return;
    }
    let fresh_cases = tier.pick(8, 4 * nprog as u32);
    let per_child = tier.pick(6usize, 40usize);
    let prop = ctx.prop().to_string();
    ctx.check(
        "replay-fresh-process",
        fresh_cases,
        (0..nprog, proptest::collection::vec(tape_strategy(), per_child))
            .prop_map(|(prog, tapes)| FreshCase { prog, tapes }),
        |c: &FreshCase, obs: &mut Obs| {
            let idx = c.prog % nprog;
            let p = &progs[idx];
            obs.class(format!("fresh:{}", p.name()));
            let here: Vec<Record> = c.tapes.iter().map(|t| p.run(t.clone())).collect();
            let there = run_child(&prop, p.name(), &c.tapes)
                .map_err(|e| Fail::new("harness:child-process", e))?;
            if there.len() != here.len() {
                return Err(Fail::new("harness:child-process", "record count differs"));
            }
            replays.set(replays.get() + 2 * here.len() as u64);
            obs.nontrivial(here.iter().any(|r| nontrivial_decisions(&r.log) >= 5));
            for (a, b) in here.iter().zip(&there) {
                compare(p.name(), "fresh-process", a, b)?;
            }
            Ok(())
        },
    );
    ctx.extra.insert("replays_executed".into(), replays.get().into());
}
