//! Program level of C36 / C37: small Hydro programs whose outputs expose every tick's releases,
//! run under `CompiledSim::exhaustive`; every explored execution is checked with the C36
//! invariants, and the set of reached outcomes is compared with an independently enumerated set
//! (C37).

use std::cell::{Cell, OnceCell};
use std::sync::{Mutex, OnceLock};
use std::collections::{BTreeMap, BTreeSet};

use hydro_lang::prelude::*;
use hydro_lang::sim::compiled::CompiledSim;
use serde::{Deserialize, Serialize};
use vcommon::{Ctx, Fail, Obs, Tier};
use vsim::progs::*;

use crate::proglevel::*;

/// One observed tick / output element: (slot or key, values).
pub type TickOut = Vec<(u8, Vec<i32>)>;
pub type Out = Vec<TickOut>;

#[derive(Clone, Debug, PartialEq, Eq, Hash, Serialize, Deserialize)]
pub enum PCase {
    BatchOrdered { n: usize },
    BatchUnordered { items: Vec<i32> },
    KeyedOrdered { items: Vec<(u8, i32)> },
    KeyedUnordered { items: Vec<(u8, i32)> },
    SnapshotCount { n: usize },
    TwoBatches { a: usize, b: usize },
    SlicedBatchCount { n: usize },
    FoldSnapshot { n: usize },
    TickOrder { a: usize, b: usize },
    TopOrder { n: usize },
    IntickOrder { n: usize },
}

impl PCase {
    pub fn prog(&self) -> &'static str {
        match self {
            PCase::BatchOrdered { .. } => "batch_ordered",
            PCase::BatchUnordered { .. } => "batch_unordered",
            PCase::KeyedOrdered { .. } => "batch_keyed_ordered",
            PCase::KeyedUnordered { .. } => "batch_keyed_unordered",
            PCase::SnapshotCount { .. } => "snapshot_count",
            PCase::TwoBatches { .. } => "two_batches",
            PCase::SlicedBatchCount { .. } => "sliced_batch_count",
            PCase::FoldSnapshot { .. } => "fold_unordered_snapshot",
            PCase::TickOrder { .. } => "tick_order_witness",
            PCase::TopOrder { .. } => "toplevel_order",
            PCase::IntickOrder { .. } => "intick_order",
        }
    }
}

/// Lazily compiled programs (one trybuild compile each, cached on disk by content hash).
#[derive(Default)]
pub struct Progs {
    batch_ordered: OnceLock<Result<(CompiledSim, (OrdSend<i32>, OrdRecv<Vec<i32>>)), SimPanic>>,
    batch_unordered: OnceLock<Result<(CompiledSim, (NoSend<i32>, OrdRecv<Vec<i32>>)), SimPanic>>,
    keyed_ordered:
        OnceLock<Result<(CompiledSim, (OrdSend<(u8, i32)>, OrdRecv<Vec<(u8, Vec<i32>)>>)), SimPanic>>,
    keyed_unordered:
        OnceLock<Result<(CompiledSim, (NoSend<(u8, i32)>, OrdRecv<Vec<(u8, Vec<i32>)>>)), SimPanic>>,
    snapshot_count: OnceLock<Result<(CompiledSim, (OrdSend<i32>, OrdRecv<usize>)), SimPanic>>,
    two_batches:
        OnceLock<Result<(CompiledSim, (OrdSend<i32>, OrdSend<i32>, OrdRecv<(Vec<i32>, Vec<i32>)>)), SimPanic>>,
    sliced_batch_count: OnceLock<Result<(CompiledSim, (OrdSend<i32>, OrdRecv<(Vec<i32>, usize)>)), SimPanic>>,
    fold_snapshot: OnceLock<Result<(CompiledSim, (NoSend<i32>, OrdRecv<i32>)), SimPanic>>,
    tick_order: OnceLock<Result<(CompiledSim, (OrdSend<i32>, OrdSend<i32>, OrdRecv<(i32, usize)>)), SimPanic>>,
    top_order: OnceLock<Result<(CompiledSim, (NoSend<i32>, OrdRecv<i32>)), SimPanic>>,
    intick_order: OnceLock<Result<(CompiledSim, (NoSend<i32>, OrdRecv<Vec<i32>>)), SimPanic>>,
    pub compile_secs: Mutex<f64>,
}

macro_rules! get_prog {
    ($self:ident, $field:ident, $builder:path) => {{
        let r = $self.$field.get_or_init(|| {
            let t0 = std::time::Instant::now();
            let mut flow = FlowBuilder::new();
            let node = flow.process::<()>();
            let ports = $builder(&node);
            let c = compile(flow.sim());
            *$self.compile_secs.lock().unwrap() += t0.elapsed().as_secs_f64();
            c.map(|c| (c, ports))
        });
        match r {
            Ok(v) => Ok(v),
            Err(p) => Err(harness_fail("compile", p)),
        }
    }};
}

/// A panic that is not a property violation: compile trouble or the harness's own thunk.
pub fn harness_fail(what: &str, p: &SimPanic) -> Fail {
    Fail::new(
        format!("harness:{what}"),
        format!("{} at {} (harness={})", p.msg, p.loc, p.harness),
    )
}

/// Result of an exhaustive run: number of executions bolero counted and the recorded outputs.
pub struct Explored {
    pub count: usize,
    pub outs: Vec<Out>,
}

fn vals(n: usize) -> Vec<i32> {
    (1..=n as i32).collect()
}

impl Progs {
    /// Compile every program the cases need, concurrently (independent trybuild jobs).
    pub fn precompile(&self, cases: &[PCase]) {
        let mut seen = BTreeSet::new();
        let firsts: Vec<&PCase> = cases.iter().filter(|c| seen.insert(c.prog())).collect();
        std::thread::scope(|s| {
            for c in firsts {
                s.spawn(move || {
                    let _ = match c {
                        PCase::BatchOrdered { .. } => get_prog!(self, batch_ordered, batch_ordered).map(|_| ()),
                        PCase::BatchUnordered { .. } => get_prog!(self, batch_unordered, batch_unordered).map(|_| ()),
                        PCase::KeyedOrdered { .. } => get_prog!(self, keyed_ordered, batch_keyed_ordered).map(|_| ()),
                        PCase::KeyedUnordered { .. } => get_prog!(self, keyed_unordered, batch_keyed_unordered).map(|_| ()),
                        PCase::SnapshotCount { .. } => get_prog!(self, snapshot_count, snapshot_count).map(|_| ()),
                        PCase::TwoBatches { .. } => get_prog!(self, two_batches, two_batches).map(|_| ()),
                        PCase::SlicedBatchCount { .. } => get_prog!(self, sliced_batch_count, sliced_batch_count).map(|_| ()),
                        PCase::FoldSnapshot { .. } => get_prog!(self, fold_snapshot, fold_unordered_snapshot).map(|_| ()),
                        PCase::TickOrder { .. } => get_prog!(self, tick_order, tick_order_witness).map(|_| ()),
                        PCase::TopOrder { .. } => get_prog!(self, top_order, toplevel_order).map(|_| ()),
                        PCase::IntickOrder { .. } => get_prog!(self, intick_order, intick_order).map(|_| ()),
                    };
                });
            }
        });
    }

    /// Run the case under `CompiledSim::exhaustive`, recording the outputs of every execution.
    pub fn explore(&self, case: &PCase) -> Result<Result<Explored, SimPanic>, Fail> {
        let mut outs: Vec<Out> = vec![];
        let r = match case {
            PCase::BatchOrdered { n } => {
                let (c, (send, out)) = get_prog!(self, batch_ordered, batch_ordered)?;
                let items = vals(*n);
                sim_guard(|| {
                    c.exhaustive(async || {
                        send.send_many(items.clone());
                        let all: Vec<Vec<i32>> = out.collect().await;
                        outs.push(all.into_iter().map(|b| vec![(0, b)]).collect());
                    })
                })
            }
            PCase::BatchUnordered { items } => {
                let (c, (send, out)) = get_prog!(self, batch_unordered, batch_unordered)?;
                sim_guard(|| {
                    c.exhaustive(async || {
                        send.send_many_unordered(items.clone());
                        let all: Vec<Vec<i32>> = out.collect().await;
                        outs.push(all.into_iter().map(|b| vec![(0, b)]).collect());
                    })
                })
            }
            PCase::KeyedOrdered { items } => {
                let (c, (send, out)) = get_prog!(self, keyed_ordered, batch_keyed_ordered)?;
                sim_guard(|| {
                    c.exhaustive(async || {
                        send.send_many(items.clone());
                        let all: Vec<Vec<(u8, Vec<i32>)>> = out.collect().await;
                        outs.push(all);
                    })
                })
            }
            PCase::KeyedUnordered { items } => {
                let (c, (send, out)) = get_prog!(self, keyed_unordered, batch_keyed_unordered)?;
                sim_guard(|| {
                    c.exhaustive(async || {
                        send.send_many_unordered(items.clone());
                        let all: Vec<Vec<(u8, Vec<i32>)>> = out.collect().await;
                        outs.push(all);
                    })
                })
            }
            PCase::SnapshotCount { n } => {
                let (c, (send, out)) = get_prog!(self, snapshot_count, snapshot_count)?;
                let items = vals(*n);
                sim_guard(|| {
                    c.exhaustive(async || {
                        send.send_many(items.clone());
                        let all: Vec<usize> = out.collect().await;
                        outs.push(all.into_iter().map(|v| vec![(0, vec![v as i32])]).collect());
                    })
                })
            }
            PCase::TwoBatches { a, b } => {
                let (c, (send_a, send_b, out)) = get_prog!(self, two_batches, two_batches)?;
                let ia = vals(*a);
                let ib: Vec<i32> = vals(*b).into_iter().map(|x| x + 100).collect();
                sim_guard(|| {
                    c.exhaustive(async || {
                        send_a.send_many(ia.clone());
                        send_b.send_many(ib.clone());
                        let all: Vec<(Vec<i32>, Vec<i32>)> = out.collect().await;
                        outs.push(all.into_iter().map(|(x, y)| vec![(0, x), (1, y)]).collect());
                    })
                })
            }
            PCase::SlicedBatchCount { n } => {
                let (c, (send, out)) = get_prog!(self, sliced_batch_count, sliced_batch_count)?;
                let items = vals(*n);
                sim_guard(|| {
                    c.exhaustive(async || {
                        send.send_many(items.clone());
                        let all: Vec<(Vec<i32>, usize)> = out.collect().await;
                        outs.push(
                            all.into_iter()
                                .map(|(x, s)| vec![(0, x), (1, vec![s as i32])])
                                .collect(),
                        );
                    })
                })
            }
            PCase::FoldSnapshot { n } => {
                let (c, (send, out)) = get_prog!(self, fold_snapshot, fold_unordered_snapshot)?;
                let items: Vec<i32> = (0..*n).map(|i| 1 << i).collect();
                sim_guard(|| {
                    c.exhaustive(async || {
                        send.send_many_unordered(items.clone());
                        let all: Vec<i32> = out.collect().await;
                        outs.push(all.into_iter().map(|v| vec![(0, vec![v])]).collect());
                    })
                })
            }
            PCase::TickOrder { a, b } => {
                let (c, (send_a, send_b, out)) = get_prog!(self, tick_order, tick_order_witness)?;
                let ia = vals(*a);
                let ib: Vec<i32> = vals(*b).into_iter().map(|x| x + 100).collect();
                sim_guard(|| {
                    c.exhaustive(async || {
                        send_a.send_many(ia.clone());
                        send_b.send_many(ib.clone());
                        let all: Vec<(i32, usize)> = out.collect().await;
                        outs.push(
                            all.into_iter()
                                .map(|(y, seen)| vec![(0, vec![y, seen as i32])])
                                .collect(),
                        );
                    })
                })
            }
            PCase::TopOrder { n } => {
                let (c, (send, out)) = get_prog!(self, top_order, toplevel_order)?;
                let items = vals(*n);
                sim_guard(|| {
                    c.exhaustive(async || {
                        send.send_many_unordered(items.clone());
                        let all: Vec<i32> = out.collect().await;
                        outs.push(all.into_iter().map(|v| vec![(0, vec![v])]).collect());
                    })
                })
            }
            PCase::IntickOrder { n } => {
                let (c, (send, out)) = get_prog!(self, intick_order, intick_order)?;
                let items = vals(*n);
                sim_guard(|| {
                    c.exhaustive(async || {
                        send.send_many_unordered(items.clone());
                        let all: Vec<Vec<i32>> = out.collect().await;
                        outs.push(all.into_iter().map(|b| vec![(0, b)]).collect());
                    })
                })
            }
        };
        Ok(r.map(|count| Explored { count, outs }))
    }
}

// ---------------------------------------------------------------------------------------------
// C36 invariants on one execution
// ---------------------------------------------------------------------------------------------

fn slot(t: &TickOut, s: u8) -> Vec<i32> {
    t.iter().find(|(k, _)| *k == s).map(|(_, v)| v.clone()).unwrap_or_default()
}

pub fn check_exec(case: &PCase, out: &Out) -> Result<bool, Fail> {
    let p = case.prog();
    let fail = |what: &str, msg: String| Err(Fail::new(format!("{p}:{what}"), msg));
    let mut split = false;
    match case {
        PCase::BatchOrdered { n } | PCase::IntickOrder { n } => {
            let ordered = matches!(case, PCase::BatchOrdered { .. });
            let mut all: Vec<i32> = vec![];
            for t in out {
                let b = slot(t, 0);
                if b.is_empty() {
                    return fail("tick-released-nothing", format!("{out:?}"));
                }
                all.extend(b);
            }
            let mut want = vals(*n);
            if !ordered {
                all.sort();
                want.sort();
            }
            if all != want {
                return fail(
                    if ordered { "batches-not-inorder-partition" } else { "batches-not-a-partition" },
                    format!("input {want:?}, batches {out:?}"),
                );
            }
            split = *n >= 3 && out.len() >= 2;
        }
        PCase::BatchUnordered { items } => {
            let mut all: Vec<i32> = vec![];
            for t in out {
                let b = slot(t, 0);
                if b.is_empty() {
                    return fail("tick-released-nothing", format!("{out:?}"));
                }
                all.extend(b);
            }
            let mut want = items.clone();
            all.sort();
            want.sort();
            if all != want {
                return fail("batches-not-a-partition", format!("input {want:?}, batches {out:?}"));
            }
            split = items.len() >= 3 && out.len() >= 2;
        }
        PCase::KeyedOrdered { items } | PCase::KeyedUnordered { items } => {
            let ordered = matches!(case, PCase::KeyedOrdered { .. });
            let mut got: BTreeMap<u8, Vec<i32>> = BTreeMap::new();
            for t in out {
                if t.is_empty() || t.iter().any(|(_, v)| v.is_empty()) {
                    return fail("tick-released-nothing", format!("{out:?}"));
                }
                for (k, v) in t {
                    got.entry(*k).or_default().extend(v.iter().copied());
                }
            }
            let mut want: BTreeMap<u8, Vec<i32>> = BTreeMap::new();
            for (k, v) in items {
                want.entry(*k).or_default().push(*v);
            }
            if !ordered {
                for v in got.values_mut().chain(want.values_mut()) {
                    v.sort();
                }
            }
            if got != want {
                return fail(
                    if ordered { "per-key-not-inorder-partition" } else { "per-key-not-a-partition" },
                    format!("input {want:?}, batches {out:?}"),
                );
            }
            split = items.len() >= 3 && out.len() >= 2;
        }
        PCase::SnapshotCount { n } => {
            let vs: Vec<i32> = out.iter().map(|t| slot(t, 0)[0]).collect();
            for w in vs.windows(2) {
                if w[1] < w[0] {
                    return fail("snapshot-went-back", format!("{vs:?}"));
                }
                if w[1] == w[0] {
                    return fail("tick-released-nothing", format!("{vs:?}"));
                }
            }
            if vs.last() != Some(&(*n as i32)) || vs.iter().any(|v| *v < 0 || *v > *n as i32) {
                return fail("snapshot-not-a-version", format!("{vs:?} for {n} inputs"));
            }
            split = *n >= 2 && vs.len() >= 2;
        }
        PCase::TwoBatches { a, b } => {
            let mut ga = vec![];
            let mut gb = vec![];
            for t in out {
                let (x, y) = (slot(t, 0), slot(t, 1));
                if x.is_empty() && y.is_empty() {
                    return fail("tick-released-nothing", format!("{out:?}"));
                }
                ga.extend(x);
                gb.extend(y);
            }
            let wb: Vec<i32> = vals(*b).into_iter().map(|x| x + 100).collect();
            if ga != vals(*a) || gb != wb {
                return fail("batches-not-inorder-partition", format!("{out:?}"));
            }
            split = a + b >= 3 && out.len() >= 2;
        }
        PCase::SlicedBatchCount { n } => {
            let mut all = vec![];
            let mut last: Option<i32> = None;
            for t in out {
                let (b, s) = (slot(t, 0), slot(t, 1)[0]);
                if let Some(l) = last {
                    if s < l {
                        return fail("snapshot-went-back", format!("{out:?}"));
                    }
                    if s == l && b.is_empty() {
                        return fail("tick-released-nothing", format!("{out:?}"));
                    }
                }
                if s < 0 || s > *n as i32 {
                    return fail("snapshot-not-a-version", format!("{out:?}"));
                }
                last = Some(s);
                all.extend(b);
            }
            if all != vals(*n) {
                return fail("batches-not-inorder-partition", format!("{out:?}"));
            }
            split = *n >= 2 && out.len() >= 3;
        }
        PCase::FoldSnapshot { n } => {
            let vs: Vec<i32> = out.iter().map(|t| slot(t, 0)[0]).collect();
            let full = (1 << n) - 1;
            for w in vs.windows(2) {
                // versions are subset sums of distinct powers of two: newer = strict superset
                if w[0] & w[1] != w[0] {
                    return fail("snapshot-went-back", format!("{vs:?}"));
                }
                if w[0] == w[1] {
                    return fail("tick-released-nothing", format!("{vs:?}"));
                }
            }
            if vs.last() != Some(&full) {
                return fail("input-lost", format!("{vs:?} does not end with {full}"));
            }
            split = *n >= 3 && vs.len() >= 3;
        }
        PCase::TickOrder { a, b } => {
            let ys: Vec<i32> = out.iter().map(|t| slot(t, 0)[0]).collect();
            let seen: Vec<i32> = out.iter().map(|t| slot(t, 0)[1]).collect();
            let wb: Vec<i32> = vals(*b).into_iter().map(|x| x + 100).collect();
            if ys != wb {
                return fail("batches-not-inorder-partition", format!("{out:?}"));
            }
            for w in seen.windows(2) {
                if w[1] < w[0] {
                    return fail("snapshot-went-back", format!("{out:?}"));
                }
            }
            if seen.iter().any(|s| *s < 0 || *s > *a as i32) {
                return fail("snapshot-not-a-version", format!("{out:?}"));
            }
            split = a + b >= 3;
        }
        PCase::TopOrder { n } => {
            let mut vs: Vec<i32> = out.iter().map(|t| slot(t, 0)[0]).collect();
            vs.sort();
            if vs != vals(*n) {
                return fail("not-a-permutation", format!("{out:?}"));
            }
            split = *n >= 3;
        }
    }
    Ok(split)
}

// ---------------------------------------------------------------------------------------------
// C37: independently enumerated outcome sets
// ---------------------------------------------------------------------------------------------

/// All ordered set partitions of the multiset `items` into non-empty blocks; blocks sorted.
fn ordered_partitions(items: &[i32]) -> BTreeSet<Vec<Vec<i32>>> {
    let mut out = BTreeSet::new();
    if items.is_empty() {
        out.insert(vec![]);
        return out;
    }
    let n = items.len();
    for mask in 1..(1u32 << n) {
        let mut first: Vec<i32> = (0..n).filter(|i| mask & (1 << i) != 0).map(|i| items[i]).collect();
        first.sort();
        let rest: Vec<i32> = (0..n).filter(|i| mask & (1 << i) == 0).map(|i| items[i]).collect();
        for mut tail in ordered_partitions(&rest) {
            tail.insert(0, first.clone());
            out.insert(tail);
        }
    }
    out
}

fn perms(v: &[i32]) -> Vec<Vec<i32>> {
    if v.len() <= 1 {
        return vec![v.to_vec()];
    }
    let mut out = vec![];
    for i in 0..v.len() {
        let mut rest = v.to_vec();
        let x = rest.remove(i);
        for mut p in perms(&rest) {
            p.insert(0, x);
            out.push(p);
        }
    }
    out
}

/// Joint prefix advances of several ordered queues: every tick takes a (possibly empty) prefix
/// of each queue, at least one non-empty.
fn joint_prefix_sequences(queues: &[(u8, Vec<i32>)], keep_empty_slots: bool) -> BTreeSet<Out> {
    fn rec(queues: &[(u8, Vec<i32>)], pos: &mut Vec<usize>, cur: &mut Out, keep: bool, out: &mut BTreeSet<Out>) {
        if queues.iter().zip(pos.iter()).all(|((_, q), p)| *p == q.len()) {
            out.insert(cur.clone());
            return;
        }
        // choose an advance per queue
        let mut advances: Vec<Vec<usize>> = vec![vec![]];
        for (i, (_, q)) in queues.iter().enumerate() {
            let mut next = vec![];
            for a in &advances {
                for k in 0..=(q.len() - pos[i]) {
                    let mut a2 = a.clone();
                    a2.push(k);
                    next.push(a2);
                }
            }
            advances = next;
        }
        for adv in advances {
            if adv.iter().all(|k| *k == 0) {
                continue;
            }
            let mut tick: TickOut = vec![];
            for (i, (slot, q)) in queues.iter().enumerate() {
                let b = q[pos[i]..pos[i] + adv[i]].to_vec();
                if keep || !b.is_empty() {
                    tick.push((*slot, b));
                }
            }
            for (i, k) in adv.iter().enumerate() {
                pos[i] += k;
            }
            cur.push(tick);
            rec(queues, pos, cur, keep, out);
            cur.pop();
            for (i, k) in adv.iter().enumerate() {
                pos[i] -= k;
            }
        }
    }
    let mut out = BTreeSet::new();
    rec(queues, &mut vec![0; queues.len()], &mut vec![], keep_empty_slots, &mut out);
    out
}

/// Joint sub-multiset releases of several unordered queues (keyed, unordered).
fn joint_subset_sequences(queues: &BTreeMap<u8, Vec<i32>>) -> BTreeSet<Out> {
    fn rec(rem: &BTreeMap<u8, Vec<i32>>, cur: &mut Out, out: &mut BTreeSet<Out>) {
        if rem.values().all(|v| v.is_empty()) {
            out.insert(cur.clone());
            return;
        }
        let keys: Vec<u8> = rem.keys().copied().collect();
        let mut choices: Vec<Vec<u32>> = vec![vec![]];
        for k in &keys {
            let n = rem[k].len();
            let mut next = vec![];
            for c in &choices {
                for mask in 0..(1u32 << n) {
                    let mut c2 = c.clone();
                    c2.push(mask);
                    next.push(c2);
                }
            }
            choices = next;
        }
        for c in choices {
            if c.iter().all(|m| *m == 0) {
                continue;
            }
            let mut tick: TickOut = vec![];
            let mut rem2 = rem.clone();
            for (k, mask) in keys.iter().zip(&c) {
                let q = &rem[k];
                let mut b: Vec<i32> = (0..q.len()).filter(|i| mask & (1 << i) != 0).map(|i| q[i]).collect();
                b.sort();
                if !b.is_empty() {
                    tick.push((*k, b));
                }
                rem2.insert(*k, (0..q.len()).filter(|i| mask & (1 << i) == 0).map(|i| q[i]).collect());
            }
            cur.push(tick);
            rec(&rem2, cur, out);
            cur.pop();
        }
    }
    let mut out = BTreeSet::new();
    rec(queues, &mut vec![], &mut out);
    out
}

pub fn expected(case: &PCase) -> BTreeSet<Out> {
    let mut set = BTreeSet::new();
    match case {
        PCase::BatchOrdered { n } => {
            let items = vals(*n);
            for comp in vcommon::compositions(*n) {
                let mut o = vec![];
                let mut i = 0;
                for part in comp {
                    o.push(vec![(0u8, items[i..i + part].to_vec())]);
                    i += part;
                }
                set.insert(o);
            }
        }
        PCase::BatchUnordered { items } => {
            for p in ordered_partitions(items) {
                set.insert(p.into_iter().map(|b| vec![(0u8, b)]).collect());
            }
        }
        PCase::KeyedOrdered { items } => {
            let mut q: BTreeMap<u8, Vec<i32>> = BTreeMap::new();
            for (k, v) in items {
                q.entry(*k).or_default().push(*v);
            }
            let queues: Vec<(u8, Vec<i32>)> = q.into_iter().collect();
            set = joint_prefix_sequences(&queues, false);
        }
        PCase::KeyedUnordered { items } => {
            let mut q: BTreeMap<u8, Vec<i32>> = BTreeMap::new();
            for (k, v) in items {
                q.entry(*k).or_default().push(*v);
            }
            set = joint_subset_sequences(&q);
        }
        PCase::SnapshotCount { n } => {
            // every strictly increasing selection of the versions 0..=n that ends with n
            for mask in 0..(1u32 << n) {
                let mut o: Out = (0..*n)
                    .filter(|i| mask & (1 << i) != 0)
                    .map(|i| vec![(0u8, vec![i as i32])])
                    .collect();
                o.push(vec![(0, vec![*n as i32])]);
                set.insert(o);
            }
        }
        PCase::TwoBatches { a, b } => {
            let wb: Vec<i32> = vals(*b).into_iter().map(|x| x + 100).collect();
            set = joint_prefix_sequences(&[(0, vals(*a)), (1, wb)], true);
        }
        PCase::SlicedBatchCount { .. } | PCase::TickOrder { .. } => {
            unreachable!("no closed-form outcome set is claimed for this program")
        }
        PCase::FoldSnapshot { n } => {
            // the fold hook releases an ordered set partition S1..Sm of the inputs; the snapshot
            // tick may observe any of the partial sums (0 included), and must end with the total
            let items: Vec<i32> = (0..*n).map(|i| 1 << i).collect();
            for p in ordered_partitions(&items) {
                let mut sums = vec![0];
                for b in &p {
                    sums.push(sums.last().unwrap() + b.iter().sum::<i32>());
                }
                let m = sums.len() - 1;
                for mask in 0..(1u32 << m) {
                    let mut o: Out = (0..m)
                        .filter(|i| mask & (1 << i) != 0)
                        .map(|i| vec![(0u8, vec![sums[i]])])
                        .collect();
                    o.push(vec![(0, vec![sums[m]])]);
                    set.insert(o);
                }
            }
        }
        PCase::TopOrder { n } => {
            for p in perms(&vals(*n)) {
                set.insert(p.into_iter().map(|v| vec![(0u8, vec![v])]).collect());
            }
        }
        PCase::IntickOrder { n } => {
            for part in ordered_partitions(&vals(*n)) {
                // every block in every order
                let mut partial: Vec<Out> = vec![vec![]];
                for b in part {
                    let mut next = vec![];
                    for o in &partial {
                        for pb in perms(&b) {
                            let mut o2 = o.clone();
                            o2.push(vec![(0u8, pb)]);
                            next.push(o2);
                        }
                    }
                    partial = next;
                }
                set.extend(partial);
            }
        }
    }
    set
}

/// `TickOrder`: the values tick 2 may see are the non-decreasing sequences over 0..=a; all of
/// them must be reached (both orders of the two ready ticks, and every snapshot version).
fn tick_order_expected(a: usize, b: usize) -> BTreeSet<Vec<i32>> {
    fn rec(a: i32, b: usize, cur: &mut Vec<i32>, out: &mut BTreeSet<Vec<i32>>) {
        if cur.len() == b {
            out.insert(cur.clone());
            return;
        }
        let lo = cur.last().copied().unwrap_or(0);
        for v in lo..=a {
            cur.push(v);
            rec(a, b, cur, out);
            cur.pop();
        }
    }
    let mut out = BTreeSet::new();
    rec(a as i32, b, &mut vec![], &mut out);
    out
}

// ---------------------------------------------------------------------------------------------
// case lists and the two sub-checks
// ---------------------------------------------------------------------------------------------

pub fn cases(tier: Tier, for_c37: bool) -> Vec<PCase> {
    let n_max = tier.pick(4, 5);
    let mut v = vec![];
    for n in 1..=n_max {
        v.push(PCase::BatchOrdered { n });
        v.push(PCase::SnapshotCount { n });
    }
    for n in 1..=n_max.min(4) {
        v.push(PCase::BatchUnordered { items: vals(n) });
        v.push(PCase::TopOrder { n });
    }
    v.push(PCase::BatchUnordered { items: vec![1, 1, 2] });
    for n in 1..=3 {
        v.push(PCase::IntickOrder { n });
        v.push(PCase::FoldSnapshot { n });
    }
    for items in [
        vec![(0u8, 1), (1, 2)],
        vec![(0, 1), (0, 2), (1, 3)],
        vec![(0, 1), (1, 2), (0, 3), (1, 4)],
        vec![(0, 1), (0, 2), (0, 3), (1, 4)],
    ] {
        v.push(PCase::KeyedOrdered { items: items.clone() });
        if items.len() <= 3 || tier == Tier::Thorough {
            v.push(PCase::KeyedUnordered { items });
        }
    }
    for (a, b) in [(1, 1), (2, 1), (2, 2), (3, 1)] {
        v.push(PCase::TwoBatches { a, b });
    }
    for (a, b) in [(1, 1), (2, 1), (1, 2), (2, 2)] {
        v.push(PCase::TickOrder { a, b });
    }
    if !for_c37 {
        for n in 1..=3 {
            v.push(PCase::SlicedBatchCount { n });
        }
    }
    v
}

pub fn c36_programs(ctx: &mut Ctx, progs: &Progs) {
    let execs = Cell::new(0u64);
    progs.precompile(&cases(ctx.tier(), false));
    ctx.check_all("prog-exhaustive", cases(ctx.tier(), false), |case: &PCase, obs: &mut Obs| {
        obs.class(format!("prog:{}", case.prog()));
        let ex = match progs.explore(case)? {
            Ok(ex) => ex,
            Err(p) if p.harness => return Err(harness_fail("thunk", &p)),
            Err(p) => {
                return Err(Fail::new(
                    format!("{}:simulator-panics:{}", case.prog(), crate::util::squash(&p.msg)),
                    format!("simulator panicked at {}: {}", p.loc, p.msg),
                ));
            }
        };
        execs.set(execs.get() + ex.outs.len() as u64);
        if ex.outs.is_empty() {
            return Err(Fail::new("harness:no-execution", "exhaustive() ran no instance"));
        }
        let mut split = false;
        for o in &ex.outs {
            split |= check_exec(case, o)?;
        }
        obs.nontrivial(split);
        Ok(())
    });
    ctx.extra.insert("program_executions_checked".into(), execs.get().into());
}

pub fn c37_programs(ctx: &mut Ctx, progs: &Progs) {
    let execs = Cell::new(0u64);
    progs.precompile(&cases(ctx.tier(), true));
    ctx.check_all("prog-outcomes", cases(ctx.tier(), true), |case: &PCase, obs: &mut Obs| {
        obs.class(format!("prog:{}", case.prog()));
        let ex = match progs.explore(case)? {
            Ok(ex) => ex,
            Err(p) if p.harness => return Err(harness_fail("thunk", &p)),
            Err(p) => {
                return Err(Fail::new(
                    format!("{}:simulator-panics:{}", case.prog(), crate::util::squash(&p.msg)),
                    format!("simulator panicked at {}: {}", p.loc, p.msg),
                ));
            }
        };
        execs.set(execs.get() + ex.outs.len() as u64);
        let p = case.prog();
        if ex.count != ex.outs.len() {
            // exhaustive() counts instances; every instance of these thunks records once
            return Err(Fail::new(
                format!("{p}:exhaustive-count-mismatch"),
                format!("exhaustive() returned {} but {} instances completed", ex.count, ex.outs.len()),
            ));
        }
        if let PCase::TickOrder { a, b } = case {
            let want = tick_order_expected(*a, *b);
            let got: BTreeSet<Vec<i32>> = ex
                .outs
                .iter()
                .map(|o| o.iter().map(|t| slot(t, 0)[1]).collect())
                .collect();
            obs.nontrivial(want.len() >= 3);
            if let Some(m) = want.difference(&got).next() {
                return Err(Fail::new(
                    format!("{p}:outcome-not-reached"),
                    format!("no execution in which tick 2 sees counts {m:?}; reached {got:?}"),
                ));
            }
            if let Some(m) = got.difference(&want).next() {
                return Err(Fail::new(format!("{p}:outcome-not-admissible"), format!("{m:?}")));
            }
            return Ok(());
        }
        let want = expected(case);
        let got: BTreeSet<Out> = ex.outs.iter().cloned().collect();
        obs.nontrivial(want.len() >= 5);
        if let Some(m) = want.difference(&got).next() {
            return Err(Fail::new(
                format!("{p}:outcome-not-reached"),
                format!(
                    "exhaustive() never produced the admissible outcome {m:?}; reached {} of {} outcomes in {} executions",
                    got.len(),
                    want.len(),
                    ex.count
                ),
            ));
        }
        if let Some(m) = got.difference(&want).next() {
            return Err(Fail::new(
                format!("{p}:outcome-not-admissible"),
                format!("reached {m:?}, which the enumeration does not admit"),
            ));
        }
        Ok(())
    });
    ctx.extra.insert("program_executions_checked".into(), execs.get().into());
}

/// The defect candidate found while building this engine: a `PassthroughSingletonHook`
/// (snapshot of a hooked top-level fold) sharing a tick with another hook.
pub fn c36_passthrough_pair(ctx: &mut Ctx) {
    #[derive(Clone, Debug, Serialize, Deserialize)]
    struct Case {
        fold_inputs: Vec<i32>,
        batch_inputs: Vec<i32>,
    }
    let cases = vec![
        Case { fold_inputs: vec![1], batch_inputs: vec![10] },
        Case { fold_inputs: vec![1, 2], batch_inputs: vec![10, 20] },
        Case { fold_inputs: vec![], batch_inputs: vec![10, 20] },
    ];
    let cell: OnceCell<Result<(CompiledSim, (NoSend<i32>, OrdSend<i32>, OrdRecv<(Vec<i32>, i32)>)), SimPanic>> =
        OnceCell::new();
    ctx.check_all("prog-fold-snapshot-with-batch", cases, |case: &Case, obs: &mut Obs| {
        obs.class("prog:fold_snapshot_with_batch");
        let r = cell.get_or_init(|| {
            let mut flow = FlowBuilder::new();
            let node = flow.process::<()>();
            let ports = fold_snapshot_with_batch(&node);
            compile(flow.sim()).map(|c| (c, ports))
        });
        let (c, (send, send_b, out)) = match r {
            Ok(v) => v,
            Err(p) => return Err(harness_fail("compile", p)),
        };
        let mut outs: Vec<Vec<(Vec<i32>, i32)>> = vec![];
        let r = sim_guard(|| {
            c.exhaustive(async || {
                send.send_many_unordered(case.fold_inputs.clone());
                send_b.send_many(case.batch_inputs.clone());
                let all: Vec<(Vec<i32>, i32)> = out.collect().await;
                outs.push(all);
            })
        });
        obs.nontrivial(case.batch_inputs.len() >= 2);
        match r {
            Err(p) if p.harness => Err(harness_fail("thunk", &p)),
            Err(p) if p.loc.contains("sim/compiled.rs") || p.msg.contains("No decision to release") => {
                Err(Fail::new(
                    "PassthroughSingletonHook:no-trivial-decision-in-shared-tick:run_hooks-panics",
                    format!("simulator panicked at {}: {}", p.loc, p.msg),
                ))
            }
            Err(p) => Err(Fail::new(
                format!("fold_snapshot_with_batch:simulator-panics:{}", crate::util::squash(&p.msg)),
                format!("simulator panicked at {}: {}", p.loc, p.msg),
            )),
            Ok(_) => {
                let total: i32 = case.fold_inputs.iter().sum();
                for o in &outs {
                    let batches: Vec<i32> = o.iter().flat_map(|(b, _)| b.iter().copied()).collect();
                    if batches != case.batch_inputs {
                        return Err(Fail::new(
                            "fold_snapshot_with_batch:batches-not-inorder-partition",
                            format!("{o:?}"),
                        ));
                    }
                    // the last slice need not see the final fold value (the batch may be used up
                    // first); versions are subset sums of distinct powers of two
                    for w in o.windows(2) {
                        if w[0].1 & w[1].1 != w[0].1 {
                            return Err(Fail::new(
                                "fold_snapshot_with_batch:snapshot-went-back",
                                format!("{o:?}"),
                            ));
                        }
                    }
                    if o.iter().any(|x| x.1 & !total != 0) {
                        return Err(Fail::new(
                            "fold_snapshot_with_batch:snapshot-not-a-version",
                            format!("{o:?}"),
                        ));
                    }
                }
                Ok(())
            }
        }
    });
}
