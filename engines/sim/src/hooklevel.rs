//! Hook level of C36/C37: the hook structs of `hydro_lang::sim::runtime` are constructed
//! directly and driven (a) through the scheduler's own `run_hooks` (verif accessor H4) the way a
//! tick / an observation resolves them, and (b) through the bare `SimHook` API with both values of
//! `force_nontrivial`; decisions come from a `TapeDriver`, so every decision tape of a small
//! scenario is enumerated depth-first, or from bolero's own exhaustive driver (C37 cross-check).
//!
//! The reference model below is written from the hook doc comments and the C36 statement only;
//! it shares no code with runtime.rs.

use std::cell::RefCell;
use std::collections::{BTreeMap, BTreeSet, VecDeque};
use std::marker::PhantomData;
use std::rc::Rc;

use bolero::generator::bolero_generator::any::scope;
use bolero::generator::bolero_generator::driver::exhaustive;
use bolero::generator::bolero_generator::driver::object::{Borrowed, Object};
use hydro_lang::live_collections::stream::{NoOrder, TotalOrder};
use hydro_lang::runtime_support::dfir_rs::util::unsync::mpsc::{Receiver, unbounded};
use hydro_lang::sim::compiled::{verif_hooks_can_run, verif_run_hooks};
use hydro_lang::sim::runtime::*;
use serde::{Deserialize, Serialize};
use vcommon::Fail;

use crate::tape::{Choice, TapeDriver, next_tape};

const LOC: (&str, &str, &str) = ("verif", "", "");

fn dbg<T: std::fmt::Debug>(v: &T) -> Option<String> {
    Some(format!("{v:?}"))
}

#[derive(Clone, Copy, Debug, PartialEq, Eq, PartialOrd, Ord, Hash, Serialize, Deserialize)]
pub enum Kind {
    StreamTotal,
    StreamNo,
    KeyedTotal,
    KeyedNo,
    Singleton,
    Passthrough,
    KeyedSingleton,
    TopStreamOrder,
    TopFold,
    TopKeyedOrder,
    TopPartial,
    TopMerge,
    TopKeyedMerge,
}

pub const TICK_KINDS: [Kind; 7] = [
    Kind::StreamTotal,
    Kind::StreamNo,
    Kind::KeyedTotal,
    Kind::KeyedNo,
    Kind::Singleton,
    Kind::KeyedSingleton,
    Kind::Passthrough,
];
pub const TOP_KINDS: [Kind; 6] = [
    Kind::TopStreamOrder,
    Kind::TopFold,
    Kind::TopKeyedOrder,
    Kind::TopPartial,
    Kind::TopMerge,
    Kind::TopKeyedMerge,
];

impl Kind {
    pub fn keyed(self) -> bool {
        matches!(
            self,
            Kind::KeyedTotal
                | Kind::KeyedNo
                | Kind::KeyedSingleton
                | Kind::TopKeyedOrder
                | Kind::TopPartial
                | Kind::TopKeyedMerge
        )
    }
    pub fn two_sources(self) -> bool {
        matches!(self, Kind::TopMerge | Kind::TopKeyedMerge)
    }
    pub fn snapshot(self) -> bool {
        matches!(self, Kind::Singleton | Kind::Passthrough | Kind::KeyedSingleton)
    }
    pub fn top_level(self) -> bool {
        TOP_KINDS.contains(&self)
    }
    pub fn name(self) -> &'static str {
        match self {
            Kind::StreamTotal => "StreamHook<TotalOrder>",
            Kind::StreamNo => "StreamHook<NoOrder>",
            Kind::KeyedTotal => "KeyedStreamHook<TotalOrder>",
            Kind::KeyedNo => "KeyedStreamHook<NoOrder>",
            Kind::Singleton => "SingletonHook",
            Kind::Passthrough => "PassthroughSingletonHook",
            Kind::KeyedSingleton => "KeyedSingletonHook",
            Kind::TopStreamOrder => "TopLevelStreamOrderHook",
            Kind::TopFold => "TopLevelFoldHook",
            Kind::TopKeyedOrder => "TopLevelKeyedStreamOrderHook",
            Kind::TopPartial => "TopLevelPartiallyOrderedStreamHook",
            Kind::TopMerge => "TopLevelMergeOrderedHook",
            Kind::TopKeyedMerge => "TopLevelKeyedMergeOrderedHook",
        }
    }
}

/// One pushed element: `id` is unique within a scenario and increases in push order (for
/// snapshot hooks it is the version number).
#[derive(Clone, Copy, Debug, PartialEq, Eq, PartialOrd, Ord, Hash, Serialize, Deserialize)]
pub struct Item {
    pub hook: u8,
    pub key: u8,
    pub src: u8,
    pub id: u8,
}

#[derive(Clone, Debug, PartialEq, Eq, Hash, Serialize, Deserialize)]
pub struct Phase {
    pub push: Vec<Item>,
    /// Tick protocol: number of scheduling attempts after the push.
    /// Direct protocol: one decision per entry, `true` = request `force_nontrivial`.
    pub decisions: Vec<bool>,
}

#[derive(Clone, Debug, PartialEq, Eq, Hash, Serialize, Deserialize)]
pub struct Scenario {
    pub hooks: Vec<Kind>,
    pub phases: Vec<Phase>,
    /// false: resolve through `run_hooks` like the scheduler; true: bare SimHook API (solo hook)
    pub direct: bool,
}

impl Scenario {
    pub fn items(&self) -> usize {
        self.phases.iter().map(|p| p.push.len()).sum()
    }
}

// ---------------------------------------------------------------------------------------------
// Real side
// ---------------------------------------------------------------------------------------------

/// (key, id) pairs in output order; for the fold hook the single batch message flattened.
type Released = Vec<(u8, u8)>;

struct Rig {
    hooks: Vec<Box<dyn SimHook>>,
    push: Vec<Box<dyn FnMut(&Item)>>,
    drain: Vec<Box<dyn FnMut() -> (Released, usize)>>,
}

fn drain_rx<T>(rx: &mut Receiver<T>) -> Vec<T> {
    let waker = futures::task::noop_waker_ref();
    let cx = std::task::Context::from_waker(waker);
    let mut out = vec![];
    while let std::task::Poll::Ready(Some(v)) = rx.poll_recv(&cx) {
        out.push(v);
    }
    out
}

fn build_rig(kinds: &[Kind]) -> Rig {
    let mut rig = Rig {
        hooks: vec![],
        push: vec![],
        drain: vec![],
    };
    for &k in kinds {
        match k {
            Kind::StreamTotal | Kind::StreamNo | Kind::TopStreamOrder => {
                let input = Rc::new(RefCell::new(VecDeque::<u8>::new()));
                let (tx, mut rx) = unbounded::<u8>();
                let hook: Box<dyn SimHook> = match k {
                    Kind::StreamTotal => Box::new(StreamHook::<u8, TotalOrder> {
                        input: input.clone(),
                        to_release: None,
                        output: tx,
                        batch_location: LOC,
                        format_item_debug: dbg::<u8>,
                        _order: PhantomData,
                    }),
                    Kind::StreamNo => Box::new(StreamHook::<u8, NoOrder> {
                        input: input.clone(),
                        to_release: None,
                        output: tx,
                        batch_location: LOC,
                        format_item_debug: dbg::<u8>,
                        _order: PhantomData,
                    }),
                    _ => Box::new(TopLevelStreamOrderHook::<u8> {
                        input: input.clone(),
                        to_release: None,
                        output: tx,
                        location: LOC,
                        format_item_debug: dbg::<u8>,
                    }),
                };
                rig.hooks.push(hook);
                rig.push
                    .push(Box::new(move |it| input.borrow_mut().push_back(it.id)));
                rig.drain.push(Box::new(move || {
                    let v = drain_rx(&mut rx);
                    let n = v.len();
                    (v.into_iter().map(|id| (0, id)).collect(), n)
                }));
            }
            Kind::TopFold => {
                let input = Rc::new(RefCell::new(VecDeque::<u8>::new()));
                let (tx, mut rx) = unbounded::<Vec<u8>>();
                rig.hooks.push(Box::new(TopLevelFoldHook::<u8> {
                    input: input.clone(),
                    to_release: None,
                    output: tx,
                    location: LOC,
                    format_item_debug: dbg::<u8>,
                }));
                rig.push
                    .push(Box::new(move |it| input.borrow_mut().push_back(it.id)));
                rig.drain.push(Box::new(move || {
                    let v = drain_rx(&mut rx);
                    let n = v.len();
                    (v.into_iter().flatten().map(|id| (0, id)).collect(), n)
                }));
            }
            Kind::KeyedTotal | Kind::KeyedNo | Kind::TopKeyedOrder | Kind::TopPartial => {
                let input: Rc<RefCell<_>> = Default::default();
                let (tx, mut rx) = unbounded::<(u8, u8)>();
                let hook: Box<dyn SimHook> = match k {
                    Kind::KeyedTotal => Box::new(KeyedStreamHook::<u8, u8, TotalOrder> {
                        input: input.clone(),
                        to_release: None,
                        output: tx,
                        batch_location: LOC,
                        format_item_debug: dbg::<(u8, u8)>,
                        _order: PhantomData,
                    }),
                    Kind::KeyedNo => Box::new(KeyedStreamHook::<u8, u8, NoOrder> {
                        input: input.clone(),
                        to_release: None,
                        output: tx,
                        batch_location: LOC,
                        format_item_debug: dbg::<(u8, u8)>,
                        _order: PhantomData,
                    }),
                    Kind::TopKeyedOrder => Box::new(TopLevelKeyedStreamOrderHook::<u8, u8> {
                        input: input.clone(),
                        to_release: None,
                        output: tx,
                        location: LOC,
                        format_item_debug: dbg::<(u8, u8)>,
                    }),
                    _ => Box::new(TopLevelPartiallyOrderedStreamHook::<u8, u8> {
                        input: input.clone(),
                        to_release: None,
                        output: tx,
                        location: LOC,
                        format_item_debug: dbg::<(u8, u8)>,
                    }),
                };
                rig.hooks.push(hook);
                // same statement as SimBuilder emits: entry(k).or_default().push_back(v)
                rig.push.push(Box::new(move |it| {
                    input.borrow_mut().entry(it.key).or_default().push_back(it.id)
                }));
                rig.drain.push(Box::new(move || {
                    let v = drain_rx(&mut rx);
                    let n = v.len();
                    (v, n)
                }));
            }
            Kind::Singleton | Kind::Passthrough => {
                let input = Rc::new(RefCell::new(VecDeque::<u8>::new()));
                let (tx, mut rx) = unbounded::<u8>();
                let hook: Box<dyn SimHook> = if k == Kind::Singleton {
                    Box::new(SingletonHook::new(input.clone(), tx, LOC, dbg::<u8>))
                } else {
                    Box::new(PassthroughSingletonHook::new(
                        input.clone(),
                        tx,
                        LOC,
                        dbg::<u8>,
                    ))
                };
                rig.hooks.push(hook);
                rig.push
                    .push(Box::new(move |it| input.borrow_mut().push_back(it.id)));
                rig.drain.push(Box::new(move || {
                    let v = drain_rx(&mut rx);
                    let n = v.len();
                    (v.into_iter().map(|id| (0, id)).collect(), n)
                }));
            }
            Kind::KeyedSingleton => {
                let input: Rc<RefCell<_>> = Default::default();
                let (tx, mut rx) = unbounded::<(u8, u8)>();
                rig.hooks.push(Box::new(KeyedSingletonHook::new(
                    input.clone(),
                    tx,
                    LOC,
                    dbg::<u8>,
                    dbg::<u8>,
                )));
                rig.push.push(Box::new(move |it| {
                    input.borrow_mut().entry(it.key).or_default().push_back(it.id)
                }));
                rig.drain.push(Box::new(move || {
                    let v = drain_rx(&mut rx);
                    let n = v.len();
                    (v, n)
                }));
            }
            Kind::TopMerge => {
                let first = Rc::new(RefCell::new(VecDeque::<u8>::new()));
                let second = Rc::new(RefCell::new(VecDeque::<u8>::new()));
                let (tx, mut rx) = unbounded::<u8>();
                rig.hooks.push(Box::new(TopLevelMergeOrderedHook::<u8> {
                    first: first.clone(),
                    second: second.clone(),
                    to_release: None,
                    release_source: None,
                    output: tx,
                    location: LOC,
                    format_item_debug: dbg::<u8>,
                }));
                rig.push.push(Box::new(move |it| {
                    if it.src == 0 {
                        first.borrow_mut().push_back(it.id)
                    } else {
                        second.borrow_mut().push_back(it.id)
                    }
                }));
                rig.drain.push(Box::new(move || {
                    let v = drain_rx(&mut rx);
                    let n = v.len();
                    (v.into_iter().map(|id| (0, id)).collect(), n)
                }));
            }
            Kind::TopKeyedMerge => {
                let first: Rc<RefCell<_>> = Default::default();
                let second: Rc<RefCell<_>> = Default::default();
                let (tx, mut rx) = unbounded::<(u8, u8)>();
                rig.hooks.push(Box::new(TopLevelKeyedMergeOrderedHook::<u8, u8> {
                    first: first.clone(),
                    second: second.clone(),
                    to_release: None,
                    release_source: None,
                    output: tx,
                    location: LOC,
                    format_item_debug: dbg::<(u8, u8)>,
                }));
                rig.push.push(Box::new(move |it| {
                    let m = if it.src == 0 { &first } else { &second };
                    m.borrow_mut().entry(it.key).or_default().push_back(it.id)
                }));
                rig.drain.push(Box::new(move || {
                    let v = drain_rx(&mut rx);
                    let n = v.len();
                    (v, n)
                }));
            }
        }
    }
    rig
}

/// What one hook did in one resolution.
#[derive(Clone, Debug, PartialEq, Eq, Serialize, Deserialize)]
pub struct HookObs {
    pub released: Released,
    pub messages: usize,
    /// direct protocol only
    pub could: bool,
    pub forced: bool,
    pub ret: Option<bool>,
    pub cur: Option<Option<bool>>,
    pub cur_after_release: Option<Option<bool>>,
}

#[derive(Clone, Debug, PartialEq, Eq, Serialize, Deserialize)]
pub enum Event {
    Push(Vec<Item>),
    /// the tick was not runnable (scheduler predicate false); `model_can` is checked against it
    NotRunnable,
    Resolve(Vec<HookObs>),
    /// direct protocol: decision skipped because the hook is not ready (`is_ready()` false)
    NotReady,
}

pub struct RealRun {
    pub events: Vec<Event>,
    pub rec: Vec<Choice>,
    pub driver_errors: Vec<String>,
    pub spin: bool,
}

fn run_protocol(scen: &Scenario) -> (Vec<Event>, bool) {
    // must be called inside `scope::with(driver, ..)`: `run_hooks` and the direct protocol both
    // draw their decisions from the scope driver
    let mut rig = build_rig(&scen.hooks);
    let mut events = vec![];
    let total = scen.items();
    let mut spin = false;

    fn resolve_tick(rig: &mut Rig, events: &mut Vec<Event>) -> bool {
        if !verif_hooks_can_run(&rig.hooks) {
            events.push(Event::NotRunnable);
            return false;
        }
        verif_run_hooks(&mut rig.hooks);
        let mut obs = vec![];
        for d in rig.drain.iter_mut() {
            let (released, messages) = d();
            obs.push(HookObs {
                released,
                messages,
                could: false,
                forced: false,
                ret: None,
                cur: None,
                cur_after_release: None,
            });
        }
        events.push(Event::Resolve(obs));
        true
    }

    fn decide_direct(rig: &mut Rig, events: &mut Vec<Event>, want_force: bool) {
        let hook = &mut rig.hooks[0];
        if !hook.is_ready() {
            events.push(Event::NotReady);
            return;
        }
        let could = hook.can_make_nontrivial_decision();
        let forced = want_force && could;
        let ret = scope::borrow_with(|drv| hook.autonomous_decision(drv, forced));
        let cur = hook.current_decision();
        hook.release_decision(None);
        let cur_after = hook.current_decision();
        let (released, messages) = (rig.drain[0])();
        events.push(Event::Resolve(vec![HookObs {
            released,
            messages,
            could,
            forced,
            ret: Some(ret),
            cur: Some(cur),
            cur_after_release: Some(cur_after),
        }]));
    }

    for ph in &scen.phases {
        for it in &ph.push {
            (rig.push[it.hook as usize])(it);
        }
        events.push(Event::Push(ph.push.clone()));
        for &d in &ph.decisions {
            if scen.direct {
                decide_direct(&mut rig, &mut events, d);
            } else {
                resolve_tick(&mut rig, &mut events);
            }
        }
    }
    // drain: keep scheduling while the scheduler says the tick can run
    let mut budget = 2 * total + 4;
    loop {
        if scen.direct {
            if !(rig.hooks[0].is_ready() && rig.hooks[0].can_make_nontrivial_decision()) {
                break;
            }
            decide_direct(&mut rig, &mut events, true);
        } else if !resolve_tick(&mut rig, &mut events) {
            break;
        }
        budget -= 1;
        if budget == 0 {
            spin = true;
            break;
        }
    }
    (events, spin)
}

/// Run the scenario against the real hooks with the given tape.
pub fn run_real(scen: &Scenario, tape: Vec<u64>, wrap: bool) -> RealRun {
    let drv = Box::new(TapeDriver::new(tape, wrap));
    let (drv, (events, spin)) = scope::with(drv, || run_protocol(scen));
    RealRun {
        events,
        rec: drv.rec.clone(),
        driver_errors: drv.errors.clone(),
        spin,
    }
}

/// All runs of the scenario: depth-first over every tape (harness enumeration).
pub fn enumerate_real(scen: &Scenario, cap: usize) -> Result<Vec<RealRun>, String> {
    let mut runs = vec![];
    let mut tape = vec![];
    loop {
        let r = run_real(scen, tape, false);
        let nxt = next_tape(&r.rec);
        runs.push(r);
        if runs.len() > cap {
            return Err(format!("more than {cap} tapes"));
        }
        match nxt {
            Some(t) => tape = t,
            None => break,
        }
    }
    Ok(runs)
}

/// All runs of the scenario under bolero's own exhaustive driver (the one `CompiledSim::exhaustive`
/// uses), stepping it the way `TestEngine::run_exhaustive` does.
pub fn enumerate_bolero(scen: &Scenario, cap: usize) -> Result<Vec<Vec<Event>>, String> {
    let mut drv = Box::new(Object(exhaustive::Driver::new(&Default::default())));
    let mut out = vec![];
    while drv.step().is_continue() {
        let (d, (events, _spin)) = scope::with(drv, || run_protocol(scen));
        drv = d;
        out.push(events);
        if out.len() > cap {
            return Err(format!("more than {cap} bolero inputs"));
        }
    }
    Ok(out)
}

// ---------------------------------------------------------------------------------------------
// Reference model
// ---------------------------------------------------------------------------------------------

/// Pending state of one hook as the harness knows it from what it pushed and saw released.
#[derive(Clone, Debug, Default, PartialEq, Eq, PartialOrd, Ord)]
pub struct Pending {
    /// (src, key) -> queue of ids in push order
    pub q: BTreeMap<(u8, u8), Vec<u8>>,
    /// snapshot hooks: last released version per key
    pub last: BTreeMap<u8, u8>,
}

impl Pending {
    fn push(&mut self, it: &Item, kind: Kind) {
        let src = if kind.two_sources() { it.src } else { 0 };
        let key = if kind.keyed() { it.key } else { 0 };
        self.q.entry((src, key)).or_default().push(it.id);
    }
    pub fn has_pending(&self) -> bool {
        self.q.values().any(|q| !q.is_empty())
    }
    fn ready(&self, kind: Kind) -> bool {
        match kind {
            Kind::Singleton => self.has_pending() || !self.last.is_empty(),
            _ => true,
        }
    }
}

/// Normalised release of one hook, the unit of C37 outcomes.
/// Ordered kinds keep the sequence; unordered kinds are multisets (sorted); keyed kinds are
/// grouped per key (order across keys is unspecified).
pub type Norm = Vec<(u8, Vec<u8>)>;

fn normalise(kind: Kind, rel: &Released) -> Norm {
    let mut m: BTreeMap<u8, Vec<u8>> = BTreeMap::new();
    for &(k, id) in rel {
        m.entry(k).or_default().push(id);
    }
    if matches!(kind, Kind::StreamNo | Kind::KeyedNo) {
        for v in m.values_mut() {
            v.sort();
        }
    }
    m.into_iter().collect()
}

fn sig(kind: Kind, what: &str) -> String {
    format!("{}:{}", kind.name(), what)
}

/// Check one release of one hook against the pending state, update the state, and say whether
/// the release contained something new. `Err` = C36 soundness violation.
pub fn apply_release(kind: Kind, p: &mut Pending, rel: &Released, messages: usize) -> Result<bool, Fail> {
    let fail = |what: &str, msg: String| Err(Fail::new(sig(kind, what), msg));
    match kind {
        Kind::StreamTotal | Kind::KeyedTotal => {
            // per key: exactly the in-order prefix of what is pending for that key
            for (k, ids) in normalise(kind, rel) {
                let q = p.q.entry((0, k)).or_default();
                if ids.len() > q.len() || q[..ids.len()] != ids[..] {
                    return fail(
                        "release-not-inorder-prefix",
                        format!("key {k}: released {ids:?} but pending (in order) is {q:?}"),
                    );
                }
                q.drain(..ids.len());
            }
            Ok(!rel.is_empty())
        }
        Kind::StreamNo | Kind::KeyedNo | Kind::TopFold => {
            for &(k, id) in rel {
                let q = p.q.entry((0, k)).or_default();
                match q.iter().position(|x| *x == id) {
                    Some(i) => {
                        q.remove(i);
                    }
                    None => {
                        return fail(
                            "release-not-sub-multiset",
                            format!("key {k}: released id {id} which is not pending ({q:?}); whole release {rel:?}"),
                        );
                    }
                }
            }
            if kind == Kind::TopFold && messages != 1 {
                return fail(
                    "fold-batch-count",
                    format!("{messages} batch messages sent for one decision"),
                );
            }
            Ok(!rel.is_empty())
        }
        Kind::TopStreamOrder | Kind::TopKeyedOrder => {
            if rel.len() > 1 {
                return fail("more-than-one-item", format!("released {rel:?}"));
            }
            for &(k, id) in rel {
                let q = p.q.entry((0, k)).or_default();
                match q.iter().position(|x| *x == id) {
                    Some(i) => {
                        q.remove(i);
                    }
                    None => {
                        return fail(
                            "release-not-pending",
                            format!("key {k}: released id {id}, pending {q:?}"),
                        );
                    }
                }
            }
            Ok(!rel.is_empty())
        }
        Kind::TopPartial | Kind::TopMerge | Kind::TopKeyedMerge => {
            if rel.len() > 1 {
                return fail("more-than-one-item", format!("released {rel:?}"));
            }
            for &(k, id) in rel {
                // must be the front of (some source's) queue for that key
                let mut found = false;
                for src in 0..2u8 {
                    if let Some(q) = p.q.get_mut(&(src, k)) {
                        if q.first() == Some(&id) {
                            q.remove(0);
                            found = true;
                            break;
                        }
                    }
                }
                if !found {
                    return fail(
                        "release-not-front",
                        format!("key {k}: released id {id}, pending {:?}", p.q),
                    );
                }
            }
            Ok(!rel.is_empty())
        }
        Kind::Singleton | Kind::Passthrough => {
            if rel.len() != 1 {
                return fail(
                    "snapshot-count",
                    format!("{} values released for one snapshot decision", rel.len()),
                );
            }
            let v = rel[0].1;
            let q = p.q.entry((0, 0)).or_default();
            if let Some(i) = q.iter().position(|x| *x == v) {
                if kind == Kind::Passthrough && i + 1 != q.len() {
                    return fail(
                        "passthrough-not-latest",
                        format!("released version {v}, pending {q:?}"),
                    );
                }
                q.drain(..=i);
                if let Some(&l) = p.last.get(&0) {
                    if v < l {
                        return fail("snapshot-went-back", format!("released {v} after {l}"));
                    }
                }
                p.last.insert(0, v);
                Ok(true)
            } else if p.last.get(&0) == Some(&v) {
                Ok(false) // unchanged snapshot re-released
            } else {
                fail(
                    "snapshot-went-back",
                    format!(
                        "released version {v}; last released {:?}, pending {q:?}",
                        p.last.get(&0)
                    ),
                )
            }
        }
        Kind::KeyedSingleton => {
            let mut new = false;
            let mut seen = BTreeSet::new();
            for &(k, v) in rel {
                if !seen.insert(k) {
                    return fail("key-twice-in-snapshot", format!("release {rel:?}"));
                }
                let q = p.q.entry((0, k)).or_default();
                if let Some(i) = q.iter().position(|x| *x == v) {
                    q.drain(..=i);
                    p.last.insert(k, v);
                    new = true;
                } else if p.last.get(&k) == Some(&v) {
                } else {
                    return fail(
                        "snapshot-went-back",
                        format!(
                            "key {k}: released version {v}; last released {:?}, pending {q:?}",
                            p.last.get(&k)
                        ),
                    );
                }
            }
            // keys never leave a snapshot once released
            for k in p.last.keys() {
                if !seen.contains(k) {
                    return fail(
                        "key-dropped-from-snapshot",
                        format!("key {k} was released before but is missing from {rel:?}"),
                    );
                }
            }
            Ok(new)
        }
    }
}

/// Every admissible release of one hook in the given state, with the successor state and the
/// "released something new" flag. `forced` = a non-trivial decision is demanded.
fn admissible(kind: Kind, p: &Pending, forced: bool) -> Vec<(Norm, Pending, bool)> {
    let mut out = vec![];
    let keys: Vec<u8> = {
        let mut s: BTreeSet<u8> = p.q.keys().map(|(_, k)| *k).collect();
        s.extend(p.last.keys().copied());
        s.into_iter().collect()
    };
    match kind {
        Kind::StreamTotal | Kind::KeyedTotal | Kind::StreamNo | Kind::KeyedNo => {
            // per key: every prefix (ordered) / every subset (unordered); product over keys
            let mut partial: Vec<(Norm, Pending)> = vec![(vec![], p.clone())];
            for &k in &keys {
                let q = p.q.get(&(0, k)).cloned().unwrap_or_default();
                let opts: Vec<Vec<u8>> = if matches!(kind, Kind::StreamTotal | Kind::KeyedTotal) {
                    (0..=q.len()).map(|n| q[..n].to_vec()).collect()
                } else {
                    (0..(1u32 << q.len()))
                        .map(|mask| {
                            (0..q.len())
                                .filter(|i| mask & (1 << i) != 0)
                                .map(|i| q[i])
                                .collect()
                        })
                        .collect()
                };
                let mut next = vec![];
                for (n, st) in &partial {
                    for o in &opts {
                        let mut n2 = n.clone();
                        let mut st2 = st.clone();
                        if !o.is_empty() {
                            let mut o2 = o.clone();
                            if matches!(kind, Kind::StreamNo | Kind::KeyedNo) {
                                o2.sort();
                            }
                            n2.push((k, o2));
                            st2.q.get_mut(&(0, k)).unwrap().retain(|x| !o.contains(x));
                        }
                        next.push((n2, st2));
                    }
                }
                partial = next;
            }
            for (n, st) in partial {
                let new = !n.is_empty();
                if forced && !new {
                    continue;
                }
                out.push((n, st, new));
            }
        }
        Kind::Singleton => {
            let q = p.q.get(&(0, 0)).cloned().unwrap_or_default();
            if !forced {
                if let Some(&l) = p.last.get(&0) {
                    out.push((vec![(0, vec![l])], p.clone(), false));
                }
            }
            for (i, &v) in q.iter().enumerate() {
                let mut st = p.clone();
                st.q.get_mut(&(0, 0)).unwrap().drain(..=i);
                st.last.insert(0, v);
                out.push((vec![(0, vec![v])], st, true));
            }
        }
        Kind::Passthrough => {
            let q = p.q.get(&(0, 0)).cloned().unwrap_or_default();
            if let Some(&v) = q.last() {
                let mut st = p.clone();
                st.q.get_mut(&(0, 0)).unwrap().clear();
                st.last.insert(0, v);
                out.push((vec![(0, vec![v])], st, true));
            }
        }
        Kind::KeyedSingleton => {
            let mut partial: Vec<(Norm, Pending, bool)> = vec![(vec![], p.clone(), false)];
            for &k in &keys {
                let q = p.q.get(&(0, k)).cloned().unwrap_or_default();
                let mut next = vec![];
                for (n, st, new) in &partial {
                    if let Some(&l) = p.last.get(&k) {
                        let mut n2 = n.clone();
                        n2.push((k, vec![l]));
                        next.push((n2, st.clone(), *new));
                    } else if !q.is_empty() {
                        // not yet part of the snapshot
                        next.push((n.clone(), st.clone(), *new));
                    }
                    for (i, &v) in q.iter().enumerate() {
                        let mut n2 = n.clone();
                        n2.push((k, vec![v]));
                        let mut st2 = st.clone();
                        st2.q.get_mut(&(0, k)).unwrap().drain(..=i);
                        st2.last.insert(k, v);
                        next.push((n2, st2, true));
                    }
                }
                partial = next;
            }
            for (n, st, new) in partial {
                if forced && !new {
                    continue;
                }
                out.push((n, st, new));
            }
        }
        Kind::TopStreamOrder | Kind::TopKeyedOrder => {
            if !forced {
                out.push((vec![], p.clone(), false));
            }
            for (&(s, k), q) in &p.q {
                for &v in q {
                    let mut st = p.clone();
                    st.q.get_mut(&(s, k)).unwrap().retain(|x| *x != v);
                    out.push((vec![(k, vec![v])], st, true));
                }
            }
        }
        Kind::TopPartial | Kind::TopMerge | Kind::TopKeyedMerge => {
            if !forced {
                out.push((vec![], p.clone(), false));
            }
            for (&(s, k), q) in &p.q {
                if let Some(&v) = q.first() {
                    let mut st = p.clone();
                    st.q.get_mut(&(s, k)).unwrap().remove(0);
                    out.push((vec![(k, vec![v])], st, true));
                }
            }
        }
        Kind::TopFold => {
            // a non-empty subset, in every order, whenever there is input (even unforced)
            let q = p.q.get(&(0, 0)).cloned().unwrap_or_default();
            if q.is_empty() {
                out.push((vec![], p.clone(), false));
            }
            for mask in 1..(1u32 << q.len()) {
                let sub: Vec<u8> = (0..q.len())
                    .filter(|i| mask & (1 << i) != 0)
                    .map(|i| q[i])
                    .collect();
                for perm in permutations(&sub) {
                    let mut st = p.clone();
                    st.q.get_mut(&(0, 0)).unwrap().retain(|x| !sub.contains(x));
                    out.push((vec![(0, perm)], st, true));
                }
            }
        }
    }
    out
}

pub fn permutations(v: &[u8]) -> Vec<Vec<u8>> {
    if v.len() <= 1 {
        return vec![v.to_vec()];
    }
    let mut out = vec![];
    for i in 0..v.len() {
        let mut rest = v.to_vec();
        let x = rest.remove(i);
        for mut p in permutations(&rest) {
            p.insert(0, x);
            out.push(p);
        }
    }
    out
}

/// Outcome of a whole scenario run: per resolution, per hook, the normalised release.
pub type Outcome = Vec<Vec<Norm>>;

fn model_can_run(kinds: &[Kind], st: &[Pending]) -> bool {
    kinds.iter().zip(st).all(|(k, p)| p.ready(*k)) && st.iter().any(|p| p.has_pending())
}

/// The set of outcomes the scenario admits according to the reference model.
pub fn model_outcomes(scen: &Scenario) -> BTreeSet<Outcome> {
    #[derive(Clone)]
    struct St {
        pend: Vec<Pending>,
        out: Outcome,
    }
    let kinds = &scen.hooks;
    let mut frontier = vec![St {
        pend: vec![Pending::default(); kinds.len()],
        out: vec![],
    }];
    let step = |s: &St, forced_direct: Option<bool>| -> Vec<St> {
        // all joint releases of one resolution
        let mut joint: Vec<(Vec<Norm>, Vec<Pending>, bool)> = vec![(vec![], vec![], false)];
        for (i, k) in kinds.iter().enumerate() {
            let f = match forced_direct {
                Some(f) => f && s.pend[i].has_pending(),
                None => false,
            };
            let opts = admissible(*k, &s.pend[i], f);
            let mut next = vec![];
            for (ns, ps, new) in &joint {
                for (n, p, nw) in &opts {
                    let mut ns2 = ns.clone();
                    ns2.push(n.clone());
                    let mut ps2 = ps.clone();
                    ps2.push(p.clone());
                    next.push((ns2, ps2, *new || *nw));
                }
            }
            joint = next;
        }
        joint
            .into_iter()
            .filter(|(_, _, new)| forced_direct.is_some() || *new)
            .map(|(ns, ps, _)| {
                let mut o = s.out.clone();
                o.push(ns);
                St { pend: ps, out: o }
            })
            .collect()
    };
    for ph in &scen.phases {
        for s in frontier.iter_mut() {
            for it in &ph.push {
                s.pend[it.hook as usize].push(it, kinds[it.hook as usize]);
            }
        }
        for &d in &ph.decisions {
            let mut next = vec![];
            for s in &frontier {
                if scen.direct {
                    if !s.pend[0].ready(kinds[0]) {
                        next.push(s.clone());
                    } else {
                        next.extend(step(s, Some(d)));
                    }
                } else if model_can_run(kinds, &s.pend) {
                    next.extend(step(s, None));
                } else {
                    next.push(s.clone());
                }
            }
            frontier = next;
        }
    }
    // drain
    let mut done = BTreeSet::new();
    while let Some(s) = frontier.pop() {
        let can = if scen.direct {
            s.pend[0].ready(kinds[0]) && s.pend[0].has_pending()
        } else {
            model_can_run(kinds, &s.pend)
        };
        if !can {
            done.insert(s.out);
        } else {
            frontier.extend(step(&s, if scen.direct { Some(true) } else { None }));
        }
    }
    done
}

/// Validate one real run event by event (C36) and return its outcome (for C37).
pub fn check_run(scen: &Scenario, events: &[Event], spin: bool) -> Result<(Outcome, RunStats), Fail> {
    let kinds = &scen.hooks;
    let mut pend = vec![Pending::default(); kinds.len()];
    let mut out: Outcome = vec![];
    let mut stats = RunStats::default();
    let tag = if kinds.len() == 1 {
        kinds[0].name().to_string()
    } else {
        format!("tick[{}]", kinds.iter().map(|k| k.name()).collect::<Vec<_>>().join("+"))
    };
    for ev in events {
        match ev {
            Event::Push(items) => {
                for it in items {
                    pend[it.hook as usize].push(it, kinds[it.hook as usize]);
                }
            }
            Event::NotRunnable => {
                if model_can_run(kinds, &pend) {
                    return Err(Fail::new(
                        format!("{tag}:not-runnable-with-pending-input"),
                        format!("scheduler predicate says the tick cannot run, pending {pend:?}"),
                    ));
                }
            }
            Event::NotReady => {
                if pend[0].ready(kinds[0]) {
                    return Err(Fail::new(
                        format!("{tag}:not-ready-with-input"),
                        format!("is_ready() false, pending {:?}", pend[0]),
                    ));
                }
            }
            Event::Resolve(obs) => {
                if !scen.direct && !model_can_run(kinds, &pend) {
                    return Err(Fail::new(
                        format!("{tag}:runnable-without-pending-input"),
                        format!("scheduler predicate says the tick can run, pending {pend:?}"),
                    ));
                }
                let had_pending: Vec<bool> = pend.iter().map(|p| p.has_pending()).collect();
                let before: Vec<usize> =
                    pend.iter().map(|p| p.q.values().map(|q| q.len()).sum()).collect();
                let mut any_new = false;
                let mut norms = vec![];
                for (i, o) in obs.iter().enumerate() {
                    let new = apply_release(kinds[i], &mut pend[i], &o.released, o.messages)?;
                    any_new |= new;
                    norms.push(normalise(kinds[i], &o.released));
                    if !kinds[i].snapshot() && o.released.len() >= 1 && before[i] >= 3 && o.released.len() < before[i] {
                        stats.split = true;
                    }
                    if kinds[i].snapshot() && new && before[i] >= 2 {
                        stats.split = true;
                    }
                    if scen.direct {
                        let ret = o.ret.unwrap();
                        if ret != new {
                            return Err(Fail::new(
                                sig(kinds[i], "returned-bool-not-released-new"),
                                format!("autonomous_decision returned {ret} but released-new is {new}: {:?}", o.released),
                            ));
                        }
                        if o.forced && !ret {
                            return Err(Fail::new(
                                sig(kinds[i], "forced-decision-trivial"),
                                "force_nontrivial=true with pending input returned false".to_string(),
                            ));
                        }
                        if o.could != had_pending[i] {
                            return Err(Fail::new(
                                sig(kinds[i], "can-make-nontrivial-disagrees-with-pending"),
                                format!("can_make_nontrivial_decision()={}, pending={}", o.could, had_pending[i]),
                            ));
                        }
                        if o.cur.unwrap() != Some(ret) {
                            return Err(Fail::new(
                                sig(kinds[i], "current-decision-disagrees"),
                                format!("current_decision()={:?} after a decision that returned {ret}", o.cur.unwrap()),
                            ));
                        }
                        if o.cur_after_release.unwrap().is_some() {
                            return Err(Fail::new(
                                sig(kinds[i], "decision-survives-release"),
                                "current_decision() is Some after release_decision".to_string(),
                            ));
                        }
                    }
                }
                if !scen.direct && !any_new {
                    return Err(Fail::new(
                        format!("{tag}:tick-released-nothing-new"),
                        format!("a scheduled resolution released nothing new: {obs:?}"),
                    ));
                }
                stats.resolutions += 1;
                out.push(norms);
            }
        }
    }
    if spin {
        return Err(Fail::new(
            format!("{tag}:scheduler-spins"),
            "the tick stays runnable although everything was released".to_string(),
        ));
    }
    // after the drain nothing may be left behind
    // (unless a snapshot hook of the tick never became ready: then the tick may never run)
    let all_ready = kinds.iter().zip(&pend).all(|(k, p)| p.ready(*k));
    for (i, p) in pend.iter().enumerate() {
        if all_ready && p.has_pending() {
            return Err(Fail::new(
                sig(kinds[i], "pending-item-lost"),
                format!("after draining, still pending: {:?}", p.q),
            ));
        }
    }
    Ok((out, stats))
}

#[derive(Clone, Copy, Debug, Default)]
pub struct RunStats {
    pub resolutions: usize,
    /// a queue of >= 3 items was split into >= 2 releases (DESIGN C36 non-trivial rule)
    pub split: bool,
}

// ---------------------------------------------------------------------------------------------
// Inline hooks (resolved while a tick runs): one batch in, one ordering out.
// ---------------------------------------------------------------------------------------------

#[derive(Clone, Copy, Debug, PartialEq, Eq, PartialOrd, Ord, Hash, Serialize, Deserialize)]
pub enum InlineKind {
    StreamOrder,
    KeyedStreamOrder,
    PartiallyOrdered,
    MergeOrdered,
    KeyedMergeOrdered,
}

pub const INLINE_KINDS: [InlineKind; 5] = [
    InlineKind::StreamOrder,
    InlineKind::KeyedStreamOrder,
    InlineKind::PartiallyOrdered,
    InlineKind::MergeOrdered,
    InlineKind::KeyedMergeOrdered,
];

impl InlineKind {
    pub fn name(self) -> &'static str {
        match self {
            InlineKind::StreamOrder => "StreamOrderHook",
            InlineKind::KeyedStreamOrder => "KeyedStreamOrderHook",
            InlineKind::PartiallyOrdered => "PartiallyOrderedStreamHook",
            InlineKind::MergeOrdered => "MergeOrderedHook",
            InlineKind::KeyedMergeOrdered => "KeyedMergeOrderedHook",
        }
    }
    pub fn keyed(self) -> bool {
        !matches!(self, InlineKind::StreamOrder | InlineKind::MergeOrdered)
    }
    pub fn two_sources(self) -> bool {
        matches!(self, InlineKind::MergeOrdered | InlineKind::KeyedMergeOrdered)
    }
}

#[derive(Clone, Debug, PartialEq, Eq, Hash, Serialize, Deserialize)]
pub struct InlineScenario {
    pub kind: InlineKind,
    /// (key, id) of the first input batch, in order
    pub first: Vec<(u8, u8)>,
    /// second input batch (merge hooks only)
    pub second: Vec<(u8, u8)>,
}

pub struct InlineRun {
    pub pending_before: bool,
    pub had_decision_after: bool,
    pub pending_after_release: bool,
    pub out: Vec<Vec<(u8, u8)>>,
    pub rec: Vec<Choice>,
    pub driver_errors: Vec<String>,
}

pub fn run_inline(s: &InlineScenario, tape: Vec<u64>, wrap: bool) -> InlineRun {
    let mut drv = TapeDriver::new(tape, wrap);
    let (pending_before, had_decision_after, pending_after_release, out);
    {
        let mut b = Borrowed(&mut drv);
        macro_rules! go {
            ($hook:expr, $rx:expr, $map:expr) => {{
                let mut hook = $hook;
                let mut rx = $rx;
                pending_before = hook.pending_decision();
                hook.autonomous_decision(&mut b);
                had_decision_after = hook.has_decision();
                hook.release_decision(None);
                pending_after_release = hook.pending_decision() || hook.has_decision();
                out = drain_rx(&mut rx).into_iter().map($map).collect();
            }};
        }
        match s.kind {
            InlineKind::StreamOrder => {
                let input = Rc::new(RefCell::new(Some(s.first.iter().map(|x| x.1).collect::<Vec<u8>>())));
                let (tx, rx) = unbounded::<Vec<u8>>();
                go!(
                    StreamOrderHook::new(input, tx, LOC, dbg::<u8>),
                    rx,
                    |v: Vec<u8>| v.into_iter().map(|id| (0u8, id)).collect::<Vec<_>>()
                );
            }
            InlineKind::MergeOrdered => {
                let a = Rc::new(RefCell::new(Some(s.first.iter().map(|x| x.1).collect::<Vec<u8>>())));
                let bb = Rc::new(RefCell::new(Some(s.second.iter().map(|x| x.1).collect::<Vec<u8>>())));
                let (tx, rx) = unbounded::<Vec<u8>>();
                go!(
                    MergeOrderedHook::new(a, bb, tx, LOC, dbg::<u8>),
                    rx,
                    |v: Vec<u8>| v.into_iter().map(|id| (0u8, id)).collect::<Vec<_>>()
                );
            }
            InlineKind::KeyedStreamOrder => {
                let input = Rc::new(RefCell::new(Some(s.first.clone())));
                let (tx, rx) = unbounded::<Vec<(u8, u8)>>();
                go!(
                    KeyedStreamOrderHook::new(input, tx, LOC, dbg::<u8>, dbg::<u8>),
                    rx,
                    |v: Vec<(u8, u8)>| v
                );
            }
            InlineKind::PartiallyOrdered => {
                let input = Rc::new(RefCell::new(Some(s.first.clone())));
                let (tx, rx) = unbounded::<Vec<(u8, u8)>>();
                go!(
                    PartiallyOrderedStreamHook::new(input, tx, LOC, dbg::<u8>, dbg::<u8>),
                    rx,
                    |v: Vec<(u8, u8)>| v
                );
            }
            InlineKind::KeyedMergeOrdered => {
                let a = Rc::new(RefCell::new(Some(s.first.clone())));
                let bb = Rc::new(RefCell::new(Some(s.second.clone())));
                let (tx, rx) = unbounded::<Vec<(u8, u8)>>();
                go!(
                    KeyedMergeOrderedHook::new(a, bb, tx, LOC, dbg::<(u8, u8)>),
                    rx,
                    |v: Vec<(u8, u8)>| v
                );
            }
        }
    }
    InlineRun {
        pending_before,
        had_decision_after,
        pending_after_release,
        out,
        rec: drv.rec.clone(),
        driver_errors: drv.errors.clone(),
    }
}

fn per_key(v: &[(u8, u8)]) -> BTreeMap<u8, Vec<u8>> {
    let mut m: BTreeMap<u8, Vec<u8>> = BTreeMap::new();
    for &(k, id) in v {
        m.entry(k).or_default().push(id);
    }
    m
}

fn is_subsequence(sub: &[u8], of: &[u8]) -> bool {
    let mut it = of.iter();
    sub.iter().all(|x| it.any(|y| y == x))
}

/// Outcome of an inline decision as far as the collection type can tell orders apart:
/// unkeyed hooks: the sequence; keyed hooks: the per-key sequences (order across keys is not
/// part of a keyed stream), except `PartiallyOrdered`, whose output is an ordered stream of
/// entries: the full interleaving.
pub fn inline_outcome(kind: InlineKind, out: &[(u8, u8)]) -> Vec<(u8, Vec<u8>)> {
    match kind {
        InlineKind::StreamOrder | InlineKind::MergeOrdered => {
            vec![(0, out.iter().map(|x| x.1).collect())]
        }
        InlineKind::PartiallyOrdered => out.iter().map(|&(k, id)| (k, vec![id])).collect(),
        _ => per_key(out).into_iter().collect(),
    }
}

/// C36 for an inline decision: exactly one output batch, a permutation of the input that
/// respects the order the hook kind must preserve.
pub fn check_inline(s: &InlineScenario, r: &InlineRun) -> Result<(), Fail> {
    let name = s.kind.name();
    let fail = |what: &str, msg: String| Err(Fail::new(format!("{name}:{what}"), msg));
    if !r.pending_before {
        return fail("no-pending-decision-with-input", "pending_decision() false with a full batch".into());
    }
    if !r.had_decision_after {
        return fail("no-decision-after-deciding", "has_decision() false after autonomous_decision".into());
    }
    if r.pending_after_release {
        return fail("decision-survives-release", "pending/has decision after release".into());
    }
    if r.out.len() != 1 {
        return fail("batch-count", format!("{} output batches for one decision", r.out.len()));
    }
    let out = &r.out[0];
    let mut all: Vec<(u8, u8)> = s.first.iter().chain(s.second.iter()).copied().collect();
    let mut got = out.clone();
    all.sort();
    got.sort();
    if all != got {
        return fail(
            "not-a-permutation",
            format!("input {:?} + {:?}, output {:?}", s.first, s.second, out),
        );
    }
    let ok = match s.kind {
        InlineKind::StreamOrder | InlineKind::KeyedStreamOrder => true,
        InlineKind::PartiallyOrdered => {
            let i = per_key(&s.first);
            per_key(out).iter().all(|(k, v)| i.get(k) == Some(v))
        }
        InlineKind::MergeOrdered | InlineKind::KeyedMergeOrdered => {
            let o = per_key(out);
            let a = per_key(&s.first);
            let b = per_key(&s.second);
            o.iter().all(|(k, v)| {
                a.get(k).is_none_or(|x| is_subsequence(x, v))
                    && b.get(k).is_none_or(|x| is_subsequence(x, v))
            })
        }
    };
    if !ok {
        return fail(
            "order-not-preserved",
            format!("input {:?} + {:?}, output {:?}", s.first, s.second, out),
        );
    }
    Ok(())
}

fn interleavings(a: &[u8], b: &[u8]) -> Vec<Vec<u8>> {
    if a.is_empty() {
        return vec![b.to_vec()];
    }
    if b.is_empty() {
        return vec![a.to_vec()];
    }
    let mut out = vec![];
    for mut r in interleavings(&a[1..], b) {
        r.insert(0, a[0]);
        out.push(r);
    }
    for mut r in interleavings(a, &b[1..]) {
        r.insert(0, b[0]);
        out.push(r);
    }
    out
}

/// Independently enumerated outcome set of an inline decision.
pub fn inline_model(s: &InlineScenario) -> BTreeSet<Vec<(u8, Vec<u8>)>> {
    let mut set = BTreeSet::new();
    match s.kind {
        InlineKind::StreamOrder => {
            let ids: Vec<u8> = s.first.iter().map(|x| x.1).collect();
            for p in permutations(&ids) {
                set.insert(vec![(0, p)]);
            }
        }
        InlineKind::MergeOrdered => {
            let a: Vec<u8> = s.first.iter().map(|x| x.1).collect();
            let b: Vec<u8> = s.second.iter().map(|x| x.1).collect();
            for p in interleavings(&a, &b) {
                set.insert(vec![(0, p)]);
            }
        }
        InlineKind::KeyedStreamOrder => {
            let mut partial: Vec<Vec<(u8, Vec<u8>)>> = vec![vec![]];
            for (k, ids) in per_key(&s.first) {
                let mut next = vec![];
                for p in &partial {
                    for perm in permutations(&ids) {
                        let mut p2 = p.clone();
                        p2.push((k, perm));
                        next.push(p2);
                    }
                }
                partial = next;
            }
            set.extend(partial);
        }
        InlineKind::KeyedMergeOrdered => {
            let a = per_key(&s.first);
            let b = per_key(&s.second);
            let keys: BTreeSet<u8> = a.keys().chain(b.keys()).copied().collect();
            let mut partial: Vec<Vec<(u8, Vec<u8>)>> = vec![vec![]];
            for k in keys {
                let e = vec![];
                let mut next = vec![];
                for p in &partial {
                    for il in interleavings(a.get(&k).unwrap_or(&e), b.get(&k).unwrap_or(&e)) {
                        let mut p2 = p.clone();
                        p2.push((k, il));
                        next.push(p2);
                    }
                }
                partial = next;
            }
            set.extend(partial);
        }
        InlineKind::PartiallyOrdered => {
            // all interleavings of the per-key sequences
            fn rec(qs: &mut Vec<(u8, VecDeque<u8>)>, cur: &mut Vec<(u8, Vec<u8>)>, set: &mut BTreeSet<Vec<(u8, Vec<u8>)>>) {
                if qs.iter().all(|(_, q)| q.is_empty()) {
                    set.insert(cur.clone());
                    return;
                }
                for i in 0..qs.len() {
                    if let Some(v) = qs[i].1.pop_front() {
                        cur.push((qs[i].0, vec![v]));
                        rec(qs, cur, set);
                        cur.pop();
                        qs[i].1.push_front(v);
                    }
                }
            }
            let mut qs: Vec<(u8, VecDeque<u8>)> = per_key(&s.first)
                .into_iter()
                .map(|(k, v)| (k, v.into_iter().collect()))
                .collect();
            rec(&mut qs, &mut vec![], &mut set);
        }
    }
    set
}

// ---------------------------------------------------------------------------------------------
// Scenario enumeration
// ---------------------------------------------------------------------------------------------

/// Every way to lay `n` items (ids 0..n in push order) over `hooks`, keys {0,1} where keyed,
/// sources {0,1} for merge hooks, split into at most `max_phases` instalments.
pub fn layouts(hooks: &[Kind], n: usize, max_keys: u8, max_phases: usize) -> Vec<Vec<Vec<Item>>> {
    // per item: (hook, key, src)
    let mut per_item: Vec<(u8, u8, u8)> = vec![];
    for (h, k) in hooks.iter().enumerate() {
        let keys = if k.keyed() { max_keys } else { 1 };
        let srcs = if k.two_sources() { 2 } else { 1 };
        for key in 0..keys {
            for src in 0..srcs {
                per_item.push((h as u8, key, src));
            }
        }
    }
    let mut assigns: Vec<Vec<(u8, u8, u8)>> = vec![vec![]];
    for _ in 0..n {
        let mut next = vec![];
        for a in &assigns {
            for c in &per_item {
                let mut a2 = a.clone();
                a2.push(*c);
                next.push(a2);
            }
        }
        assigns = next;
    }
    let mut out = vec![];
    for a in assigns {
        // canonical key naming: the first keyed item of a hook uses key 0
        let mut ok = true;
        for (h, k) in hooks.iter().enumerate() {
            if k.keyed() {
                if let Some(first) = a.iter().find(|c| c.0 == h as u8) {
                    if first.1 != 0 {
                        ok = false;
                    }
                }
            }
        }
        if !ok {
            continue;
        }
        for comp in vcommon::compositions(n) {
            if comp.len() > max_phases {
                continue;
            }
            let mut phases = vec![];
            let mut i = 0;
            for part in comp {
                let mut ph = vec![];
                for _ in 0..part {
                    let (hook, key, src) = a[i];
                    ph.push(Item {
                        hook,
                        key,
                        src,
                        id: i as u8,
                    });
                    i += 1;
                }
                phases.push(ph);
            }
            out.push(phases);
        }
    }
    out
}
