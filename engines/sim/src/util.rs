//! Panic bookkeeping shared by all checks.

use std::sync::Mutex;

use vcommon::Fail;

/// (message, location) of the panics seen since the last `take_panics()`.
static PANICS: Mutex<Vec<(String, String)>> = Mutex::new(Vec::new());

/// Quiet panic hook that remembers message and location of every panic (bolero's own hook
/// forwards to it while replaying a failing input; ordinary panics reach it directly).
pub fn install_panic_hook() {
    std::panic::set_hook(Box::new(|info| {
        let msg = if let Some(s) = info.payload().downcast_ref::<&str>() {
            s.to_string()
        } else if let Some(s) = info.payload().downcast_ref::<String>() {
            s.clone()
        } else {
            "<non-string panic payload>".to_string()
        };
        let loc = info
            .location()
            .map(|l| format!("{}:{}", l.file(), l.line()))
            .unwrap_or_default();
        if let Ok(mut p) = PANICS.lock() {
            if p.len() < 64 {
                p.push((msg, loc));
            }
        }
    }));
}

pub fn take_panics() -> Vec<(String, String)> {
    PANICS.lock().map(|mut p| std::mem::take(&mut *p)).unwrap_or_default()
}

/// Squash digits so a panic message can be part of a stable signature.
pub fn squash(m: &str) -> String {
    let first = m.lines().next().unwrap_or("");
    let mut out = String::new();
    let mut last_hash = false;
    for c in first.chars().take(90) {
        if c.is_ascii_digit() {
            if !last_hash {
                out.push('#');
                last_hash = true;
            }
        } else {
            out.push(c);
            last_hash = false;
        }
    }
    out
}

/// Run `f`; a panic becomes a failure with signature `<tag>:panic:<message>`.
pub fn guarded<T>(tag: &str, f: impl FnOnce() -> T) -> Result<T, Fail> {
    match std::panic::catch_unwind(std::panic::AssertUnwindSafe(f)) {
        Ok(v) => {
            Ok(v)
        }
        Err(p) => {
            let msg = vcommon::panic_msg(&p);
            let seen = take_panics();
            let loc = seen
                .iter()
                .rev()
                .find(|(m, _)| *m == msg)
                .map(|(_, l)| l.clone())
                .unwrap_or_default();
            Err(Fail::new(
                format!("{tag}:panic:{}", squash(&msg)),
                format!("panic at {loc}: {msg}"),
            ))
        }
    }
}

/// Set once an unlisted violation has been reported (the watchdog then exits 1, not 2).
pub static VIOLATION_SEEN: std::sync::atomic::AtomicBool = std::sync::atomic::AtomicBool::new(false);

/// After a violation the remaining (more expensive) stages are skipped: a broken hook or
/// scheduler can make an exhaustive simulation endless.
pub fn violated(ctx: &vcommon::Ctx) -> bool {
    let v = ctx.violations() > 0;
    if v {
        VIOLATION_SEEN.store(true, std::sync::atomic::Ordering::SeqCst);
    }
    v
}
