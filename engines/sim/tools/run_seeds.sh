#!/usr/bin/env bash
# Unchanged-tree runs under several seeds, each in a fresh process (AGENT_BRIEF).
# usage: run_seeds.sh "<seeds>" <ID>...
out=/verif/work/sim/seeds.log
seeds=$1; shift
for p in "$@"; do
  for s in $seeds; do
    start=$(date +%s)
    /verif/check "$p" --tier quick --seed "$s" > /verif/work/sim/seed-run.out 2>/dev/null
    rc=$?
    line=$(grep -E "^(PASS|FAIL|INCONCLUSIVE|VIOLATION|HARNESS)" /verif/work/sim/seed-run.out | cut -c1-260 | tr '\n' ' ')
    echo "$p seed=$s exit=$rc secs=$(( $(date +%s)-start )) $line" | tee -a "$out"
  done
done
