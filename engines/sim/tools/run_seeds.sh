#!/usr/bin/env bash
# Unchanged-tree runs under several seeds, each in a fresh process (AGENT_BRIEF).
out=/verif/work/sim/seeds.log
for p in "$@"; do
  for s in 1 2 3 4 5; do
    start=$(date +%s)
    line=$(/verif/check "$p" --tier quick --seed "$s" 2>/dev/null | grep -E "^(PASS|FAIL|INCONCLUSIVE|VIOLATION)" | cut -c1-300 | tr '\n' ' ')
    rc=${PIPESTATUS[0]}
    echo "$p seed=$s secs=$(( $(date +%s)-start )) $line" | tee -a "$out"
  done
done
