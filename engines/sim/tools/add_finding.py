#!/usr/bin/env python3
"""Append one entry to /verif/known_findings.d/sim.json (idempotent)."""
import json, os, sys
d_ = os.path.join(os.path.dirname(os.path.abspath(__file__)), "..", "..", "..", "known_findings.d")
os.makedirs(d_, exist_ok=True)
path = os.path.join(d_, "sim.json")
prop, sig, what = sys.argv[1:4]
d = {"findings": []}
if os.path.exists(path):
    d = json.load(open(path))
if not any(e.get("property") == prop and e.get("signature") == sig for e in d["findings"]):
    d["findings"].append({"property": prop, "signature": sig, "what": what})
    tmp = path + ".tmp"
    with open(tmp, "w") as f:
        json.dump(d, f, indent=1); f.write("\n")
    os.replace(tmp, path)
    print("added")
else:
    print("already present")
