#!/usr/bin/env python3
"""Append one entry to /verif/known_findings.json (idempotent, under an exclusive lock)."""
import fcntl, json, os, sys
path = os.path.join(os.path.dirname(os.path.abspath(__file__)), "..", "..", "..", "known_findings.json")
prop, sig, what = sys.argv[1:4]
with open(path, "r+") as f:
    fcntl.flock(f, fcntl.LOCK_EX)
    d = json.load(f)
    if not any(e.get("property") == prop and e.get("signature") == sig for e in d["findings"]):
        d["findings"].append({"property": prop, "signature": sig, "what": what})
        f.seek(0); f.truncate()
        json.dump(d, f, indent=1); f.write("\n")
        print("added")
    else:
        print("already present")
