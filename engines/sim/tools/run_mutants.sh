#!/usr/bin/env bash
# Sensitivity runs (AGENT_BRIEF "Sensitivity"): apply each mutant to the scratch worktree, run the
# QUICK tier of its property there, reverse.  Usage: run_mutants.sh <scratch-name> <mutant.diff>...
set -uo pipefail
name=$1; shift
root=/tmp/vp-scratch-$name
out=/verif/work/sim/mutants-$name.log
mkdir -p /verif/work/sim
for m in "$@"; do
  m=$(realpath "$m")
  base=$(basename "$m" .diff)
  prop=${base%%-*}
  echo "=== $base ($prop) $(date +%T)" | tee -a "$out"
  if ! git -C "$root/repo" apply "$m"; then echo "APPLY-FAILED $base" | tee -a "$out"; continue; fi
  start=$(date +%s)
  "$root/check" "$prop" --tier quick > "$root/mutant-$base.out" 2>"$root/mutant-$base.err"
  rc=$?
  end=$(date +%s)
  git -C "$root/repo" apply -R "$m" || echo "REVERSE-FAILED $base" | tee -a "$out"
  echo "exit=$rc secs=$((end-start))" | tee -a "$out"
  grep -E "^(VIOLATION|  sub_check|FAIL|PASS|INCONCLUSIVE|BUILD-FAILED)" "$root/mutant-$base.out" | cut -c1-400 | head -12 | tee -a "$out"
done
