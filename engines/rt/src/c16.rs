//! C16 — `dfir_rs::util::unsync::mpsc`: FIFO, lossless, closure, and the quiescence invariant
//! "no sender parked while capacity is free / no receiver parked while it could make progress",
//! over all poll schedules of a harness-owned deterministic executor.
//!
//! Tasks are real futures over the real channel. A schedule is a list of choices among the
//! currently enabled moves: poll a woken task, or (bounded budget) poll a parked task that was
//! not woken — legal for any `Future`, and what `join!`/`select!` do to their children.
//! Every poll is compared with a trivial queue model (exact, because polls are atomic on one
//! thread); whenever no task is woken the quiescence invariant is evaluated.

use std::cell::RefCell;
use std::collections::{BTreeSet, HashSet};
use std::future::{poll_fn, Future};
use std::pin::Pin;
use std::rc::Rc;
use std::task::{Context, Poll};

use dfir_rs::util::unsync::mpsc::{self, Receiver, Sender, TrySendError};
use futures::{Sink, Stream};
use serde::{Deserialize, Serialize};
use vcommon::proptest;
use vcommon::proptest::prelude::*;
use vcommon::{hash64, Ctx, Fail, Obs, Tier};

use crate::util::{reg_is_woken, reg_live_of, reg_live_tasks, reg_reset, reg_root_waker, reg_set_woken, reg_take_woken};

#[derive(Clone, Debug, PartialEq, Eq, Hash, Serialize, Deserialize)]
pub enum SenderProg {
    /// `for x in items { tx.send(x).await }`, then drop the sender
    Send { items: u8 },
    /// `Sink` interface: per item `poll_ready` + `start_send` in one poll (as `SinkExt::feed`
    /// does); `close`: finish with `poll_close` (= `close_this_sender`) before dropping;
    /// `pause`: the task yields once (self-waking) between its last item and the close/drop
    Sink { items: u8, close: bool, pause: bool },
    /// one task polling two sequential send chains with `futures::future::join`
    Join { a: u8, b: u8 },
    /// poll one `send` once and drop (cancel) the future if it is pending
    Cancel,
}

#[derive(Clone, Debug, PartialEq, Eq, Hash, Serialize, Deserialize)]
pub enum RecvProg {
    /// receive until `None`
    All,
    /// call `Receiver::close()` after k items, keep draining until `None`
    CloseAfter(u8),
    /// drop the receiver after k items
    DropAfter(u8),
}

#[derive(Clone, Debug, PartialEq, Eq, Hash, Serialize, Deserialize)]
pub struct ChanCase {
    /// capacity; 0 = unbounded
    pub cap: u8,
    pub senders: Vec<SenderProg>,
    pub recv: RecvProg,
    /// receiver uses `Stream::poll_next` instead of `poll_recv`
    pub stream_api: bool,
    /// budget of polls of parked, not woken tasks
    pub spurious: u8,
    /// choice indices into the enabled-move list (taken modulo its length)
    pub sched: Vec<u8>,
}

#[derive(Clone, Copy, Debug, PartialEq, Eq)]
enum Expect {
    Pending,
    Ok,
    Closed,
}

#[derive(Clone, Copy, Debug, PartialEq, Eq)]
enum ExpectRecv {
    Pending,
    Item(u32),
    End,
}

struct World {
    cap: Option<usize>,
    /// completed sends in completion order
    sent: Vec<u32>,
    received: usize,
    recv_closed: bool,
    recv_self_closed: bool,
    live_senders: usize,
    pending_sends: BTreeSet<(usize, usize)>,
    recv_pending: bool,
    progress: Vec<[u8; 2]>,
    fail: Option<Fail>,
    dup_seen: bool,
    /// a parked send future was polled again although the channel had not woken its task for
    /// it (every wake call on a task's waker pays for one re-poll of one of its parked sends):
    /// a spurious poll, or `join` re-polling its other child
    unsolicited: bool,
    /// re-polls of parked sends paid for so far, per task
    consumed: Vec<u32>,
    multi_blocked_seen: bool,
    close_this_sender_used: bool,
    /// the last live sender handle went away through `close_this_sender` (Sink::poll_close),
    /// not through `Drop`
    last_sender_left_via_close: bool,
    cancelled: bool,
    send_errors: u32,
}

impl World {
    fn buffer_len(&self) -> usize {
        self.sent.len() - self.received
    }
    fn expect_send(&self) -> Expect {
        if self.recv_closed {
            Expect::Closed
        } else if self.cap.is_some_and(|c| c <= self.buffer_len()) {
            Expect::Pending
        } else {
            Expect::Ok
        }
    }
    fn expect_recv(&self) -> ExpectRecv {
        if self.buffer_len() > 0 {
            ExpectRecv::Item(self.sent[self.received])
        } else if self.recv_self_closed || self.live_senders == 0 {
            ExpectRecv::End
        } else {
            ExpectRecv::Pending
        }
    }
    /// Called right before a send future is polled.
    fn note_repoll(&mut self, task: usize, chain: usize) {
        if self.pending_sends.contains(&(task, chain)) {
            let wakes = crate::util::reg_with(|r| r.wake_calls[task]);
            if wakes > self.consumed[task] {
                self.consumed[task] += 1;
            } else {
                self.unsolicited = true;
            }
        }
    }
    fn violate(&mut self, sig: &str, msg: String) {
        if self.fail.is_none() {
            self.fail = Some(Fail::new(sig, msg));
        }
    }
}

type W = Rc<RefCell<World>>;

fn val(task: usize, chain: usize, i: u8) -> u32 {
    (task * 100 + chain * 10) as u32 + i as u32
}

async fn send_chain(tx: &Sender<u32>, w: W, task: usize, chain: usize, n: u8) {
    for i in 0..n {
        let item = val(task, chain, i);
        let mut fut = std::pin::pin!(tx.send(item));
        poll_fn(|cx| {
            let expect = w.borrow().expect_send();
            w.borrow_mut().note_repoll(task, chain);
            let r = fut.as_mut().poll(cx);
            let mut wm = w.borrow_mut();
            match (&r, expect) {
                (Poll::Pending, Expect::Pending) => {
                    wm.pending_sends.insert((task, chain));
                }
                (Poll::Ready(Ok(())), Expect::Ok) => {
                    wm.pending_sends.remove(&(task, chain));
                    wm.sent.push(item);
                }
                (Poll::Ready(Err(e)), Expect::Closed) => {
                    wm.pending_sends.remove(&(task, chain));
                    wm.send_errors += 1;
                    if e.0 != item {
                        wm.violate(
                            "mpsc:send-error-returns-wrong-item",
                            format!("send({item}) on a closed channel returned SendError({})", e.0),
                        );
                    }
                }
                _ => {
                    let got = match &r {
                        Poll::Pending => "Pending",
                        Poll::Ready(Ok(())) => "Ok",
                        Poll::Ready(Err(_)) => "Err",
                    };
                    wm.pending_sends.remove(&(task, chain));
                    let msg = format!(
                        "send({item}) polled with buffer {}/{:?}, receiver closed={}: expected {expect:?}, got {got}",
                        wm.buffer_len(),
                        wm.cap,
                        wm.recv_closed
                    );
                    wm.violate(&format!("mpsc:send:expected-{expect:?}-got-{got}"), msg);
                }
            }
            r.map(|_| ())
        })
        .await;
        w.borrow_mut().progress[task][chain] += 1;
    }
}

async fn sink_chain(mut tx: Sender<u32>, w: W, task: usize, n: u8, close: bool, pause: bool) {
    for i in 0..n {
        let item = val(task, 0, i);
        poll_fn(|cx| {
            let expect = w.borrow().expect_send();
            w.borrow_mut().note_repoll(task, 0);
            let r = Pin::new(&mut tx).poll_ready(cx);
            let mut wm = w.borrow_mut();
            match (&r, expect) {
                (Poll::Pending, Expect::Pending) => {
                    wm.pending_sends.insert((task, 0));
                    Poll::Pending
                }
                (Poll::Ready(Ok(())), Expect::Ok) => {
                    wm.pending_sends.remove(&(task, 0));
                    drop(wm);
                    // same poll, as SinkExt::feed/send do
                    let s = Pin::new(&mut tx).start_send(item);
                    let mut wm = w.borrow_mut();
                    match s {
                        Ok(()) => wm.sent.push(item),
                        Err(_) => wm.violate(
                            "mpsc:sink:start_send-failed-after-ready",
                            format!("start_send({item}) failed right after poll_ready returned Ready(Ok)"),
                        ),
                    }
                    Poll::Ready(())
                }
                (Poll::Ready(Err(TrySendError::Closed(None))), Expect::Closed) => {
                    wm.pending_sends.remove(&(task, 0));
                    wm.send_errors += 1;
                    Poll::Ready(())
                }
                _ => {
                    let got = match &r {
                        Poll::Pending => "Pending",
                        Poll::Ready(Ok(())) => "Ok",
                        Poll::Ready(Err(_)) => "Err",
                    };
                    wm.pending_sends.remove(&(task, 0));
                    let msg = format!(
                        "Sink::poll_ready with buffer {}/{:?}, receiver closed={}: expected {expect:?}, got {got}",
                        wm.buffer_len(),
                        wm.cap,
                        wm.recv_closed
                    );
                    wm.violate(&format!("mpsc:sink:poll_ready:expected-{expect:?}-got-{got}"), msg);
                    Poll::Ready(())
                }
            }
        })
        .await;
        w.borrow_mut().progress[task][0] += 1;
    }
    if pause {
        let mut yielded = false;
        poll_fn(|cx| {
            if yielded {
                Poll::Ready(())
            } else {
                yielded = true;
                cx.waker().wake_by_ref();
                Poll::Pending
            }
        })
        .await;
    }
    if close {
        let r = poll_fn(|cx| Pin::new(&mut tx).poll_close(cx)).await;
        let mut wm = w.borrow_mut();
        if r.is_err() {
            wm.violate("mpsc:sink:poll_close-error", "Sink::poll_close returned an error".into());
        }
        wm.live_senders -= 1;
        wm.close_this_sender_used = true;
        if wm.live_senders == 0 {
            wm.last_sender_left_via_close = true;
        }
        drop(wm);
        drop(tx);
    } else {
        drop(tx);
        w.borrow_mut().live_senders -= 1;
    }
}

async fn recv_task(mut rx: Receiver<u32>, w: W, prog: RecvProg, stream_api: bool) {
    let mut got = 0u8;
    let mut closed = false;
    loop {
        match prog {
            RecvProg::CloseAfter(k) if got == k && !closed => {
                rx.close();
                closed = true;
                let mut wm = w.borrow_mut();
                wm.recv_closed = true;
                wm.recv_self_closed = true;
            }
            RecvProg::DropAfter(k) if got == k => {
                drop(rx);
                w.borrow_mut().recv_closed = true;
                return;
            }
            _ => {}
        }
        let r = poll_fn(|cx| {
            let expect = w.borrow().expect_recv();
            let r = if stream_api {
                Pin::new(&mut rx).poll_next(cx)
            } else {
                rx.poll_recv(cx)
            };
            let mut wm = w.borrow_mut();
            wm.recv_pending = false;
            match (&r, expect) {
                (Poll::Pending, ExpectRecv::Pending) => wm.recv_pending = true,
                (Poll::Ready(Some(x)), ExpectRecv::Item(y)) if *x == y => wm.received += 1,
                (Poll::Ready(None), ExpectRecv::End) => {}
                _ => {
                    let sig = match (&r, expect) {
                        (Poll::Ready(Some(_)), ExpectRecv::Item(_)) => "mpsc:recv:wrong-item(order-or-duplicate)".to_string(),
                        (Poll::Ready(Some(_)), _) => "mpsc:recv:item-from-empty-buffer".to_string(),
                        (Poll::Ready(None), ExpectRecv::Item(_)) => "mpsc:recv:end-with-items-buffered".to_string(),
                        (Poll::Ready(None), _) => "mpsc:recv:end-while-senders-alive".to_string(),
                        (Poll::Pending, ExpectRecv::Item(_)) => "mpsc:recv:pending-with-items-buffered".to_string(),
                        (Poll::Pending, _) => "mpsc:recv:pending-after-all-senders-gone".to_string(),
                    };
                    if let Poll::Ready(Some(_)) = &r {
                        wm.received += 1;
                    }
                    let sent = wm.sent.clone();
                    let received = wm.received;
                    wm.violate(
                        &sig,
                        format!("recv returned {r:?}, expected {expect:?} (completed sends {sent:?}, received so far {received})"),
                    );
                }
            }
            r
        })
        .await;
        match r {
            Some(_) => got = got.saturating_add(1),
            None => break,
        }
    }
    drop(rx);
    w.borrow_mut().recv_closed = true;
}

type Task = Pin<Box<dyn Future<Output = ()>>>;

#[derive(Clone, Copy, Debug, PartialEq, Eq)]
pub struct Move {
    pub task: usize,
    pub spurious: bool,
}

pub struct Exec {
    w: W,
    tasks: Vec<Option<Task>>,
    started: Vec<bool>,
    spurious_left: u8,
    pub steps: usize,
    n_senders: usize,
    allow_cancel_class: bool,
}

impl Exec {
    pub fn new(case: &ChanCase) -> Exec {
        let n = case.senders.len();
        reg_reset(n + 1);
        let cap = if case.cap == 0 { None } else { Some(case.cap as usize) };
        let (tx, rx) = if let Some(c) = cap { mpsc::bounded::<u32>(c) } else { mpsc::unbounded::<u32>() };
        let w: W = Rc::new(RefCell::new(World {
            cap,
            sent: vec![],
            received: 0,
            recv_closed: false,
            recv_self_closed: false,
            live_senders: n,
            pending_sends: BTreeSet::new(),
            recv_pending: false,
            progress: vec![[0, 0]; n],
            fail: None,
            dup_seen: false,
            unsolicited: false,
            consumed: vec![0; n],
            multi_blocked_seen: false,
            close_this_sender_used: false,
            last_sender_left_via_close: false,
            cancelled: false,
            send_errors: 0,
        }));
        let mut tasks: Vec<Option<Task>> = vec![];
        for (t, prog) in case.senders.iter().enumerate() {
            let tx = tx.clone();
            let w2 = w.clone();
            let task: Task = match prog.clone() {
                SenderProg::Send { items } => Box::pin(async move {
                    send_chain(&tx, w2.clone(), t, 0, items).await;
                    drop(tx);
                    w2.borrow_mut().live_senders -= 1;
                }),
                SenderProg::Sink { items, close, pause } => Box::pin(sink_chain(tx, w2, t, items, close, pause)),
                SenderProg::Join { a, b } => Box::pin(async move {
                    futures::future::join(
                        send_chain(&tx, w2.clone(), t, 0, a),
                        send_chain(&tx, w2.clone(), t, 1, b),
                    )
                    .await;
                    drop(tx);
                    w2.borrow_mut().live_senders -= 1;
                }),
                SenderProg::Cancel => Box::pin(async move {
                    {
                        let item = val(t, 0, 0);
                        let mut fut = std::pin::pin!(tx.send(item));
                        let mut first = true;
                        poll_fn(|cx| {
                            if !first {
                                return Poll::Ready(());
                            }
                            first = false;
                            match fut.as_mut().poll(cx) {
                                Poll::Ready(Ok(())) => w2.borrow_mut().sent.push(item),
                                Poll::Ready(Err(_)) => w2.borrow_mut().send_errors += 1,
                                Poll::Pending => w2.borrow_mut().cancelled = true,
                            }
                            Poll::Ready(())
                        })
                        .await;
                        // `fut` dropped here: a pending send is cancelled
                    }
                    drop(tx);
                    w2.borrow_mut().live_senders -= 1;
                }),
            };
            tasks.push(Some(task));
        }
        drop(tx);
        tasks.push(Some(Box::pin(recv_task(rx, w.clone(), case.recv.clone(), case.stream_api))));
        for t in 0..=n {
            reg_set_woken(t, true); // every task needs its first poll
        }
        Exec {
            w,
            tasks,
            started: vec![false; n + 1],
            spurious_left: case.spurious,
            steps: 0,
            n_senders: n,
            allow_cancel_class: case.senders.iter().any(|p| matches!(p, SenderProg::Cancel)),
        }
    }

    pub fn fail(&self) -> Option<Fail> {
        self.w.borrow().fail.clone()
    }

    fn quiescence_check(&mut self) {
        let mut w = self.w.borrow_mut();
        if w.fail.is_some() {
            return;
        }
        let dup = if w.unsolicited {
            "after-unsolicited-repoll-of-a-parked-send"
        } else {
            "every-repoll-was-paid-by-a-wake"
        };
        let cancel = if w.cancelled { ":after-cancelled-send" } else { "" };
        if let Some(&(t, c)) = w.pending_sends.iter().next() {
            let e = w.expect_send();
            if e != Expect::Pending {
                let why = if e == Expect::Ok { "free-capacity" } else { "closed-channel" };
                let msg = format!(
                    "no task is woken, but sender task {t} (chain {c}) is parked in send while the buffer holds {}/{:?} items (receiver closed={}); wakers held by the channel, in registration order (task ids, {} = receiver): {:?}",
                    w.buffer_len(),
                    w.cap,
                    w.recv_closed,
                    self.n_senders,
                    reg_live_tasks()
                );
                w.violate(&format!("mpsc:quiescent:sender-parked-with-{why}:{dup}{cancel}"), msg);
                return;
            }
        }
        if w.recv_pending {
            let e = w.expect_recv();
            if e != ExpectRecv::Pending {
                let why = if matches!(e, ExpectRecv::Item(_)) { "items-buffered" } else { "all-senders-gone" };
                let cts = if w.last_sender_left_via_close && why == "all-senders-gone" {
                    ":last-sender-left-via-close_this_sender"
                } else {
                    ""
                };
                let msg = format!(
                    "no task is woken, but the receiver is parked although {} (buffer {}, live senders {})",
                    why,
                    w.buffer_len(),
                    w.live_senders
                );
                w.violate(&format!("mpsc:quiescent:receiver-parked-with-{why}{cts}{cancel}"), msg);
            }
        }
    }

    /// Enabled moves: woken unfinished tasks, then (budget permitting) parked unfinished tasks.
    pub fn enabled(&mut self) -> Vec<Move> {
        if self.fail().is_some() {
            return vec![];
        }
        let mut out = vec![];
        for t in 0..self.tasks.len() {
            if self.tasks[t].is_some() && reg_is_woken(t) {
                out.push(Move { task: t, spurious: false });
            }
        }
        if out.is_empty() {
            self.quiescence_check();
            if self.fail().is_some() {
                return vec![];
            }
        }
        if self.spurious_left > 0 {
            for t in 0..self.tasks.len() {
                if self.tasks[t].is_some() && self.started[t] && !reg_is_woken(t) {
                    out.push(Move { task: t, spurious: true });
                }
            }
        }
        out
    }

    pub fn step(&mut self, m: Move) {
        self.steps += 1;
        if m.spurious {
            self.spurious_left -= 1;
        }
        reg_take_woken(m.task);
        self.started[m.task] = true;
        let waker = reg_root_waker(m.task);
        let mut cx = Context::from_waker(&waker);
        let done = self.tasks[m.task].as_mut().unwrap().as_mut().poll(&mut cx).is_ready();
        if done {
            self.tasks[m.task] = None;
        }
        if std::env::var_os("VERIF_TRACE").is_some() {
            let w = self.w.borrow();
            eprintln!(
                "step {:>2}: poll task {}{}{} -> buffer {:?}, parked sends {:?}, receiver parked {}, channel-held wakers {:?}, woken {:?}",
                self.steps,
                m.task,
                if m.task == self.n_senders { " (receiver)" } else { "" },
                if m.spurious { " [not woken: spurious]" } else { "" },
                &w.sent[w.received..],
                w.pending_sends,
                w.recv_pending,
                reg_live_tasks(),
                (0..self.tasks.len()).filter(|t| reg_is_woken(*t)).collect::<Vec<_>>(),
            );
        }
        // observations
        let mut w = self.w.borrow_mut();
        let mut blocked_tasks = BTreeSet::new();
        for &(t, _) in &w.pending_sends {
            blocked_tasks.insert(t);
        }
        if blocked_tasks.len() >= 2 {
            w.multi_blocked_seen = true;
        }
        for t in 0..self.n_senders {
            let pend = w.pending_sends.iter().filter(|(tt, _)| *tt == t).count();
            if reg_live_of(t) > pend {
                w.dup_seen = true;
            }
        }
    }

    pub fn all_done(&self) -> bool {
        self.tasks.iter().all(|t| t.is_none())
    }

    pub fn state_hash(&self) -> u64 {
        let w = self.w.borrow();
        let woken: Vec<bool> = (0..self.tasks.len()).map(reg_is_woken).collect();
        let fin: Vec<bool> = self.tasks.iter().map(|t| t.is_none()).collect();
        hash64(&(
            (
                &w.sent[w.received..],
                w.recv_closed,
                w.recv_self_closed,
                w.live_senders,
                &w.pending_sends,
                w.recv_pending,
                &w.progress,
                w.consumed.iter().enumerate().map(|(t, c)| crate::util::reg_with(|r| r.wake_calls[t]) - c).collect::<Vec<u32>>(),
            ),
            (w.dup_seen, w.unsolicited, w.cancelled, w.close_this_sender_used, w.last_sender_left_via_close),
            (reg_live_tasks(), woken, fin, &self.started, self.spurious_left, w.received.min(8)),
        ))
    }
}

const STEP_LIMIT: usize = 4000;

/// Run one explicit schedule, then drain with the default policy (lowest woken task first).
pub fn run_case(case: &ChanCase, obs: &mut Obs) -> Result<(), Fail> {
    let mut ex = Exec::new(case);
    for &c in &case.sched {
        let en = ex.enabled();
        if en.is_empty() {
            break;
        }
        ex.step(en[c as usize % en.len()]);
    }
    loop {
        let en = ex.enabled();
        let Some(m) = en.iter().find(|m| !m.spurious) else { break };
        ex.step(*m);
        if ex.steps > STEP_LIMIT {
            obs.class("step-limit-hit");
            return Ok(());
        }
    }
    // final quiescence evaluation (enabled() already ran it when nothing was woken)
    let fail = ex.fail();
    let all_done = ex.all_done();
    let (dup, multi, received, sent, errors, cancelled, cts) = {
        let w = ex.w.borrow();
        (w.dup_seen, w.multi_blocked_seen, w.received, w.sent.len(), w.send_errors, w.cancelled, w.close_this_sender_used)
    };
    let allow_cancel = ex.allow_cancel_class;
    drop(ex);
    if let Some(f) = fail {
        if allow_cancel && cancelled && f.sig.contains(":after-cancelled-send") {
            // cancellation safety is not claimed by the property: reported as a class only
            obs.class(format!("observation:{}", f.sig));
            return Ok(());
        }
        return Err(f);
    }
    if !all_done {
        return Err(Fail::new(
            "mpsc:quiescent:task-unfinished",
            "no task is woken and not every task has finished, yet no parked send/recv was identified",
        ));
    }
    if matches!(case.recv, RecvProg::All | RecvProg::CloseAfter(_)) && received != sent {
        return Err(Fail::new(
            "mpsc:lost-items",
            format!("{sent} sends completed but the receiver saw {received} items before the end"),
        ));
    }
    obs.nontrivial(dup || multi);
    if dup {
        obs.class("a-task-registered-more-wakers-than-it-has-parked-sends");
    }
    if multi {
        obs.class(">=2-sender-tasks-parked-simultaneously");
    }
    if errors > 0 {
        obs.class("send-after-close-returned-item");
    }
    if cts {
        obs.class("close_this_sender-used");
    }
    obs.class(format!("cap={}", case.cap));
    Ok(())
}

/// Depth-first enumeration of all schedules of `cfg` (its `sched` is ignored) up to `depth`
/// choices, pruning states already visited. Yields one case per leaf (terminal, failing, or
/// cut at the depth bound — the body then drains with the default policy).
pub fn enumerate_schedules(cfg: &ChanCase, depth: usize, out: &mut Vec<ChanCase>, stats: &mut (u64, u64)) {
    let mut visited: HashSet<u64> = HashSet::new();
    let mut prefix: Vec<u8> = vec![];
    fn rec(
        cfg: &ChanCase,
        depth: usize,
        prefix: &mut Vec<u8>,
        visited: &mut HashSet<u64>,
        out: &mut Vec<ChanCase>,
        stats: &mut (u64, u64),
    ) {
        let mut ex = Exec::new(cfg);
        for &c in prefix.iter() {
            let en = ex.enabled();
            ex.step(en[c as usize]);
        }
        stats.0 += 1;
        let en = ex.enabled();
        let leaf = ex.fail().is_some() || en.is_empty() || prefix.len() >= depth;
        if leaf {
            let mut c = cfg.clone();
            c.sched = prefix.clone();
            out.push(c);
            return;
        }
        if !visited.insert(ex.state_hash()) {
            stats.1 += 1;
            return;
        }
        let n = en.len();
        drop(ex);
        for i in 0..n {
            prefix.push(i as u8);
            rec(cfg, depth, prefix, visited, out, stats);
            prefix.pop();
        }
    }
    rec(cfg, depth, &mut prefix, &mut visited, out, stats);
}

fn multisets(pool: &[SenderProg], k: usize) -> Vec<Vec<SenderProg>> {
    fn rec(pool: &[SenderProg], k: usize, start: usize, cur: &mut Vec<SenderProg>, out: &mut Vec<Vec<SenderProg>>) {
        if cur.len() == k {
            out.push(cur.clone());
            return;
        }
        for i in start..pool.len() {
            cur.push(pool[i].clone());
            rec(pool, k, i, cur, out);
            cur.pop();
        }
    }
    let mut out = vec![];
    rec(pool, k, 0, &mut vec![], &mut out);
    out
}

fn configs(tier: Tier, with_dups: bool) -> Vec<ChanCase> {
    use SenderProg::*;
    let p1: Vec<SenderProg> = vec![
        Send { items: 1 },
        Send { items: 2 },
        Send { items: 3 },
        Send { items: 4 },
        Sink { items: 1, close: false, pause: false },
        Sink { items: 2, close: false, pause: true },
        Sink { items: 3, close: false, pause: false },
        Sink { items: 0, close: true, pause: false },
        Sink { items: 1, close: true, pause: false },
        Sink { items: 1, close: true, pause: true },
        Sink { items: 2, close: true, pause: true },
        Join { a: 1, b: 1 },
        Join { a: 2, b: 1 },
        Join { a: 2, b: 2 },
    ];
    let p2: Vec<SenderProg> = vec![
        Send { items: 1 },
        Send { items: 2 },
        Send { items: 3 },
        Sink { items: 1, close: false, pause: false },
        Sink { items: 2, close: false, pause: true },
        Sink { items: 1, close: true, pause: true },
        Sink { items: 2, close: true, pause: false },
        Join { a: 1, b: 1 },
        Join { a: 2, b: 1 },
    ];
    let p3: Vec<SenderProg> = tier.pick(
        vec![
            Send { items: 1 },
            Send { items: 2 },
            Sink { items: 1, close: false, pause: false },
            Sink { items: 1, close: true, pause: true },
            Join { a: 1, b: 1 },
        ],
        vec![
            Send { items: 1 },
            Send { items: 2 },
            Send { items: 3 },
            Sink { items: 1, close: false, pause: false },
            Sink { items: 2, close: false, pause: true },
            Sink { items: 1, close: true, pause: true },
            Join { a: 1, b: 1 },
            Join { a: 2, b: 1 },
        ],
    );
    let no_join = |v: &Vec<SenderProg>| !v.iter().any(|p| matches!(p, Join { .. }));
    let recvs = [
        RecvProg::All,
        RecvProg::CloseAfter(0),
        RecvProg::CloseAfter(1),
        RecvProg::CloseAfter(2),
        RecvProg::DropAfter(0),
        RecvProg::DropAfter(1),
        RecvProg::DropAfter(2),
    ];
    let mut out = vec![];
    let mut sets: Vec<Vec<SenderProg>> = vec![];
    sets.extend(multisets(&p1, 1));
    sets.extend(multisets(&p2, 2));
    sets.extend(multisets(&p3, 3));
    if tier == Tier::Thorough {
        sets.extend(multisets(&[Send { items: 1 }, Send { items: 2 }, Join { a: 1, b: 1 }], 4));
    }
    for senders in sets {
        if !with_dups && !no_join(&senders) {
            continue;
        }
        let big = senders.len() >= 3;
        let caps: &[u8] = if big { &[1, 2] } else { &[1, 2, 3, 0] };
        for &cap in caps {
            for recv in &recvs {
                if big && !matches!(recv, RecvProg::All | RecvProg::CloseAfter(1) | RecvProg::DropAfter(1)) {
                    continue;
                }
                let spur: &[u8] = if with_dups {
                    if big {
                        tier.pick(&[1u8][..], &[1u8, 2][..])
                    } else {
                        tier.pick(&[1u8, 2][..], &[1u8, 2, 3][..])
                    }
                } else {
                    &[0]
                };
                for &spurious in spur {
                    out.push(ChanCase {
                        cap,
                        senders: senders.clone(),
                        recv: recv.clone(),
                        stream_api: (out.len() % 2) == 1,
                        spurious,
                        sched: vec![],
                    });
                }
            }
        }
    }
    out
}

fn prog_strategy() -> impl Strategy<Value = SenderProg> {
    prop_oneof![
        3 => (1u8..=4).prop_map(|items| SenderProg::Send { items }),
        2 => (0u8..=4, any::<bool>(), any::<bool>()).prop_map(|(items, close, pause)| SenderProg::Sink { items, close, pause }),
        2 => (1u8..=3, 1u8..=3).prop_map(|(a, b)| SenderProg::Join { a, b }),
    ]
}

fn recv_strategy() -> impl Strategy<Value = RecvProg> {
    prop_oneof![
        4 => Just(RecvProg::All),
        1 => (0u8..=4).prop_map(RecvProg::CloseAfter),
        1 => (0u8..=4).prop_map(RecvProg::DropAfter),
    ]
}

pub fn run(ctx: &mut Ctx) {
    ctx.rule = "C16: case = (capacity 1..3 or unbounded, 1..3(4) sender task programs [sequential send().await | Sink poll_ready+start_send \
        (+poll_close) | join of two send chains], receiver program [recv to end | close() after k | drop after k], budget of polls of \
        parked-not-woken tasks, schedule = choice indices among enabled moves). Enumerated: depth-first over ALL schedules per small \
        configuration with state hashing (buffer, per-task progress, parked sends, woken set, ordered list of waker clones the channel \
        holds, budget), one case per leaf; random: bigger programs and deeper schedules. Every poll result is compared with a queue \
        model; at every point where no task is woken the quiescence invariant is evaluated. Non-trivial = >=2 sender tasks parked \
        simultaneously, or a task holding more registered wakers than parked sends. Distinct by case hash."
        .into();
    ctx.assume("polls are atomic (single thread): the queue model is exact");
    ctx.assume("Sink-interface senders call start_send in the same poll in which poll_ready returned Ready (no reservation is documented)");
    ctx.assume("cancelled (dropped while pending) send futures are a separate class, recorded as observations only: cancellation safety is not claimed by the property");
    let tier = ctx.tier();
    ctx.floor = 200;
    let depth = tier.pick(64usize, 96usize);

    let stats: Rc<RefCell<(u64, u64, u64)>> = Rc::new(RefCell::new((0, 0, 0)));
    let replay = ctx.is_replay();
    let configs = |tier: Tier, with_dups: bool| if replay { vec![] } else { configs(tier, with_dups) };
    let lazy_leaves = |cfgs: Vec<ChanCase>, stats: Rc<RefCell<(u64, u64, u64)>>| {
        cfgs.into_iter().flat_map(move |cfg| {
            let mut leaves = vec![];
            let mut st = (0u64, 0u64);
            enumerate_schedules(&cfg, depth, &mut leaves, &mut st);
            let mut s = stats.borrow_mut();
            s.0 += st.0;
            s.1 += st.1;
            s.2 += 1;
            leaves
        })
    };

    // (a) no duplicate registration possible: no spurious polls, no join tasks
    ctx.check_all(
        "chan-all-schedules-no-duplicate-registration",
        lazy_leaves(configs(tier, false), stats.clone()),
        run_case,
    );
    let st = std::mem::take(&mut *stats.borrow_mut());
    ctx.extra.insert(
        "dfs_no_duplicates".into(),
        vcommon::serde_json::json!({"configurations": st.2, "nodes": st.0, "pruned_revisits": st.1}),
    );

    // (b) with spurious polls and join tasks
    ctx.check_all(
        "chan-all-schedules-spurious-and-join",
        lazy_leaves(configs(tier, true), stats.clone()),
        run_case,
    );
    let st = std::mem::take(&mut *stats.borrow_mut());
    ctx.extra.insert(
        "dfs_with_duplicates".into(),
        vcommon::serde_json::json!({"configurations": st.2, "nodes": st.0, "pruned_revisits": st.1}),
    );

    // (c) cancelled sends: observation class only
    let mut cancel_cfgs = vec![];
    for other in [SenderProg::Send { items: 1 }, SenderProg::Send { items: 2 }] {
        for cap in [1u8, 2] {
            cancel_cfgs.push(ChanCase {
                cap,
                senders: vec![SenderProg::Cancel, other.clone(), SenderProg::Send { items: 1 }],
                recv: RecvProg::All,
                stream_api: false,
                spurious: 0,
                sched: vec![],
            });
        }
    }
    ctx.check_all("chan-cancelled-send-class", lazy_leaves(cancel_cfgs, stats.clone()), run_case);

    // (d) random deeper schedules
    let cases = tier.pick(300_000u32, 5_000_000u32);
    let strat = (
        0u8..=3,
        proptest::collection::vec(prog_strategy(), 1..=4),
        recv_strategy(),
        any::<bool>(),
        0u8..=4,
        proptest::collection::vec(any::<u8>(), 0..=80),
    )
        .prop_map(|(cap, senders, recv, stream_api, spurious, sched)| ChanCase {
            cap,
            senders,
            recv,
            stream_api,
            spurious,
            sched,
        });
    ctx.check("chan-random-schedules", cases, strat, run_case);
}
