//! Small harness-owned executor pieces: counting wakers and a thread-local registry of waker
//! clones (so the harness can observe, without reading private fields, which task's wakers the
//! code under test currently holds and in which order they were created).

use std::cell::RefCell;
use std::sync::atomic::{AtomicUsize, Ordering};
use std::sync::Arc;
use std::task::{RawWaker, RawWakerVTable, Wake, Waker};

/// A waker that only counts how often it was woken.
pub struct Flag {
    pub wakes: AtomicUsize,
}

impl Wake for Flag {
    fn wake(self: Arc<Self>) {
        self.wakes.fetch_add(1, Ordering::SeqCst);
    }
    fn wake_by_ref(self: &Arc<Self>) {
        self.wakes.fetch_add(1, Ordering::SeqCst);
    }
}

/// Task handle: a `Flag` plus the `Waker` made from it.
pub struct TaskWaker {
    pub flag: Arc<Flag>,
    pub waker: Waker,
}

impl TaskWaker {
    pub fn new() -> TaskWaker {
        let flag = Arc::new(Flag {
            wakes: AtomicUsize::new(0),
        });
        let waker = Waker::from(flag.clone());
        TaskWaker { flag, waker }
    }
    /// Was the task woken since the last call? (resets)
    pub fn take_woken(&self) -> bool {
        self.flag.wakes.swap(0, Ordering::SeqCst) > 0
    }
    pub fn is_woken(&self) -> bool {
        self.flag.wakes.load(Ordering::SeqCst) > 0
    }
    /// Number of clones of this waker held by somebody else than the harness.
    pub fn held(&self) -> usize {
        Arc::strong_count(&self.flag) - 2
    }
}

// ---------------------------------------------------------------------------------------------
// Registry wakers: every clone is a distinct node, the registry lists the live clones in
// creation order. Single-threaded use only (C16's channel is !Send anyway).

#[derive(Default)]
pub struct Registry {
    next_serial: u64,
    /// live non-root clones in creation order: (serial, task)
    pub live: Vec<(u64, usize)>,
    pub woken: Vec<bool>,
    /// number of wake calls per task since reset
    pub wake_calls: Vec<u32>,
}

thread_local! {
    static REG: RefCell<Registry> = RefCell::new(Registry::default());
}

struct Node {
    task: usize,
    serial: u64,
    root: bool,
}

pub fn reg_reset(tasks: usize) {
    REG.with(|r| {
        let mut r = r.borrow_mut();
        r.next_serial = 0;
        r.live.clear();
        r.woken = vec![false; tasks];
        r.wake_calls = vec![0; tasks];
    });
}

pub fn reg_with<R>(f: impl FnOnce(&mut Registry) -> R) -> R {
    REG.with(|r| f(&mut r.borrow_mut()))
}

/// Live clones (held by the code under test) of `task`'s waker.
pub fn reg_live_of(task: usize) -> usize {
    reg_with(|r| r.live.iter().filter(|(_, t)| *t == task).count())
}

pub fn reg_live_tasks() -> Vec<usize> {
    reg_with(|r| r.live.iter().map(|(_, t)| *t).collect())
}

pub fn reg_take_woken(task: usize) -> bool {
    reg_with(|r| std::mem::replace(&mut r.woken[task], false))
}

pub fn reg_is_woken(task: usize) -> bool {
    reg_with(|r| r.woken[task])
}

pub fn reg_set_woken(task: usize, v: bool) {
    reg_with(|r| r.woken[task] = v)
}

const VTABLE: RawWakerVTable = RawWakerVTable::new(rw_clone, rw_wake, rw_wake_by_ref, rw_drop);

unsafe fn rw_clone(p: *const ()) -> RawWaker {
    let n = &*(p as *const Node);
    let task = n.task;
    let serial = reg_with(|r| {
        let s = r.next_serial;
        r.next_serial += 1;
        r.live.push((s, task));
        s
    });
    let b = Box::new(Node {
        task,
        serial,
        root: false,
    });
    RawWaker::new(Box::into_raw(b) as *const (), &VTABLE)
}

unsafe fn rw_wake(p: *const ()) {
    let n = Box::from_raw(p as *mut Node);
    reg_with(|r| {
        if !n.root {
            r.live.retain(|(s, _)| *s != n.serial);
        }
        if n.task < r.woken.len() {
            r.woken[n.task] = true;
            r.wake_calls[n.task] += 1;
        }
    });
}

unsafe fn rw_wake_by_ref(p: *const ()) {
    let n = &*(p as *const Node);
    reg_with(|r| {
        if n.task < r.woken.len() {
            r.woken[n.task] = true;
            r.wake_calls[n.task] += 1;
        }
    });
}

unsafe fn rw_drop(p: *const ()) {
    let n = Box::from_raw(p as *mut Node);
    if !n.root {
        reg_with(|r| r.live.retain(|(s, _)| *s != n.serial));
    }
}

/// The harness-owned root waker of a task (not listed in `live`).
pub fn reg_root_waker(task: usize) -> Waker {
    let b = Box::new(Node {
        task,
        serial: u64::MAX,
        root: true,
    });
    // SAFETY: the vtable functions treat the pointer as a `Box<Node>`; `Node` is plain data and
    // the registry is thread-local (the wakers never leave this thread in the C16 harness).
    unsafe { Waker::from_raw(RawWaker::new(Box::into_raw(b) as *const (), &VTABLE)) }
}

/// All subsets of `0..k` with at most `max` elements, as sorted position lists.
pub fn subsets_upto(k: u8, max: usize) -> Vec<Vec<u8>> {
    let mut out = vec![vec![]];
    if max >= 1 {
        for a in 0..k {
            out.push(vec![a]);
        }
    }
    if max >= 2 {
        for a in 0..k {
            for b in a + 1..k {
                out.push(vec![a, b]);
            }
        }
    }
    if max >= 3 {
        for a in 0..k {
            for b in a + 1..k {
                for c in b + 1..k {
                    out.push(vec![a, b, c]);
                }
            }
        }
    }
    out
}
