//! C27 — no missed external wake-up in the `Dfir` runner (`run_tick` / `run_available` / `run`).
//!
//! The real `Dfir` is built around a scripted tick closure and polled by the harness. Hook H3
//! reports every program point of the runner to a thread-local callback; together with the
//! harness's own points (tick start / yield / end, runner parked) they form one global event
//! sequence. A wake event is "external data arrives, then `Context::waker()` fires"; it is
//! placed at an event index, either atomically (same thread, or a second OS thread joined inside
//! the callback) or split: a second OS thread performs `WakeState::wake_by_ref`, is held at the
//! `wake:stored` program point (after the flag store, before `task_waker.wake()`) and released
//! at a later event index — a general interleaving of the two threads at program-point
//! granularity under sequential consistency, made deterministic by channel handshakes.

use std::cell::{Cell, RefCell};
use std::future::Future;
use std::pin::Pin;
use std::rc::Rc;
use std::sync::atomic::{AtomicU64, Ordering};
use std::sync::mpsc as smpsc;
use std::sync::Mutex;
use std::task::{Context, Poll, Waker};

use dfir_rs::scheduled::context::{verif, Context as DfContext, Dfir};
use serde::{Deserialize, Serialize};
use vcommon::proptest;
use vcommon::proptest::prelude::*;
use vcommon::{Ctx, Fail, Obs, Tier};

use crate::util::TaskWaker;

#[derive(Clone, Copy, Debug, PartialEq, Eq, Hash, Serialize, Deserialize)]
pub enum Mode {
    /// `Dfir::run()` polled until quiescent
    Run,
    /// one `Dfir::run_available()` call polled to completion
    RunAvailable,
}

#[derive(Clone, Copy, Debug, PartialEq, Eq, Hash, Serialize, Deserialize)]
pub enum How {
    /// `waker.wake_by_ref()` called inline in the callback (same thread)
    Inline,
    /// called from a second OS thread, joined inside the callback
    Thread,
    /// second OS thread, held between the flag store and `task_waker.wake()` until event
    /// `complete_at`
    Split { complete_at: u32 },
}

#[derive(Clone, Copy, Debug, PartialEq, Eq, Hash, Serialize, Deserialize)]
pub struct WakeEv {
    /// global event index at which the data arrives and the wake starts
    pub at: u32,
    pub how: How,
}

#[derive(Clone, Debug, Default, PartialEq, Eq, Hash, Serialize, Deserialize)]
pub struct TickScript {
    /// ticks (by index) that yield once, waking themselves (like `yield_now`)
    pub yield_at: Vec<u8>,
    /// ticks that block on something external; the harness resolves it when the runner is parked
    pub block_at: Vec<u8>,
    /// ticks that call `context.schedule_subgraph(true)`
    pub self_schedule_at: Vec<u8>,
    /// ticks that report work
    pub had_work_at: Vec<u8>,
}

#[derive(Clone, Debug, PartialEq, Eq, Hash, Serialize, Deserialize)]
pub struct RunCase {
    pub mode: Mode,
    pub tick: TickScript,
    pub wakes: Vec<WakeEv>,
}

// ---------------------------------------------------------------------------------------------
// helper threads performing wakes

enum Job {
    Wake { waker: Waker, split: bool },
}

enum Msg {
    Stored,
    Done,
}

struct Worker {
    job_tx: smpsc::Sender<Job>,
    go_tx: smpsc::Sender<()>,
    msg_rx: smpsc::Receiver<Msg>,
}

thread_local! {
    static WORKER_SPLIT: Cell<bool> = const { Cell::new(false) };
}

fn spawn_worker() -> Worker {
    let (job_tx, job_rx) = smpsc::channel::<Job>();
    let (go_tx, go_rx) = smpsc::channel::<()>();
    let (msg_tx, msg_rx) = smpsc::channel::<Msg>();
    std::thread::spawn(move || {
        let go_rx = Rc::new(go_rx);
        let msg_tx2 = msg_tx.clone();
        let go2 = go_rx.clone();
        verif::set_callback(Some(Rc::new(move |name: &'static str| {
            if name == "wake:stored" && WORKER_SPLIT.with(|s| s.get()) {
                let _ = msg_tx2.send(Msg::Stored);
                let _ = go2.recv();
            }
        })));
        while let Ok(Job::Wake { waker, split }) = job_rx.recv() {
            WORKER_SPLIT.with(|s| s.set(split));
            waker.wake_by_ref();
            drop(waker);
            let _ = msg_tx.send(Msg::Done);
        }
    });
    Worker { job_tx, go_tx, msg_rx }
}

static WORKERS: Mutex<Vec<Worker>> = Mutex::new(Vec::new());
/// workers currently held at `wake:stored` (so that a panicking case cannot leave one behind)
static HELD: Mutex<Vec<usize>> = Mutex::new(Vec::new());

fn release_stale_workers() {
    let held: Vec<usize> = std::mem::take(&mut *HELD.lock().unwrap());
    for k in held {
        with_worker(k, |w| {
            let _ = w.go_tx.send(());
            let _ = w.msg_rx.recv();
        });
    }
}

fn with_worker<R>(i: usize, f: impl FnOnce(&Worker) -> R) -> R {
    let mut ws = WORKERS.lock().unwrap();
    while ws.len() <= i {
        ws.push(spawn_worker());
    }
    f(&ws[i])
}

// ---------------------------------------------------------------------------------------------
// harness state

#[derive(Clone, Copy, PartialEq, Eq, Debug)]
enum Phase {
    NotStarted,
    /// split wake: flag stored, second thread held before `task_waker.wake()`
    Held,
    Done,
}

struct H {
    case: RunCase,
    waker: Option<Waker>,
    idx: u32,
    log: Vec<(u32, &'static str)>,
    tick_starts: Vec<u32>,
    arrivals: Vec<Option<(u32, &'static str)>>,
    phases: Vec<Phase>,
    in_delivery: bool,
    tick_blocked: Option<Waker>,
    self_schedules: u32,
    /// index of the last `run_available:before_swap` event
    last_before_swap: Option<u32>,
    late: bool,
    /// event index at which the first wake phase was delivered late
    late_at: Option<u32>,
}

type HRef = Rc<RefCell<H>>;

fn event(h: &HRef, name: &'static str) {
    // 1. number and log the event (a tick start is ordered before wakes placed at its index)
    let (idx, todo) = {
        let mut hm = h.borrow_mut();
        if hm.in_delivery {
            return;
        }
        let idx = hm.idx;
        hm.idx += 1;
        hm.log.push((idx, name));
        if name == "tick:start" {
            hm.tick_starts.push(idx);
        }
        if name == "run_available:before_swap" {
            hm.last_before_swap = Some(idx);
        }
        let mut todo: Vec<(usize, bool)> = vec![]; // (wake, is_completion)
        for (k, w) in hm.case.wakes.iter().enumerate() {
            if hm.phases[k] == Phase::Held {
                if let How::Split { complete_at } = w.how {
                    if complete_at <= idx {
                        todo.push((k, true));
                    }
                }
            }
        }
        for (k, w) in hm.case.wakes.iter().enumerate() {
            if hm.phases[k] == Phase::NotStarted && w.at <= idx {
                todo.push((k, false));
                if let How::Split { complete_at } = w.how {
                    if complete_at <= idx {
                        todo.push((k, true));
                    }
                }
            }
        }
        (idx, todo)
    };
    for (k, completion) in todo {
        deliver(h, k, completion, idx, name);
    }
}

fn deliver(h: &HRef, k: usize, completion: bool, idx: u32, name: &'static str) {
    let (how, waker) = {
        let mut hm = h.borrow_mut();
        hm.in_delivery = true;
        if !completion {
            hm.arrivals[k] = Some((idx, name)); // the data is there before its waker fires
        }
        (hm.case.wakes[k].how, hm.waker.clone().expect("waker"))
    };
    match (how, completion) {
        (How::Inline, _) => {
            waker.wake_by_ref();
            h.borrow_mut().phases[k] = Phase::Done;
        }
        (How::Thread, _) => {
            with_worker(k, |w| {
                w.job_tx.send(Job::Wake { waker, split: false }).unwrap();
                match w.msg_rx.recv().unwrap() {
                    Msg::Done => {}
                    Msg::Stored => unreachable!("non-split wake reported a hold"),
                }
            });
            h.borrow_mut().phases[k] = Phase::Done;
        }
        (How::Split { .. }, false) => {
            with_worker(k, |w| {
                w.job_tx.send(Job::Wake { waker, split: true }).unwrap();
                match w.msg_rx.recv().unwrap() {
                    Msg::Stored => {}
                    Msg::Done => unreachable!("split wake finished without reaching wake:stored (hook H3 missing?)"),
                }
            });
            HELD.lock().unwrap().push(k);
            h.borrow_mut().phases[k] = Phase::Held;
        }
        (How::Split { .. }, true) => {
            with_worker(k, |w| {
                w.go_tx.send(()).unwrap();
                match w.msg_rx.recv().unwrap() {
                    Msg::Done => {}
                    Msg::Stored => unreachable!(),
                }
            });
            HELD.lock().unwrap().retain(|x| *x != k);
            h.borrow_mut().phases[k] = Phase::Done;
        }
    }
    h.borrow_mut().in_delivery = false;
}

/// Self-waking single yield inside a tick.
struct YieldOnce {
    h: HRef,
    yielded: bool,
}
impl Future for YieldOnce {
    type Output = ();
    fn poll(mut self: Pin<&mut Self>, cx: &mut Context<'_>) -> Poll<()> {
        if self.yielded {
            return Poll::Ready(());
        }
        self.yielded = true;
        cx.waker().wake_by_ref();
        event(&self.h, "tick:yield");
        Poll::Pending
    }
}

/// Blocks until the harness resolves it (it keeps the waker it was polled with).
struct BlockOnce {
    h: HRef,
    state: u8,
}
impl Future for BlockOnce {
    type Output = ();
    fn poll(mut self: Pin<&mut Self>, cx: &mut Context<'_>) -> Poll<()> {
        match self.state {
            0 => {
                self.state = 1;
                self.h.borrow_mut().tick_blocked = Some(cx.waker().clone());
                event(&self.h, "tick:block");
                Poll::Pending
            }
            1 => {
                if self.h.borrow().tick_blocked.is_some() {
                    // polled again before the harness resolved it: still blocked
                    self.h.borrow_mut().tick_blocked = Some(cx.waker().clone());
                    Poll::Pending
                } else {
                    self.state = 2;
                    Poll::Ready(())
                }
            }
            _ => Poll::Ready(()),
        }
    }
}

static RUNAWAY: AtomicU64 = AtomicU64::new(0);
const POLL_LIMIT: usize = 400;

pub struct Outcome {
    pub fail: Option<Fail>,
    /// index of the last event of the run
    pub last_idx: u32,
    /// some wake phase was only delivered because the run had gone quiescent / finished
    pub late: bool,
    pub late_at: Option<u32>,
    pub log: Vec<(u32, &'static str)>,
    pub arrivals: Vec<Option<(u32, &'static str)>>,
    pub ticks: usize,
}

pub fn execute(case: &RunCase) -> Outcome {
    release_stale_workers();
    let n = case.wakes.len();
    let h: HRef = Rc::new(RefCell::new(H {
        case: case.clone(),
        waker: None,
        idx: 0,
        log: vec![],
        tick_starts: vec![],
        arrivals: vec![None; n],
        phases: vec![Phase::NotStarted; n],
        in_delivery: false,
        tick_blocked: None,
        self_schedules: 0,
        last_before_swap: None,
        late: false,
        late_at: None,
    }));
    let script = case.tick.clone();
    let ht = h.clone();
    let tick_no = Rc::new(Cell::new(0u8));
    let tick = async move |ctx: &mut DfContext| -> bool {
        let j = tick_no.get();
        tick_no.set(j.saturating_add(1));
        event(&ht, "tick:start");
        if script.yield_at.contains(&j) {
            YieldOnce { h: ht.clone(), yielded: false }.await;
        }
        if script.block_at.contains(&j) {
            BlockOnce { h: ht.clone(), state: 0 }.await;
        }
        if script.self_schedule_at.contains(&j) {
            ht.borrow_mut().self_schedules += 1;
            ctx.schedule_subgraph(true);
        }
        event(&ht, "tick:end");
        ctx.__end_tick();
        script.had_work_at.contains(&j)
    };
    let df_ctx = DfContext::default();
    h.borrow_mut().waker = Some(df_ctx.waker());
    let mut df = Dfir::new(tick, df_ctx, None, None);

    let hc = h.clone();
    let prev = verif::set_callback(Some(Rc::new(move |name: &'static str| event(&hc, name))));
    let tw = TaskWaker::new();
    let mut fail: Option<Fail> = None;
    let mut polls = 0usize;
    let mut runaway = false;

    // resolves whatever is outstanding when the runner cannot run: returns true if something
    // was delivered / resolved (so the runner may have been woken)
    let settle = |h: &HRef| -> bool {
        // a parked runner is itself an event at which wakes can be placed
        event(h, "parked");
        if tw.is_woken() {
            return true;
        }
        // the tick is blocked on something external: it resolves now
        let blocked = h.borrow_mut().tick_blocked.take();
        if let Some(w) = blocked {
            event(h, "tick:resume");
            w.wake();
            return true;
        }
        // wake phases scheduled later than anything that can still happen: deliver the next
        let next = {
            let hm = h.borrow();
            let held = (0..hm.phases.len()).find(|k| hm.phases[*k] == Phase::Held);
            let not_started = (0..hm.phases.len()).find(|k| hm.phases[*k] == Phase::NotStarted);
            held.map(|k| (k, true)).or(not_started.map(|k| (k, false)))
        };
        if let Some((k, completion)) = next {
            let (idx, name) = {
                let mut hm = h.borrow_mut();
                hm.late = true;
                let at = hm.idx - 1;
                hm.late_at.get_or_insert(at);
                (at, "parked")
            };
            deliver(h, k, completion, idx, name);
            let how = h.borrow().case.wakes[k].how;
            if !completion && matches!(how, How::Split { .. }) {
                deliver(h, k, true, idx, name);
            }
            return true;
        }
        false
    };

    match case.mode {
        Mode::Run => {
            let mut fut = std::pin::pin!(df.run());
            let mut first = true;
            loop {
                if first || tw.take_woken() {
                    first = false;
                    polls += 1;
                    if polls > POLL_LIMIT {
                        runaway = true;
                        break;
                    }
                    let mut cx = Context::from_waker(&tw.waker);
                    let _ = fut.as_mut().poll(&mut cx); // `Never`: only ever Pending
                    continue;
                }
                if settle(&h) {
                    continue;
                }
                break; // quiescent
            }
        }
        Mode::RunAvailable => {
            let mut returned = false;
            {
                let mut fut = std::pin::pin!(df.run_available());
                let mut first = true;
                loop {
                    if first || tw.take_woken() {
                        first = false;
                        polls += 1;
                        if polls > POLL_LIMIT {
                            runaway = true;
                            break;
                        }
                        let mut cx = Context::from_waker(&tw.waker);
                        if fut.as_mut().poll(&mut cx).is_ready() {
                            returned = true;
                            break;
                        }
                        continue;
                    }
                    // parked inside run_available (tick blocked): resolve
                    let blocked = h.borrow_mut().tick_blocked.take();
                    if let Some(w) = blocked {
                        event(&h, "parked");
                        if !tw.is_woken() {
                            event(&h, "tick:resume");
                        }
                        w.wake();
                        continue;
                    }
                    break;
                }
            }
            if !returned && !runaway {
                fail = Some(Fail::new(
                    "dfir-run_available:parked-without-cause",
                    "run_available returned Pending, its waker was not woken and the tick is not blocked",
                ));
            }
            if returned {
                // release a held split wake (its store happened during the call)
                loop {
                    let held = {
                        let hm = h.borrow();
                        (0..hm.phases.len()).find(|k| hm.phases[*k] == Phase::Held)
                    };
                    let Some(k) = held else { break };
                    let idx = h.borrow().idx.saturating_sub(1);
                    h.borrow_mut().late = true;
                    h.borrow_mut().late_at.get_or_insert(idx);
                    deliver(&h, k, true, idx, "returned");
                }
                // wakes that arrived after the final flag swap are the caller's business: the
                // flag must still be set, i.e. the next run_tick reports an external event
                let (unserved_late, unserved_early) = {
                    let hm = h.borrow();
                    let mut late = vec![];
                    let mut early = vec![];
                    for (k, a) in hm.arrivals.iter().enumerate() {
                        if let Some((a, name)) = a {
                            if !hm.tick_starts.iter().any(|s| s > a) {
                                if hm.last_before_swap.is_some_and(|b| *a > b) {
                                    late.push((k, *a, *name));
                                } else {
                                    early.push((k, *a, *name));
                                }
                            }
                        }
                    }
                    (late, early)
                };
                if let Some((k, a, name)) = unserved_early.first() {
                    fail = Some(Fail::new(
                        "dfir-run_available:wake-before-final-swap-unserved",
                        format!(
                            "wake {k} arrived at event {a} ({name}), before the final flag swap of run_available, but no tick started after it before run_available returned"
                        ),
                    ));
                } else if !unserved_late.is_empty() {
                    let mut f2 = std::pin::pin!(df.run_tick());
                    let mut cx = Context::from_waker(&tw.waker);
                    let mut res = None;
                    for _ in 0..8 {
                        match f2.as_mut().poll(&mut cx) {
                            Poll::Ready(r) => {
                                res = Some(r);
                                break;
                            }
                            Poll::Pending => {
                                let blocked = h.borrow_mut().tick_blocked.take();
                                if let Some(w) = blocked {
                                    w.wake();
                                }
                            }
                        }
                    }
                    if res != Some(true) {
                        let (k, a, name) = unserved_late[0];
                        fail = Some(Fail::new(
                            "dfir-run_available:late-wake-flag-lost",
                            format!(
                                "wake {k} arrived at event {a} ({name}), after the final flag swap of run_available; the following run_tick returned {res:?} instead of Some(true) (external event flag lost)"
                            ),
                        ));
                    }
                }
            }
        }
    }
    verif::set_callback(prev);

    // make sure no helper thread is left held
    loop {
        let held = {
            let hm = h.borrow();
            (0..hm.phases.len()).find(|k| hm.phases[*k] == Phase::Held)
        };
        let Some(k) = held else { break };
        deliver(&h, k, true, 0, "cleanup");
    }

    let hm = h.borrow();
    if runaway {
        RUNAWAY.fetch_add(1, Ordering::SeqCst);
    } else if fail.is_none() && case.mode == Mode::Run {
        // quiescent: every wake must have been followed by a tick start
        for (k, a) in hm.arrivals.iter().enumerate() {
            if let Some((a, name)) = a {
                if !hm.tick_starts.iter().any(|s| s > a) {
                    fail = Some(Fail::new(
                        "dfir-run:quiescent-with-unserved-wake",
                        format!(
                            "wake {k} ({:?}) arrived at event {a} ({name}); the runner is now parked, its waker is not woken, nothing is outstanding, and no tick started after the wake. Events: {}",
                            hm.case.wakes[k].how,
                            hm.log.iter().map(|(i, n)| format!("{i}:{n}")).collect::<Vec<_>>().join(" ")
                        ),
                    ));
                    break;
                }
            }
        }
    }
    Outcome {
        fail,
        last_idx: hm.idx.saturating_sub(1),
        late: hm.late,
        late_at: hm.late_at,
        log: hm.log.clone(),
        arrivals: hm.arrivals.clone(),
        ticks: hm.tick_starts.len(),
    }
}

pub fn run_case(case: &RunCase, obs: &mut Obs) -> Result<(), Fail> {
    if std::env::var_os("VERIF_TRACE").is_some() {
        eprintln!("case {}", vcommon::serde_json::to_string(case).unwrap());
    }
    let out = execute(case);
    if let Some(f) = out.fail {
        return Err(f);
    }
    // classes / non-trivial rule
    let mut nontrivial = false;
    for a in out.arrivals.iter().flatten() {
        let name = a.1;
        obs.class(format!("wake-at:{name}"));
        // the windows DESIGN names: between the last swap(false) of run_available and the
        // registration in run, or between registration and the flag load
        if matches!(
            name,
            "run_available:swapped" | "run:before_idle" | "run:idle_before_register" | "run:idle_registered" | "run:idle_pending"
        ) {
            nontrivial = true;
        }
    }
    for w in &case.wakes {
        if let How::Split { .. } = w.how {
            nontrivial = true;
            obs.class("split-wake(second-thread-held-between-store-and-wake)");
        }
        if w.how == How::Thread {
            obs.class("wake-from-second-thread");
        }
    }
    obs.nontrivial(nontrivial);
    let self_sched = case.tick.self_schedule_at.len();
    if out.ticks > 1 + case.wakes.len() + self_sched {
        obs.class("observation:more-ticks-than-1+wakes+self-schedules");
    }
    if out.late {
        obs.class("a-wake-phase-fell-on-the-final-park");
    }
    Ok(())
}

// ---------------------------------------------------------------------------------------------
// enumeration

fn tick_scripts(tier: Tier) -> Vec<TickScript> {
    let t = |y: &[u8], b: &[u8], s: &[u8], w: &[u8]| TickScript {
        yield_at: y.to_vec(),
        block_at: b.to_vec(),
        self_schedule_at: s.to_vec(),
        had_work_at: w.to_vec(),
    };
    let mut v = vec![
        t(&[], &[], &[], &[]),
        t(&[0], &[], &[], &[]),
        t(&[1], &[], &[], &[0]),
        t(&[], &[0], &[], &[]),
        t(&[], &[], &[0], &[]),
        t(&[], &[1], &[1], &[1]),
    ];
    if tier == Tier::Thorough {
        v.extend([
            t(&[0, 1], &[], &[], &[]),
            t(&[], &[0, 1], &[], &[]),
            t(&[0], &[1], &[0], &[]),
            t(&[], &[], &[0, 1], &[0, 1]),
            t(&[2], &[], &[], &[]),
            t(&[], &[2], &[0], &[]),
        ]);
    }
    v
}

/// All placements of the wake kinds `kinds` (in order, non-decreasing positions): positions range
/// over every event index up to and including the final park of the run so far.
fn enumerate_wakes(mode: Mode, tick: &TickScript, kinds: &[u8], out: &mut Vec<RunCase>) {
    // kinds: 0 inline, 1 thread, 2 split
    fn rec(mode: Mode, tick: &TickScript, kinds: &[u8], wakes: &mut Vec<WakeEv>, from: u32, out: &mut Vec<RunCase>) {
        if wakes.len() == kinds.len() {
            out.push(RunCase { mode, tick: tick.clone(), wakes: wakes.clone() });
            return;
        }
        let base = execute(&RunCase { mode, tick: tick.clone(), wakes: wakes.clone() });
        let last = base.last_idx;
        let kind = kinds[wakes.len()];
        for at in from..=last {
            match kind {
                0 | 1 => {
                    wakes.push(WakeEv { at, how: if kind == 0 { How::Inline } else { How::Thread } });
                    rec(mode, tick, kinds, wakes, at, out);
                    wakes.pop();
                }
                _ => {
                    // held until the very end first, to learn how long the run gets
                    wakes.push(WakeEv { at, how: How::Split { complete_at: u32::MAX } });
                    let held = execute(&RunCase { mode, tick: tick.clone(), wakes: wakes.clone() });
                    wakes.pop();
                    for c in at..=held.late_at.unwrap_or(held.last_idx) {
                        wakes.push(WakeEv { at, how: How::Split { complete_at: c } });
                        rec(mode, tick, kinds, wakes, at, out);
                        wakes.pop();
                    }
                }
            }
        }
    }
    rec(mode, tick, kinds, &mut vec![], 0, out);
}

pub fn run(ctx: &mut Ctx) {
    ctx.rule = "C27: case = (entry point run()/run_available(), tick script [ticks that yield once / block on something external / \
        call schedule_subgraph(true) / report work], <=2 (3) wake events each = (global event index, inline | second OS thread | \
        second OS thread held between the flag store and task_waker.wake() until a later event index)). Events = every H3 program \
        point of the runner + tick start/yield/block/end + 'runner parked'. Enumerated: ALL placements of 1 and 2 wakes (any kinds) over every \
        event index up to the final park, for every tick script, 3 inline wakes and 2 split wakes for the first scripts; random: 3 wakes, longer scripts. Oracle: at quiescence every wake \
        is followed by a tick start. Non-trivial = a wake placed in the window between run_available's last swap(false) and the \
        flag load after registration in run(), or a split wake. Distinct by case hash."
        .into();
    ctx.assume("program-point granularity under sequential consistency: Relaxed atomics on weak memory and preemption inside AtomicWaker::register/wake are out of reach");
    ctx.assume("a wake = data arrival followed by Context::waker().wake_by_ref(); a tick serves the data iff the tick closure is entered after the arrival");
    ctx.assume("run_available() alone: a wake that arrives after its final flag swap is served by the caller; checked via the next run_tick() reporting true");
    let tier = ctx.tier();
    ctx.floor = 100;
    let scripts = tick_scripts(tier);
    let replay = ctx.is_replay();
    let mut cases: Vec<RunCase> = vec![];
    if !replay {
        for mode in [Mode::Run, Mode::RunAvailable] {
            for tick in &scripts {
                for kinds in [vec![0u8], vec![1], vec![2], vec![0, 0], vec![0, 1], vec![1, 0], vec![1, 1]] {
                    enumerate_wakes(mode, tick, &kinds, &mut cases);
                }
            }
        }
        // three atomic wakes on the simplest scripts
        for tick in scripts.iter().take(tier.pick(2, 6)) {
            enumerate_wakes(Mode::Run, tick, &[0, 0, 0], &mut cases);
        }
    }
    ctx.check_all("wakes-1-2-3-all-placements", cases, run_case);
    // one split + one atomic, both orders; two splits
    let mut cases: Vec<RunCase> = vec![];
    if !replay {
        for mode in [Mode::Run, Mode::RunAvailable] {
            for tick in &scripts {
                for kinds in [vec![2u8, 0], vec![0, 2]] {
                    enumerate_wakes(mode, tick, &kinds, &mut cases);
                }
            }
        }
        for tick in scripts.iter().take(tier.pick(2, 6)) {
            enumerate_wakes(Mode::Run, tick, &[2, 2], &mut cases);
        }
    }
    ctx.check_all("wakes-2-with-split-all-placements", cases, run_case);

    let n = tier.pick(100_000u32, 2_000_000u32);
    let how = prop_oneof![
        2 => Just(0u8),
        1 => Just(1u8),
        2 => Just(2u8),
    ];
    let strat = (
        prop_oneof![3 => Just(Mode::Run), 1 => Just(Mode::RunAvailable)],
        proptest::collection::vec((0u32..70, how, 0u32..40), 1..=3),
        proptest::collection::vec(0u8..5, 0..=2),
        proptest::collection::vec(0u8..5, 0..=2),
        proptest::collection::vec(0u8..5, 0..=2),
        proptest::collection::vec(0u8..5, 0..=2),
    )
        .prop_map(|(mode, ws, yield_at, block_at, self_schedule_at, had_work_at)| {
            let mut wakes: Vec<WakeEv> = ws
                .into_iter()
                .map(|(at, k, d)| WakeEv {
                    at,
                    how: match k {
                        0 => How::Inline,
                        1 => How::Thread,
                        _ => How::Split { complete_at: at + d },
                    },
                })
                .collect();
            wakes.sort_by_key(|w| w.at);
            RunCase {
                mode,
                tick: TickScript { yield_at, block_at, self_schedule_at, had_work_at },
                wakes,
            }
        });
    ctx.check("wakes-random", n, strat, run_case);
    let r = RUNAWAY.load(Ordering::SeqCst);
    if r > 0 {
        ctx.inconclusive(format!("{r} runs exceeded the poll limit (runner busy-looping?): not a statement about missed wake-ups"));
    }
}
