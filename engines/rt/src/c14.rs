//! C14 — sinktools adaptors: routing / order / exactly-once / `start_send` only after a successful
//! `poll_ready`, lazy initialisation at most once and losing nothing.
//!
//! Terminal sinks are recording sinks whose `poll_ready` / `poll_flush` / `poll_close` answers
//! are scripted (the call indices at which they answer `Pending`). The harness drives the
//! adaptor with a hand-written executor: after `Pending` it fires the wakers the scripted
//! leaves stored (the readiness event) and checks that the driving task was woken.

use std::cell::{Cell, RefCell};
use std::collections::HashMap;
use std::future::Future;
use std::pin::Pin;
use std::rc::Rc;
use std::task::{Context, Poll, Waker};

use futures::{Sink, Stream};
use serde::{Deserialize, Serialize};
use sinktools::lazy::{LazySink, LazySource};
use sinktools::lazy_sink_source::LazySinkSource;
use sinktools::{SinkBuild, SinkBuilder, ToSinkBuild};
use vcommon::proptest;
use vcommon::proptest::prelude::*;
use vcommon::{Ctx, Fail, Obs, Tier};

use crate::util::{subsets_upto, TaskWaker};

// ---------------------------------------------------------------------------------------------
// Case data

/// Call indices (per method, 0-based) at which a terminal sink answers `Pending`.
#[derive(Clone, Debug, Default, PartialEq, Eq, Hash, Serialize, Deserialize)]
pub struct Script {
    pub ready: Vec<u8>,
    pub flush: Vec<u8>,
    pub close: Vec<u8>,
}

#[derive(Clone, Debug, PartialEq, Eq, Hash, Serialize, Deserialize)]
pub struct SinkCase {
    pub subject: String,
    /// input items; each subject derives its routing class from `x % 3`
    pub items: Vec<u8>,
    /// scripts of the terminal sinks (missing entries = always ready)
    pub sinks: Vec<Script>,
    /// true: a terminal sink that answered Ready stays ready until `start_send` (like a real
    /// channel sink); false: every `poll_ready` call consumes the next scripted answer
    pub sticky: bool,
    /// driver flushes after the items with these indices
    pub flush_after: Vec<u8>,
    /// driver flushes before closing
    pub final_flush: bool,
    /// lazy subjects: number of `Pending` answers of the initialisation future
    pub init_pending: u8,
    /// scripted stream (send_stream, lazy sources): true = Pending, false = next item
    pub src: Vec<bool>,
    /// LazySinkSource: which half is stepped next (true = sink half)
    pub sched: Vec<bool>,
}

impl SinkCase {
    fn new(subject: &str, items: Vec<u8>) -> SinkCase {
        SinkCase {
            subject: subject.to_string(),
            items,
            sinks: vec![],
            sticky: true,
            flush_after: vec![],
            final_flush: true,
            init_pending: 0,
            src: vec![],
            sched: vec![],
        }
    }
}

// ---------------------------------------------------------------------------------------------
// Environment shared by the scripted leaves

#[derive(Clone, Copy, Debug, PartialEq, Eq)]
enum Ev {
    Ready(usize, bool),
    Send(usize, u32),
    Flush(usize, bool),
    Close(usize, bool),
}

#[derive(Default)]
struct Env {
    log: RefCell<Vec<Ev>>,
    /// wakers stored by leaves that answered Pending (the pending readiness events)
    wakers: RefCell<Vec<Waker>>,
    viol: RefCell<Option<Fail>>,
    /// per sink: number of polls that returned Pending (for the non-trivial rule)
    pend_polls: RefCell<Vec<(usize, usize)>>, // (sink, driver poll number)
    driver_poll: Cell<usize>,
    inspected: RefCell<Vec<u32>>,
    factory_calls: RefCell<HashMap<u32, u32>>,
    init_calls: Cell<u32>,
    init_polls: Cell<u32>,
    init_polled_after_ready: Cell<bool>,
    src_polled_after_end: Cell<bool>,
    buffered_during_init: Cell<bool>,
    /// known finding: LazyDemuxSink sent into a sink it had just created without any poll_ready
    fresh_send: RefCell<Option<String>>,
}

impl Env {
    fn violate(&self, sig: &str, msg: String) {
        let mut v = self.viol.borrow_mut();
        if v.is_none() {
            *v = Some(Fail::new(sig, msg));
        }
    }
    fn sent(&self, sink: usize) -> Vec<u32> {
        self.log
            .borrow()
            .iter()
            .filter_map(|e| match e {
                Ev::Send(s, x) if *s == sink => Some(*x),
                _ => None,
            })
            .collect()
    }
    fn note_pending(&self, sink: usize, cx: &Context<'_>) {
        self.wakers.borrow_mut().push(cx.waker().clone());
        self.pend_polls.borrow_mut().push((sink, self.driver_poll.get()));
    }
}

/// Error type of the scripted sinks (never produced: error injection is off).
#[derive(Debug, Clone, PartialEq, Eq)]
pub struct E;

struct RecSink {
    id: usize,
    script: Script,
    sticky: bool,
    n_ready: u8,
    n_flush: u8,
    n_close: u8,
    /// the latest `poll_ready` since the last `start_send` answered Ready(Ok)
    reserved: bool,
    /// created by the `demux_map_lazy` factory and never polled for readiness so far
    fresh_lazy: bool,
    env: Rc<Env>,
}

impl RecSink {
    fn new(id: usize, case: &SinkCase, env: &Rc<Env>) -> RecSink {
        RecSink {
            id,
            script: case.sinks.get(id).cloned().unwrap_or_default(),
            sticky: case.sticky,
            n_ready: 0,
            n_flush: 0,
            n_close: 0,
            reserved: false,
            fresh_lazy: false,
            env: env.clone(),
        }
    }
}

impl Sink<u32> for RecSink {
    type Error = E;
    fn poll_ready(self: Pin<&mut Self>, cx: &mut Context<'_>) -> Poll<Result<(), E>> {
        let me = self.get_mut();
        me.fresh_lazy = false;
        if me.sticky && me.reserved {
            me.env.log.borrow_mut().push(Ev::Ready(me.id, true));
            return Poll::Ready(Ok(()));
        }
        let idx = me.n_ready;
        me.n_ready = me.n_ready.saturating_add(1);
        if me.script.ready.contains(&idx) {
            me.reserved = false;
            me.env.log.borrow_mut().push(Ev::Ready(me.id, false));
            me.env.note_pending(me.id, cx);
            Poll::Pending
        } else {
            me.reserved = true;
            me.env.log.borrow_mut().push(Ev::Ready(me.id, true));
            Poll::Ready(Ok(()))
        }
    }
    fn start_send(self: Pin<&mut Self>, item: u32) -> Result<(), E> {
        let me = self.get_mut();
        if !me.reserved && me.fresh_lazy {
            // exact class of the known finding: the very first call on a sink that
            // LazyDemuxSink::start_send has just created is start_send, with no poll_ready at all
            me.fresh_lazy = false;
            me.env.fresh_send.borrow_mut().get_or_insert_with(|| {
                format!(
                    "LazyDemuxSink::start_send created the sink for key {} and called start_send({item}) on it without any poll_ready",
                    me.id
                )
            });
        } else if !me.reserved {
            me.env.violate(
                "sink:start_send-without-ready",
                format!(
                    "terminal sink {}: start_send({item}) although its latest poll_ready did not return Ready(Ok)",
                    me.id
                ),
            );
        }
        me.reserved = false;
        me.env.log.borrow_mut().push(Ev::Send(me.id, item));
        Ok(())
    }
    fn poll_flush(self: Pin<&mut Self>, cx: &mut Context<'_>) -> Poll<Result<(), E>> {
        let me = self.get_mut();
        let idx = me.n_flush;
        me.n_flush = me.n_flush.saturating_add(1);
        if me.script.flush.contains(&idx) {
            me.env.log.borrow_mut().push(Ev::Flush(me.id, false));
            me.env.note_pending(me.id, cx);
            Poll::Pending
        } else {
            me.env.log.borrow_mut().push(Ev::Flush(me.id, true));
            Poll::Ready(Ok(()))
        }
    }
    fn poll_close(self: Pin<&mut Self>, cx: &mut Context<'_>) -> Poll<Result<(), E>> {
        let me = self.get_mut();
        let idx = me.n_close;
        me.n_close = me.n_close.saturating_add(1);
        if me.script.close.contains(&idx) {
            me.env.log.borrow_mut().push(Ev::Close(me.id, false));
            me.env.note_pending(me.id, cx);
            Poll::Pending
        } else {
            me.env.log.borrow_mut().push(Ev::Close(me.id, true));
            Poll::Ready(Ok(()))
        }
    }
}

/// Scripted stream: `true` = Pending, `false` = next item from `items`; then ended (fused).
struct ScriptStream {
    items: Vec<u32>,
    next: usize,
    script: Vec<bool>,
    pos: usize,
    ended: bool,
    env: Rc<Env>,
}

impl ScriptStream {
    fn new(items: Vec<u32>, script: &[bool], env: &Rc<Env>) -> ScriptStream {
        ScriptStream {
            items,
            next: 0,
            script: script.to_vec(),
            pos: 0,
            ended: false,
            env: env.clone(),
        }
    }
}

impl Stream for ScriptStream {
    type Item = u32;
    fn poll_next(self: Pin<&mut Self>, cx: &mut Context<'_>) -> Poll<Option<u32>> {
        let me = self.get_mut();
        if me.ended {
            me.env.src_polled_after_end.set(true);
            return Poll::Ready(None);
        }
        // script entries are consumed one per poll: true = Pending, false = next item
        let step = me.script.get(me.pos).copied();
        if step.is_some() {
            me.pos += 1;
        }
        if step == Some(true) {
            me.env.note_pending(usize::MAX, cx);
            return Poll::Pending;
        }
        if me.next < me.items.len() {
            me.next += 1;
            Poll::Ready(Some(me.items[me.next - 1]))
        } else {
            me.ended = true;
            Poll::Ready(None)
        }
    }
}

/// Scripted initialisation future.
struct InitFut<T> {
    pend_left: u8,
    out: Option<T>,
    env: Rc<Env>,
}

impl<T: Unpin> Future for InitFut<T> {
    type Output = Result<T, E>;
    fn poll(self: Pin<&mut Self>, cx: &mut Context<'_>) -> Poll<Self::Output> {
        let me = self.get_mut();
        me.env.init_polls.set(me.env.init_polls.get() + 1);
        if me.out.is_none() {
            me.env.init_polled_after_ready.set(true);
            me.env.violate(
                "lazy:init-polled-after-completion",
                "the initialisation future was polled again after it completed".to_string(),
            );
            return Poll::Pending;
        }
        if me.pend_left > 0 {
            me.pend_left -= 1;
            me.env.note_pending(usize::MAX - 1, cx);
            Poll::Pending
        } else {
            Poll::Ready(Ok(me.out.take().unwrap()))
        }
    }
}

// ---------------------------------------------------------------------------------------------
// Reference model: what each terminal sink must receive

fn f_map(x: u8) -> u32 {
    x as u32 * 3 + 1
}
fn f_keep(x: u8) -> bool {
    x % 3 != 0
}
fn f_fm(x: u8) -> Option<u32> {
    if x % 3 != 1 {
        Some(x as u32 / 2 + 50)
    } else {
        None
    }
}
fn f_flat(x: u8) -> Vec<u32> {
    (0..(x % 3) as u32).map(|i| x as u32 * 10 + i).collect()
}

/// Expected per-terminal-sink sequences for `items`.
fn expected(subject: &str, items: &[u8]) -> Vec<Vec<u32>> {
    let one = |v: Vec<u32>| vec![v];
    match subject {
        "map" | "send_iter" | "send_iter_build" => one(items.iter().map(|x| f_map(*x)).collect()),
        "filter" => one(items.iter().filter(|x| f_keep(**x)).map(|x| *x as u32).collect()),
        "filter_map" => one(items.iter().filter_map(|x| f_fm(*x)).collect()),
        "flat_map" | "flatten" | "chain_flatten_for_each" => one(items.iter().flat_map(|x| f_flat(*x)).collect()),
        "inspect" | "for_each" | "try_for_each" | "lazy_sink" | "send_stream" | "send_stream_build" => {
            one(items.iter().map(|x| *x as u32).collect())
        }
        "unzip" | "chain_unzip" => vec![
            items.iter().map(|x| *x as u32).collect(),
            items.iter().map(|x| *x as u32 + 100).collect(),
        ],
        "demux_map" | "demux_map_lazy" | "demux_var" | "chain_demux_var" | "chain_demux_map" => (0..3u8)
            .map(|k| items.iter().filter(|x| **x % 3 == k).map(|x| *x as u32).collect())
            .collect(),
        "chain_map_filter_flat" => one(
            items
                .iter()
                .map(|x| x.wrapping_add(1))
                .filter(|x| f_keep(*x))
                .flat_map(f_flat)
                .collect(),
        ),
        "lazy_flat_map" => one(items.iter().flat_map(|x| f_flat(*x)).collect()),
        other => panic!("unknown subject {other}"),
    }
}

fn n_sinks(subject: &str) -> usize {
    match subject {
        "unzip" | "chain_unzip" => 2,
        "demux_map" | "demux_map_lazy" | "demux_var" | "chain_demux_var" | "chain_demux_map" => 3,
        _ => 1,
    }
}

// ---------------------------------------------------------------------------------------------
// Driver

struct Driver {
    env: Rc<Env>,
    tw: TaskWaker,
    polls_left: usize,
}

impl Driver {
    fn new(env: &Rc<Env>, case: &SinkCase) -> Driver {
        let scripted: usize = case
            .sinks
            .iter()
            .map(|s| s.ready.len() + s.flush.len() + s.close.len())
            .sum::<usize>()
            + case.init_pending as usize
            + case.src.len();
        Driver {
            env: env.clone(),
            tw: TaskWaker::new(),
            polls_left: 4 * scripted + 4 * case.items.len() + 16,
        }
    }

    /// Poll `f` until it is ready, firing the stored readiness events after each `Pending`.
    fn until_ready<T>(
        &mut self,
        what: &str,
        mut f: impl FnMut(&mut Context<'_>) -> Poll<Result<T, E>>,
    ) -> Result<T, Fail> {
        loop {
            self.env.driver_poll.set(self.env.driver_poll.get() + 1);
            self.env.wakers.borrow_mut().clear();
            self.tw.take_woken();
            let r = {
                let mut cx = Context::from_waker(&self.tw.waker);
                f(&mut cx)
            };
            if let Some(v) = self.env.viol.borrow().clone() {
                return Err(v);
            }
            match r {
                Poll::Ready(Ok(t)) => return Ok(t),
                Poll::Ready(Err(_)) => {
                    return Err(Fail::new(
                        format!("sink:{what}:unexpected-error"),
                        format!("{what} returned an error although no leaf produced one"),
                    ))
                }
                Poll::Pending => {
                    let ws: Vec<Waker> = self.env.wakers.borrow_mut().drain(..).collect();
                    if ws.is_empty() {
                        return Err(Fail::new(
                            format!("sink:{what}:pending-without-cause"),
                            format!("{what} returned Pending although every leaf it polled was ready"),
                        ));
                    }
                    for w in ws {
                        w.wake();
                    }
                    if !self.tw.take_woken() {
                        return Err(Fail::new(
                            format!("sink:{what}:lost-wakeup"),
                            format!("{what} returned Pending but the task was not woken when the pending leaves became ready"),
                        ));
                    }
                    if self.polls_left == 0 {
                        return Err(Fail::new(
                            format!("sink:{what}:no-progress"),
                            format!("{what} still Pending after every scripted Pending was consumed"),
                        ));
                    }
                    self.polls_left -= 1;
                }
            }
        }
    }
}

fn check_delivered(env: &Env, subject: &str, sent_items: &[u8], when: &str) -> Result<(), Fail> {
    let want = expected(subject, sent_items);
    for (s, w) in want.iter().enumerate() {
        let got = env.sent(s);
        if &got != w {
            return Err(Fail::new(
                format!("sink:{subject}:wrong-delivery"),
                format!("{when}: terminal sink {s} received {got:?}, expected {w:?}"),
            ));
        }
    }
    Ok(())
}

/// Drive a `Sink<I>`: ready/send per item, optional mid flushes, final flush, close.
fn drive<I, S: Sink<I, Error = E>>(
    sink: S,
    inputs: Vec<I>,
    case: &SinkCase,
    env: &Rc<Env>,
) -> Result<(), Fail> {
    let mut sink = std::pin::pin!(sink);
    let mut d = Driver::new(env, case);
    for (k, item) in inputs.into_iter().enumerate() {
        d.until_ready("poll_ready", |cx| sink.as_mut().poll_ready(cx))?;
        if sink.as_mut().start_send(item).is_err() {
            return Err(Fail::new("sink:start_send:unexpected-error", "start_send returned an error"));
        }
        if let Some(v) = env.viol.borrow().clone() {
            return Err(v);
        }
        if case.flush_after.contains(&(k as u8)) {
            d.until_ready("poll_flush", |cx| sink.as_mut().poll_flush(cx))?;
            check_delivered(env, &case.subject, &case.items[..=k], "after a completed poll_flush")?;
        }
    }
    if case.final_flush {
        d.until_ready("poll_flush", |cx| sink.as_mut().poll_flush(cx))?;
        check_delivered(env, &case.subject, &case.items, "after the final poll_flush")?;
    }
    d.until_ready("poll_close", |cx| sink.as_mut().poll_close(cx))?;
    check_delivered(env, &case.subject, &case.items, "after poll_close")?;
    Ok(())
}

/// Drive a future to completion.
fn drive_future<F: Future<Output = Result<(), E>>>(fut: F, case: &SinkCase, env: &Rc<Env>) -> Result<(), Fail> {
    let mut fut = std::pin::pin!(fut);
    let mut d = Driver::new(env, case);
    d.until_ready("future", |cx| fut.as_mut().poll(cx))?;
    check_delivered(env, &case.subject, &case.items, "after the send future completed")
}

fn boxed<I: 'static>(s: impl Sink<I, Error = E> + 'static) -> Pin<Box<dyn Sink<I, Error = E>>> {
    Box::pin(s)
}

pub fn run_case(case: &SinkCase, obs: &mut Obs) -> Result<(), Fail> {
    let env = Rc::new(Env::default());
    let items = case.items.clone();
    let rec = |id: usize| RecSink::new(id, case, &env);
    let subject = case.subject.as_str();
    let r: Result<(), Fail> = match subject {
        "map" => drive(sinktools::map(f_map, rec(0)), items.clone(), case, &env),
        "filter" => drive(
            sinktools::filter(|x: &u32| f_keep(*x as u8), rec(0)),
            items.iter().map(|x| *x as u32).collect(),
            case,
            &env,
        ),
        "filter_map" => drive(sinktools::filter_map(f_fm, rec(0)), items.clone(), case, &env),
        "flat_map" => drive(sinktools::flat_map(f_flat, rec(0)), items.clone(), case, &env),
        "flatten" => drive(
            sinktools::flatten::<Vec<u32>, _>(rec(0)),
            items.iter().map(|x| f_flat(*x)).collect(),
            case,
            &env,
        ),
        "inspect" => {
            let e2 = env.clone();
            let r = drive(
                sinktools::inspect(move |x: &u32| e2.inspected.borrow_mut().push(*x), rec(0)),
                items.iter().map(|x| *x as u32).collect(),
                case,
                &env,
            );
            r.and_then(|()| {
                let want: Vec<u32> = items.iter().map(|x| *x as u32).collect();
                if *env.inspected.borrow() != want {
                    Err(Fail::new(
                        "sink:inspect:wrong-inspection",
                        format!("inspect closure saw {:?}, expected {want:?}", env.inspected.borrow()),
                    ))
                } else {
                    Ok(())
                }
            })
        }
        "unzip" => drive(
            sinktools::unzip(rec(0), rec(1)),
            items.iter().map(|x| (*x as u32, *x as u32 + 100)).collect(),
            case,
            &env,
        ),
        "for_each" => {
            let e2 = env.clone();
            let s = sinktools::for_each(move |x: u32| e2.log.borrow_mut().push(Ev::Send(0, x)));
            drive(
                SinkErr(s),
                items.iter().map(|x| *x as u32).collect(),
                case,
                &env,
            )
        }
        "try_for_each" => {
            let e2 = env.clone();
            let s = sinktools::try_for_each(move |x: u32| {
                e2.log.borrow_mut().push(Ev::Send(0, x));
                Ok::<(), E>(())
            });
            drive(s, items.iter().map(|x| *x as u32).collect(), case, &env)
        }
        "demux_map" => {
            let sinks: HashMap<u8, RecSink> = (0..3u8).map(|k| (k, rec(k as usize))).collect();
            drive(
                sinktools::demux_map(sinks),
                items.iter().map(|x| (*x % 3, *x as u32)).collect(),
                case,
                &env,
            )
        }
        "demux_map_lazy" => {
            let e2 = env.clone();
            let case2 = case.clone();
            let s = sinktools::demux_map_lazy(move |k: &u8| {
                *e2.factory_calls.borrow_mut().entry(*k as u32).or_default() += 1;
                let mut s = RecSink::new(*k as usize, &case2, &e2);
                s.fresh_lazy = true;
                s
            });
            let r = drive(s, items.iter().map(|x| (*x % 3, *x as u32)).collect(), case, &env);
            r.and_then(|()| {
                for k in 0..3u8 {
                    let want = u32::from(items.iter().any(|x| *x % 3 == k));
                    let got = env.factory_calls.borrow().get(&(k as u32)).copied().unwrap_or(0);
                    if got != want {
                        return Err(Fail::new(
                            "sink:demux_map_lazy:factory-count",
                            format!("factory called {got} times for key {k}, expected {want}"),
                        ));
                    }
                }
                Ok(())
            })
        }
        "demux_var" => drive(
            sinktools::demux_var::<_, u32, E>((rec(0), (rec(1), (rec(2), ())))),
            items.iter().map(|x| ((*x % 3) as usize, *x as u32)).collect(),
            case,
            &env,
        ),
        "chain_map_filter_flat" => drive(
            SinkBuilder::<u8>::new()
                .map(|x: u8| x.wrapping_add(1))
                .filter(|x: &u8| f_keep(*x))
                .flat_map(f_flat)
                .send_to(rec(0)),
            items.clone(),
            case,
            &env,
        ),
        "chain_unzip" => drive(
            SinkBuilder::<u8>::new()
                .inspect(|_x: &u8| {})
                .map(|x: u8| (x as u32, x as u32 + 100))
                .unzip(rec(0), rec(1)),
            items.clone(),
            case,
            &env,
        ),
        "chain_demux_var" => drive(
            SinkBuilder::<u8>::new()
                .map(|x: u8| ((x % 3) as usize, x as u32))
                .demux_var::<_, u32, E>((rec(0), (rec(1), (rec(2), ())))),
            items.clone(),
            case,
            &env,
        ),
        "chain_demux_map" => {
            let sinks: HashMap<u8, RecSink> = (0..3u8).map(|k| (k, rec(k as usize))).collect();
            drive(
                SinkBuilder::<u8>::new()
                    .filter_map(|x: u8| Some((x % 3, x as u32)))
                    .demux_map(sinks),
                items.clone(),
                case,
                &env,
            )
        }
        "chain_flatten_for_each" => {
            let e2 = env.clone();
            let s = SinkBuilder::<u8>::new()
                .map(f_flat)
                .flatten::<Vec<u32>>()
                .for_each(move |x: u32| e2.log.borrow_mut().push(Ev::Send(0, x)));
            drive(SinkErr(s), items.clone(), case, &env)
        }
        "send_iter" => drive_future(
            sinktools::send_iter(items.clone(), sinktools::map(f_map, rec(0))),
            case,
            &env,
        ),
        "send_iter_build" => drive_future(
            items.clone().into_iter().iter_to_sink_build().map(f_map).send_to(rec(0)),
            case,
            &env,
        ),
        "send_stream" => drive_future(
            sinktools::send_stream(
                ScriptStream::new(items.iter().map(|x| *x as u32).collect(), &case.src, &env),
                rec(0),
            ),
            case,
            &env,
        ),
        "send_stream_build" => drive_future(
            ScriptStream::new(items.iter().map(|x| *x as u32).collect(), &case.src, &env)
                .stream_to_sink_build()
                .inspect(|_x: &u32| {})
                .send_to(rec(0)),
            case,
            &env,
        ),
        "lazy_sink" | "lazy_flat_map" => {
            let e2 = env.clone();
            let inner: Pin<Box<dyn Sink<u8, Error = E>>> = if subject == "lazy_sink" {
                boxed(sinktools::map(|x: u8| x as u32, rec(0)))
            } else {
                boxed(sinktools::flat_map(f_flat, rec(0)))
            };
            let pend = case.init_pending;
            let s = LazySink::new(move || {
                e2.init_calls.set(e2.init_calls.get() + 1);
                InitFut {
                    pend_left: pend,
                    out: Some(inner),
                    env: e2.clone(),
                }
            });
            let r = drive(s, items.clone(), case, &env);
            r.and_then(|()| {
                let want = u32::from(!items.is_empty());
                if env.init_calls.get() != want {
                    return Err(Fail::new(
                        "sink:lazy_sink:init-count",
                        format!("init function called {} times, expected {want}", env.init_calls.get()),
                    ));
                }
                if env.init_polled_after_ready.get() {
                    return Err(Fail::new(
                        "sink:lazy_sink:init-polled-after-completion",
                        "the initialisation future was polled again after it completed",
                    ));
                }
                Ok(())
            })
        }
        "lazy_source" => run_lazy_source(case, &env),
        "lazy_sink_source" => run_lazy_sink_source(case, &env, obs),
        other => panic!("unknown subject {other}"),
    };
    r?;
    if let Some(v) = env.viol.borrow().clone() {
        return Err(v);
    }
    // non-trivial rule
    let pp = env.pend_polls.borrow();
    let mut sinks_pending: Vec<(usize, usize)> = pp.iter().filter(|(s, _)| *s < 1000).cloned().collect();
    sinks_pending.sort();
    sinks_pending.dedup();
    let two_sinks_diff_polls = sinks_pending.iter().any(|(s1, p1)| {
        sinks_pending.iter().any(|(s2, p2)| s1 != s2 && p1 != p2)
    });
    let buffered_init = env.buffered_during_init.get()
        || (matches!(subject, "lazy_sink" | "lazy_flat_map") && case.init_pending > 0 && !case.items.is_empty());
    let buffered_adaptor = matches!(
        subject,
        "flat_map" | "flatten" | "chain_map_filter_flat" | "chain_flatten_for_each" | "lazy_flat_map"
    ) && !sinks_pending.is_empty()
        && case.items.iter().any(|x| x % 3 == 2);
    let any_pending_and_items = !pp.is_empty() && !case.items.is_empty();
    obs.nontrivial(two_sinks_diff_polls || buffered_init || buffered_adaptor || any_pending_and_items);
    if two_sinks_diff_polls {
        obs.class("two-sinks-pending-on-different-polls");
    }
    if buffered_init {
        obs.class("item-buffered-while-initialising");
    }
    if buffered_adaptor {
        obs.class("multi-item-expansion-with-pending-downstream");
    }
    if env.src_polled_after_end.get() {
        obs.class("observation:source-polled-again-after-end");
    }
    obs.class(format!("subject={subject}"));
    if let Some(msg) = env.fresh_send.borrow().clone() {
        // every other oracle of this case passed; report the known class last
        return Err(Fail::new(
            "sink:demux_map_lazy:first-item-of-new-key-start_send-without-poll_ready",
            msg,
        ));
    }
    Ok(())
}

/// `ForEach` has error type `Infallible`; adapt to `E` so one driver serves all subjects.
struct SinkErr<S>(S);
impl<I, S: Sink<I, Error = std::convert::Infallible> + Unpin> Sink<I> for SinkErr<S> {
    type Error = E;
    fn poll_ready(self: Pin<&mut Self>, cx: &mut Context<'_>) -> Poll<Result<(), E>> {
        Pin::new(&mut self.get_mut().0).poll_ready(cx).map(|r| r.map_err(|_| E))
    }
    fn start_send(self: Pin<&mut Self>, item: I) -> Result<(), E> {
        Pin::new(&mut self.get_mut().0).start_send(item).map_err(|_| E)
    }
    fn poll_flush(self: Pin<&mut Self>, cx: &mut Context<'_>) -> Poll<Result<(), E>> {
        Pin::new(&mut self.get_mut().0).poll_flush(cx).map(|r| r.map_err(|_| E))
    }
    fn poll_close(self: Pin<&mut Self>, cx: &mut Context<'_>) -> Poll<Result<(), E>> {
        Pin::new(&mut self.get_mut().0).poll_close(cx).map(|r| r.map_err(|_| E))
    }
}

// ---------------------------------------------------------------------------------------------
// LazySource

fn run_lazy_source(case: &SinkCase, env: &Rc<Env>) -> Result<(), Fail> {
    let e2 = env.clone();
    let items: Vec<u32> = case.items.iter().map(|x| *x as u32).collect();
    let stream = ScriptStream::new(items.clone(), &case.src, env);
    let pend = case.init_pending;
    let src = LazySource::new(move || {
        e2.init_calls.set(e2.init_calls.get() + 1);
        InitFut {
            pend_left: pend,
            out: Some(stream),
            env: e2.clone(),
        }
    });
    let mut src = std::pin::pin!(src);
    let mut d = Driver::new(env, case);
    let mut got = vec![];
    loop {
        let r = d.until_ready("poll_next", |cx| src.as_mut().poll_next(cx).map(Ok))?;
        match r {
            Some(x) => got.push(x),
            None => break,
        }
        if got.len() > items.len() {
            break;
        }
    }
    if got != items {
        return Err(Fail::new(
            "source:lazy_source:wrong-items",
            format!("lazy source yielded {got:?}, expected {items:?}"),
        ));
    }
    if env.init_calls.get() != 1 {
        return Err(Fail::new(
            "source:lazy_source:init-count",
            format!("init function called {} times, expected 1", env.init_calls.get()),
        ));
    }
    if env.init_polled_after_ready.get() {
        return Err(Fail::new(
            "source:lazy_source:init-polled-after-completion",
            "the initialisation future was polled again after it completed",
        ));
    }
    if case.init_pending > 0 {
        env.buffered_during_init.set(true);
    }
    Ok(())
}

// ---------------------------------------------------------------------------------------------
// LazySinkSource: two halves driven by two tasks with distinct wakers

#[derive(Clone, Copy, PartialEq, Eq, Debug)]
enum StepRes {
    Progress,
    Pending,
    Done,
}

#[derive(Clone, Copy, PartialEq, Eq, Debug)]
enum Phase {
    Item(usize),
    Flush,
    Close,
    Done,
}

fn run_lazy_sink_source(case: &SinkCase, env: &Rc<Env>, obs: &mut Obs) -> Result<(), Fail> {
    let sink_items: Vec<u32> = case.items.iter().map(|x| *x as u32).collect();
    // the source side yields its own items 200, 201, ...
    let src_items: Vec<u32> = (0..case.src.iter().filter(|p| !**p).count() as u32)
        .map(|i| 200 + i)
        .collect();
    let stream = ScriptStream::new(src_items.clone(), &case.src, env);
    let init = InitFut {
        pend_left: case.init_pending,
        out: Some((stream, RecSink::new(0, case, env))),
        env: env.clone(),
    };
    let (sink_half, source_half) =
        LazySinkSource::<_, ScriptStream, RecSink, u32, E>::new(init).split();
    let mut sink_half = Box::pin(sink_half);
    let mut source_half = Box::pin(source_half);
    let tws = [TaskWaker::new(), TaskWaker::new()]; // 0 = sink task, 1 = source task
    let mut phase = if sink_items.is_empty() { Phase::Flush } else { Phase::Item(0) };
    if !case.final_flush && sink_items.is_empty() {
        phase = Phase::Close;
    }
    let mut src_done = false;
    let mut got_src: Vec<u32> = vec![];
    // parked[h] = the half's last step returned Pending and it has not been stepped since
    let mut parked = [false, false];
    let mut sched = case.sched.iter();
    let mut spurious_left = 2;
    let mut steps_left = 64 + 8 * (case.sinks.first().map(|s| s.ready.len() + s.flush.len() + s.close.len()).unwrap_or(0) + case.src.len() + case.init_pending as usize);
    let mut both_parked_seen = false;
    let mut default_pick = true;

    loop {
        let done = [phase == Phase::Done, src_done];
        if done[0] && done[1] {
            break;
        }
        if steps_left == 0 {
            return Err(Fail::new(
                "lazy_sink_source:no-progress",
                "halves still not finished after every scripted Pending was consumed",
            ));
        }
        steps_left -= 1;
        // runnable = not done and (not parked or woken)
        let runnable = |h: usize| !done[h] && (!parked[h] || tws[h].is_woken());
        let (want, explicit) = match sched.next() {
            Some(b) => (usize::from(!*b), true),
            None => {
                default_pick = !default_pick;
                (usize::from(default_pick), false)
            }
        };
        let pick = if runnable(want) {
            Some(want)
        } else if !done[want] && spurious_left > 0 && explicit {
            // an explicit choice of a parked, not woken half: a spurious poll (legal)
            spurious_left -= 1;
            Some(want)
        } else if runnable(1 - want) {
            Some(1 - want)
        } else {
            None
        };
        let Some(h) = pick else {
            // every unfinished half is parked and not woken: deliver the readiness events
            if parked[0] && parked[1] && !done[0] && !done[1] {
                both_parked_seen = true;
            }
            let ws: Vec<Waker> = env.wakers.borrow_mut().drain(..).collect();
            if ws.is_empty() {
                return Err(Fail::new(
                    "lazy_sink_source:pending-without-cause",
                    "a half is parked but no leaf (init future, inner sink, inner stream) is pending",
                ));
            }
            for w in ws {
                w.wake();
            }
            for hh in 0..2 {
                if !done[hh] && parked[hh] && !tws[hh].is_woken() {
                    return Err(Fail::new(
                        "lazy_sink_source:lost-wakeup",
                        format!(
                            "{} half returned Pending, but its waker was not woken when the pending leaves (init future / inner sink / inner stream) fired",
                            if hh == 0 { "sink" } else { "source" }
                        ),
                    ));
                }
            }
            continue;
        };
        tws[h].take_woken();
        parked[h] = false;
        env.driver_poll.set(env.driver_poll.get() + 1);
        let mut cx = Context::from_waker(&tws[h].waker);
        let res = if h == 0 {
            // sink half: one poll
            match phase {
                Phase::Item(k) => match sink_half.as_mut().poll_ready(&mut cx) {
                    Poll::Ready(Ok(())) => {
                        if sink_half.as_mut().start_send(sink_items[k]).is_err() {
                            return Err(Fail::new("lazy_sink_source:start_send-error", "start_send returned an error"));
                        }
                        if k == 0 && case.init_pending > 0 && env.sent(0).is_empty() {
                            env.buffered_during_init.set(true);
                        }
                        phase = if k + 1 < sink_items.len() {
                            Phase::Item(k + 1)
                        } else if case.final_flush {
                            Phase::Flush
                        } else {
                            Phase::Close
                        };
                        StepRes::Progress
                    }
                    Poll::Ready(Err(_)) => {
                        return Err(Fail::new("lazy_sink_source:poll_ready-error", "poll_ready returned an error"))
                    }
                    Poll::Pending => StepRes::Pending,
                },
                Phase::Flush => match sink_half.as_mut().poll_flush(&mut cx) {
                    Poll::Ready(Ok(())) => {
                        let got = env.sent(0);
                        if got != sink_items {
                            return Err(Fail::new(
                                "lazy_sink_source:wrong-delivery",
                                format!("after a completed poll_flush the inner sink had received {got:?}, expected {sink_items:?}"),
                            ));
                        }
                        phase = Phase::Close;
                        StepRes::Progress
                    }
                    Poll::Ready(Err(_)) => {
                        return Err(Fail::new("lazy_sink_source:poll_flush-error", "poll_flush returned an error"))
                    }
                    Poll::Pending => StepRes::Pending,
                },
                Phase::Close => match sink_half.as_mut().poll_close(&mut cx) {
                    Poll::Ready(Ok(())) => {
                        phase = Phase::Done;
                        StepRes::Done
                    }
                    Poll::Ready(Err(_)) => {
                        return Err(Fail::new("lazy_sink_source:poll_close-error", "poll_close returned an error"))
                    }
                    Poll::Pending => StepRes::Pending,
                },
                Phase::Done => StepRes::Done,
            }
        } else {
            match source_half.as_mut().poll_next(&mut cx) {
                Poll::Ready(Some(x)) => {
                    got_src.push(x);
                    if got_src.len() > src_items.len() {
                        return Err(Fail::new(
                            "lazy_sink_source:source-extra-items",
                            format!("source half yielded {got_src:?}, inner stream only has {src_items:?}"),
                        ));
                    }
                    StepRes::Progress
                }
                Poll::Ready(None) => {
                    src_done = true;
                    StepRes::Done
                }
                Poll::Pending => StepRes::Pending,
            }
        };
        if let Some(v) = env.viol.borrow().clone() {
            return Err(v);
        }
        if res == StepRes::Pending {
            parked[h] = true;
        }
    }
    let got = env.sent(0);
    if got != sink_items {
        return Err(Fail::new(
            "lazy_sink_source:wrong-delivery",
            format!("inner sink received {got:?}, expected {sink_items:?}"),
        ));
    }
    if got_src != src_items {
        return Err(Fail::new(
            "lazy_sink_source:source-wrong-items",
            format!("source half yielded {got_src:?}, expected {src_items:?}"),
        ));
    }
    if env.init_polled_after_ready.get() {
        return Err(Fail::new(
            "lazy_sink_source:init-polled-after-completion",
            "the initialisation future was polled again after it completed",
        ));
    }
    if both_parked_seen {
        obs.class("both-halves-parked-on-init");
        obs.nontrivial(true);
    }
    Ok(())
}

// ---------------------------------------------------------------------------------------------
// Enumeration and random generation

const SINK_SUBJECTS_1: &[&str] = &[
    "map",
    "filter",
    "filter_map",
    "flat_map",
    "flatten",
    "inspect",
    "for_each",
    "try_for_each",
    "chain_map_filter_flat",
    "chain_flatten_for_each",
];
const SINK_SUBJECTS_2: &[&str] = &["unzip", "chain_unzip"];
const SINK_SUBJECTS_3: &[&str] = &["demux_map", "demux_map_lazy", "demux_var", "chain_demux_var", "chain_demux_map"];

/// item patterns: every word over {0,1,2} of length 0..=n, symbol s at position p -> 3*p+s
fn item_patterns(n: usize) -> Vec<Vec<u8>> {
    let mut out = vec![];
    for len in 0..=n {
        for mut k in 0..3usize.pow(len as u32) {
            let mut v = vec![];
            for p in 0..len {
                v.push((3 * p + k % 3) as u8);
                k /= 3;
            }
            out.push(v);
        }
    }
    out
}

fn scripts_1(n_items: usize, ready_max: usize, fc: &[(Vec<u8>, Vec<u8>)]) -> Vec<Script> {
    let mut out = vec![];
    for ready in subsets_upto((n_items + 2) as u8, ready_max) {
        for (flush, close) in fc {
            out.push(Script {
                ready: ready.clone(),
                flush: flush.clone(),
                close: close.clone(),
            });
        }
    }
    out
}

fn enumerate_sinks(tier: Tier, only: &str) -> Vec<SinkCase> {
    let mut out = vec![];
    let (n1, n2, n3) = tier.pick((4, 3, 2), (5, 4, 3));
    let fc_full: Vec<(Vec<u8>, Vec<u8>)> = vec![
        (vec![], vec![]),
        (vec![0], vec![]),
        (vec![0, 1], vec![]),
        (vec![], vec![0]),
        (vec![0], vec![0]),
        (vec![1], vec![0, 1]),
    ];
    let fc_small: Vec<(Vec<u8>, Vec<u8>)> = vec![(vec![], vec![]), (vec![0], vec![]), (vec![], vec![0])];
    // one terminal sink
    for subject in SINK_SUBJECTS_1.iter().filter(|s| **s == only) {
        let terminal_scripted = !matches!(*subject, "for_each" | "try_for_each" | "chain_flatten_for_each");
        for items in item_patterns(n1) {
            let scripts = if terminal_scripted {
                scripts_1(items.len() + 2, 2, &fc_full)
            } else {
                vec![Script::default()]
            };
            for sc in &scripts {
                for sticky in [true, false] {
                    for final_flush in [true, false] {
                        for flush_after in [vec![], vec![0u8]] {
                            if !flush_after.is_empty() && items.is_empty() {
                                continue;
                            }
                            if !terminal_scripted && !sticky {
                                continue;
                            }
                            let mut c = SinkCase::new(subject, items.clone());
                            c.sinks = vec![sc.clone()];
                            c.sticky = sticky;
                            c.final_flush = final_flush;
                            c.flush_after = flush_after.clone();
                            out.push(c);
                        }
                    }
                }
            }
        }
    }
    // two terminal sinks
    for subject in SINK_SUBJECTS_2.iter().filter(|s| **s == only) {
        for items in item_patterns(n2) {
            if items.iter().enumerate().any(|(p, x)| (*x as usize) != 3 * p) {
                continue; // routing does not depend on the class here: one word per length
            }
            let scripts = scripts_1(items.len(), 2, &fc_small);
            for a in &scripts {
                for b in &scripts {
                    for sticky in [true, false] {
                        for final_flush in [true, false] {
                            let mut c = SinkCase::new(subject, items.clone());
                            c.sinks = vec![a.clone(), b.clone()];
                            c.sticky = sticky;
                            c.final_flush = final_flush;
                            out.push(c);
                        }
                    }
                }
            }
        }
    }
    // three terminal sinks
    for subject in SINK_SUBJECTS_3.iter().filter(|s| **s == only) {
        for items in item_patterns(n3) {
            let scripts = scripts_1(items.len(), 1, &fc_small);
            for a in &scripts {
                for b in &scripts {
                    for c3 in &scripts {
                        for sticky in [true, false] {
                            let mut c = SinkCase::new(subject, items.clone());
                            c.sinks = vec![a.clone(), b.clone(), c3.clone()];
                            c.sticky = sticky;
                            c.final_flush = true;
                            out.push(c);
                        }
                    }
                }
            }
        }
    }
    out
}

fn src_scripts(n_items: usize, max_p: usize) -> Vec<Vec<bool>> {
    // scripts with exactly n_items `false` entries plus up to max_p `true` entries, plus
    // optionally a trailing pending before the end
    let mut out = vec![];
    let len_max = n_items + max_p;
    for len in n_items..=len_max {
        for mask in 0..(1u32 << len) {
            if mask.count_ones() as usize != len - n_items {
                continue;
            }
            out.push((0..len).map(|i| mask & (1 << i) != 0).collect());
        }
    }
    out
}

fn enumerate_futures(tier: Tier) -> Vec<SinkCase> {
    let mut out = vec![];
    let n = tier.pick(3, 4);
    let fc: Vec<(Vec<u8>, Vec<u8>)> = vec![(vec![], vec![]), (vec![0], vec![]), (vec![0, 1], vec![]), (vec![1], vec![])];
    for subject in ["send_iter", "send_iter_build"] {
        for len in 0..=n {
            let items: Vec<u8> = (0..len as u8).map(|p| 3 * p + 1).collect();
            for sc in scripts_1(len + 1, 2, &fc) {
                for sticky in [true, false] {
                    let mut c = SinkCase::new(subject, items.clone());
                    c.sinks = vec![sc.clone()];
                    c.sticky = sticky;
                    out.push(c);
                }
            }
        }
    }
    for subject in ["send_stream", "send_stream_build"] {
        for len in 0..=n {
            let items: Vec<u8> = (0..len as u8).map(|p| 3 * p + 1).collect();
            for src in src_scripts(len, 2) {
                for sc in scripts_1(len + 1, 2, &fc) {
                    for sticky in [true, false] {
                        let mut c = SinkCase::new(subject, items.clone());
                        c.sinks = vec![sc.clone()];
                        c.sticky = sticky;
                        c.src = src.clone();
                        out.push(c);
                    }
                }
            }
        }
    }
    out
}

fn enumerate_lazy(tier: Tier) -> Vec<SinkCase> {
    let mut out = vec![];
    let n = tier.pick(3, 4);
    let fc: Vec<(Vec<u8>, Vec<u8>)> = vec![
        (vec![], vec![]),
        (vec![0], vec![]),
        (vec![0, 1], vec![]),
        (vec![], vec![0]),
        (vec![0], vec![0]),
    ];
    for subject in ["lazy_sink", "lazy_flat_map"] {
        let pats = if subject == "lazy_sink" {
            (0..=n).map(|len| (0..len as u8).map(|p| 3 * p + 1).collect()).collect::<Vec<Vec<u8>>>()
        } else {
            item_patterns(n.min(3))
        };
        for items in pats {
            for init_pending in 0..=2u8 {
                for sc in scripts_1(items.len() + 2, 2, &fc) {
                    for sticky in [true, false] {
                        for final_flush in [true, false] {
                            for flush_after in [vec![], vec![0u8]] {
                                if !flush_after.is_empty() && items.is_empty() {
                                    continue;
                                }
                                let mut c = SinkCase::new(subject, items.clone());
                                c.sinks = vec![sc.clone()];
                                c.sticky = sticky;
                                c.final_flush = final_flush;
                                c.flush_after = flush_after.clone();
                                c.init_pending = init_pending;
                                out.push(c);
                            }
                        }
                    }
                }
            }
        }
    }
    for len in 0..=n {
        let items: Vec<u8> = (0..len as u8).map(|p| 3 * p + 1).collect();
        for src in src_scripts(len, 2) {
            for init_pending in 0..=3u8 {
                let mut c = SinkCase::new("lazy_source", items.clone());
                c.src = src.clone();
                c.init_pending = init_pending;
                out.push(c);
            }
        }
    }
    out
}

fn enumerate_lss(tier: Tier) -> Vec<SinkCase> {
    let mut out = vec![];
    let (n_items, n_src, sched_len) = tier.pick((2usize, 1usize, 6usize), (3, 2, 8));
    let fc: Vec<(Vec<u8>, Vec<u8>)> = vec![(vec![], vec![]), (vec![0], vec![]), (vec![], vec![0])];
    for len in 0..=n_items {
        let items: Vec<u8> = (0..len as u8).map(|p| 3 * p + 1).collect();
        for ns in 0..=n_src {
            for src in src_scripts(ns, 1) {
                for init_pending in 0..=2u8 {
                    for sc in scripts_1(len, 1, &fc) {
                        for sticky in [true, false] {
                            for mask in 0..(1u32 << sched_len) {
                                let mut c = SinkCase::new("lazy_sink_source", items.clone());
                                c.sinks = vec![sc.clone()];
                                c.sticky = sticky;
                                c.src = src.clone();
                                c.init_pending = init_pending;
                                c.sched = (0..sched_len).map(|i| mask & (1 << i) != 0).collect();
                                out.push(c);
                            }
                        }
                    }
                }
            }
        }
    }
    out
}

fn script_strategy(calls: u8) -> impl Strategy<Value = Script> {
    let pos = move |max: usize| proptest::collection::btree_set(0u8..calls.max(1), 0..=max).prop_map(|s| s.into_iter().collect::<Vec<u8>>());
    (pos(3), pos(2), pos(2)).prop_map(|(ready, flush, close)| Script { ready, flush, close })
}

fn random_strategy(max_items: usize) -> impl Strategy<Value = SinkCase> {
    let subjects: Vec<&'static str> = SINK_SUBJECTS_1
        .iter()
        .chain(SINK_SUBJECTS_2)
        .chain(SINK_SUBJECTS_3)
        .chain(
            [
                "send_iter",
                "send_iter_build",
                "send_stream",
                "send_stream_build",
                "lazy_sink",
                "lazy_flat_map",
                "lazy_source",
                "lazy_sink_source",
            ]
            .iter(),
        )
        .copied()
        .collect();
    (
        proptest::sample::select(subjects),
        proptest::collection::vec(any::<u8>().prop_map(|x| x % 60), 0..=max_items),
    )
        .prop_flat_map(|(subject, items)| {
            let calls = (items.len() + 4) as u8;
            let n = items.len();
            (
                Just(subject),
                Just(items),
                proptest::collection::vec(script_strategy(calls), 3),
                any::<bool>(),
                proptest::collection::btree_set(0u8..(n.max(1) as u8), 0..=2),
                any::<bool>(),
                0u8..=3,
                proptest::collection::vec(any::<bool>(), 0..=3),
                proptest::collection::vec(any::<bool>(), 0..=12),
            )
        })
        .prop_map(
            |(subject, items, sinks, sticky, flush_after, final_flush, init_pending, extra_p, sched)| {
                // source script: one `false` per item for stream subjects, pendings sprinkled in
                let mut src: Vec<bool> = vec![];
                let n_src = if subject == "lazy_sink_source" { items.len().min(3) } else { items.len() };
                let mut ep = extra_p.iter();
                for _ in 0..n_src {
                    if let Some(true) = ep.next() {
                        src.push(true);
                    }
                    src.push(false);
                }
                if let Some(true) = ep.next() {
                    src.push(true);
                }
                let lss = subject == "lazy_sink_source";
                SinkCase {
                    subject: subject.to_string(),
                    items,
                    sinks,
                    sticky,
                    flush_after: if lss { vec![] } else { flush_after.into_iter().collect() },
                    final_flush,
                    init_pending,
                    src,
                    sched,
                }
            },
        )
}

pub fn run(ctx: &mut Ctx) {
    ctx.rule = "C14: case = (adaptor, input items with routing class x%3, per-terminal-sink scripts = call indices at which \
        poll_ready/poll_flush/poll_close answer Pending (<=2 each), sticky-or-strict readiness, driver plan (mid/final flush), \
        lazy init future pending count, scripted stream, half interleaving for LazySinkSource). Enumerated over all item words \
        of length <= 4(5) [2 sinks: 3(4), 3 sinks: 2(3)] x all scripts within the stated bounds per adaptor; random cases up to 16 items. Non-trivial = at least \
        one leaf answered Pending while items were in flight; classes mark the DESIGN rule (item buffered while the lazy state \
        initialises; two terminal sinks pending on different polls; multi-item expansion against a pending downstream). \
        Distinct by case hash."
        .into();
    ctx.assume("terminal sinks never fail (error injection off: the property is about routing)");
    ctx.assume("scripted streams/iterators are fused; SendStream/SendIter polling a finished source again is recorded as an observation class only");
    ctx.assume("a leaf that answers Pending keeps the waker it was given; the harness fires those wakers before re-polling");
    let tier = ctx.tier();
    ctx.floor = 1000;
    if ctx.is_replay() {
        // replay mode runs exactly the recorded case; no need to generate the enumerations
        for sub in ["sink-adaptors-enumerated", "send-futures-enumerated", "lazy-enumerated", "lazy-sink-source-enumerated"] {
            ctx.check_all(sub, Vec::<SinkCase>::new(), run_case);
        }
    } else {
        for subject in SINK_SUBJECTS_1.iter().chain(SINK_SUBJECTS_2).chain(SINK_SUBJECTS_3) {
            ctx.check_all("sink-adaptors-enumerated", enumerate_sinks(tier, subject), run_case);
        }
        ctx.check_all("send-futures-enumerated", enumerate_futures(tier), run_case);
        ctx.check_all("lazy-enumerated", enumerate_lazy(tier), run_case);
        ctx.check_all("lazy-sink-source-enumerated", enumerate_lss(tier), run_case);
    }
    let cases = tier.pick(300_000u32, 4_000_000u32);
    ctx.check("sink-random", cases, random_strategy(16), run_case);
}
