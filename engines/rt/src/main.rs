//! Engine `rt`: C14 (sinktools adaptors), C15 (MergeSource/TaggedSource), C16 (unsync mpsc),
//! C27 (Dfir runner wake-ups). One binary, dispatch on `--prop`.

mod c14;
mod c15;
mod c16;
mod c27;
mod util;

use vcommon::{Args, Ctx};

fn main() {
    let args = Args::parse();
    let mut ctx = Ctx::new(args);
    vcommon::quiet_panics();
    match ctx.prop().to_string().as_str() {
        "C14" => c14::run(&mut ctx),
        "C15" => c15::run(&mut ctx),
        "C16" => c16::run(&mut ctx),
        "C27" => c27::run(&mut ctx),
        other => {
            eprintln!("engine rt does not serve property {other}");
            std::process::exit(2);
        }
    }
    ctx.finish();
}
