//! C15 — merged network sources: `MergeSource` over `TaggedSource`s (hook H2 constructors).
//!
//! Case = one script per source: a list of per-poll outcomes `I` (an item is ready) / `P`
//! (pending), followed by an implicit "ended" forever. Items are numbered per source, the
//! `TaggedSource` adds the source id. The merged stream is polled (re-polled after `Pending`)
//! until it reports the end; every poll of every source is logged.

use std::io;
use std::pin::Pin;
use std::sync::{Arc, Mutex};
use std::task::{Context, Poll};

use futures::Stream;
use hydro_deploy_integration::{MergeSource, TaggedSource};
use serde::{Deserialize, Serialize};
use vcommon::proptest;
use vcommon::proptest::prelude::*;
use vcommon::{Ctx, Fail, Obs, Tier};

use crate::util::TaskWaker;

#[derive(Clone, Copy, Debug, PartialEq, Eq, Hash, Serialize, Deserialize)]
pub enum Step {
    /// `Poll::Ready(Some(Ok(next item)))`
    I,
    /// `Poll::Pending`
    P,
}

#[derive(Clone, Debug, PartialEq, Eq, Hash, Serialize, Deserialize)]
pub struct MergeCase {
    /// tag of each source (distinct)
    pub ids: Vec<u32>,
    pub scripts: Vec<Vec<Step>>,
    /// wrap each source in a `TaggedSource` (true) or merge pre-tagged sources directly
    pub tagged: bool,
}

#[derive(Clone, Copy, Debug, PartialEq, Eq)]
enum Out {
    Item(u32),
    Pending,
    End,
}

#[derive(Default)]
struct Log {
    /// (merged call number, source index, outcome)
    polls: Vec<(usize, usize, Out)>,
    call: usize,
    polled_after_end: Option<usize>,
}

struct ScriptSrc {
    idx: usize,
    id: u32,
    pretag: bool,
    script: Vec<Step>,
    pos: usize,
    seq: u32,
    ended: bool,
    log: Arc<Mutex<Log>>,
}

impl ScriptSrc {
    fn step(&mut self) -> Out {
        let mut log = self.log.lock().unwrap();
        if self.ended {
            log.polled_after_end.get_or_insert(self.idx);
        }
        let out = match self.script.get(self.pos) {
            Some(Step::I) => {
                let s = self.seq;
                self.seq += 1;
                Out::Item(s)
            }
            Some(Step::P) => Out::Pending,
            None => {
                self.ended = true;
                Out::End
            }
        };
        if self.pos < self.script.len() {
            self.pos += 1;
        }
        let call = log.call;
        log.polls.push((call, self.idx, out));
        out
    }
}

/// Untagged source for `TaggedSource`.
struct Plain(ScriptSrc);
impl Stream for Plain {
    type Item = Result<u32, io::Error>;
    fn poll_next(mut self: Pin<&mut Self>, _cx: &mut Context<'_>) -> Poll<Option<Self::Item>> {
        match self.0.step() {
            Out::Item(s) => Poll::Ready(Some(Ok(s))),
            Out::Pending => Poll::Pending,
            Out::End => Poll::Ready(None),
        }
    }
}

/// Pre-tagged source merged directly.
struct PreTagged(ScriptSrc);
impl Stream for PreTagged {
    type Item = Result<(u32, u32), io::Error>;
    fn poll_next(mut self: Pin<&mut Self>, _cx: &mut Context<'_>) -> Poll<Option<Self::Item>> {
        let id = self.0.id;
        debug_assert!(self.0.pretag);
        match self.0.step() {
            Out::Item(s) => Poll::Ready(Some(Ok((id, s)))),
            Out::Pending => Poll::Pending,
            Out::End => Poll::Ready(None),
        }
    }
}

type Merged = Pin<Box<dyn Stream<Item = Result<(u32, u32), io::Error>>>>;

fn build(case: &MergeCase, log: &Arc<Mutex<Log>>) -> Merged {
    let mk = |i: usize| ScriptSrc {
        idx: i,
        id: case.ids[i],
        pretag: !case.tagged,
        script: case.scripts[i].clone(),
        pos: 0,
        seq: 0,
        ended: false,
        log: log.clone(),
    };
    if case.tagged {
        let sources: Vec<Pin<Box<TaggedSource<u32, Plain>>>> = (0..case.scripts.len())
            .map(|i| Box::pin(TaggedSource::verif_new(case.ids[i], Box::pin(Plain(mk(i))))))
            .collect();
        Box::pin(MergeSource::verif_new(sources))
    } else {
        let sources: Vec<Pin<Box<PreTagged>>> = (0..case.scripts.len())
            .map(|i| Box::pin(PreTagged(mk(i))))
            .collect();
        Box::pin(MergeSource::verif_new(sources))
    }
}

pub fn run_case(case: &MergeCase, obs: &mut Obs) -> Result<(), Fail> {
    let n = case.scripts.len();
    let log = Arc::new(Mutex::new(Log::default()));
    let mut merged = build(case, &log);
    let tw = TaskWaker::new();
    let mut cx = Context::from_waker(&tw.waker);

    // harness-side view of the sources (derived from the scripts and the poll log only)
    let mut live: Vec<usize> = (0..n).collect(); // in MergeSource order
    let mut pos = vec![0usize; n]; // next script position per source
    let mut emitted = vec![0u32; n]; // items emitted per source
    let mut ended = vec![false; n];
    // fairness records: per source, Some((others_seen, allowed)) while it waits with a ready item
    let mut waiting: Vec<Option<(usize, usize)>> = vec![None; n];
    let total_p: usize = case
        .scripts
        .iter()
        .map(|s| s.iter().filter(|x| **x == Step::P).count())
        .sum();
    let total_i: usize = case
        .scripts
        .iter()
        .map(|s| s.iter().filter(|x| **x == Step::I).count())
        .sum();
    let max_calls = total_p + total_i + 4;
    let mut fixup_nontrivial = false;
    let mut pendings_returned = 0usize;

    let mut finished = false;
    for call in 0..max_calls {
        log.lock().unwrap().call = call;
        // open fairness records
        for &s in &live {
            if waiting[s].is_none() && case.scripts[s].get(pos[s]) == Some(&Step::I) {
                waiting[s] = Some((0, live.len() - 1));
            }
        }
        let before = log.lock().unwrap().polls.len();
        let r = merged.as_mut().poll_next(&mut cx);
        let polled: Vec<(usize, usize, Out)> = log.lock().unwrap().polls[before..].to_vec();
        if let Some(s) = log.lock().unwrap().polled_after_end {
            return Err(Fail::new(
                "merge:source-polled-after-end",
                format!("source {s} was polled again after it reported the end (call {call})"),
            ));
        }
        // each live source at most once per call, only live sources
        let mut seen = vec![false; n];
        for &(_, s, _) in &polled {
            if seen[s] {
                return Err(Fail::new(
                    "merge:source-polled-twice-in-one-call",
                    format!("source {s} polled twice in call {call}"),
                ));
            }
            seen[s] = true;
        }
        // replay the poll log on the harness view
        let live_at_start = live.clone();
        let mut ended_now: Vec<usize> = vec![];
        let mut item_from: Option<(usize, u32)> = None;
        for (k, &(_, s, out)) in polled.iter().enumerate() {
            if pos[s] < case.scripts[s].len() {
                pos[s] += 1;
            }
            match out {
                Out::Item(q) => {
                    if k + 1 != polled.len() {
                        return Err(Fail::new(
                            "merge:polled-on-after-item",
                            format!("call {call}: sources polled after source {s} yielded an item"),
                        ));
                    }
                    item_from = Some((s, q));
                }
                Out::End => {
                    ended[s] = true;
                    ended_now.push(s);
                }
                Out::Pending => {}
            }
        }
        // non-trivial rule: a source ended in this call, a source positioned after it (in the
        // live order) was polled later in the same call, and data remains elsewhere
        for &e in &ended_now {
            let e_at = polled.iter().position(|p| p.1 == e).unwrap();
            let epos = live_at_start.iter().position(|x| *x == e).unwrap();
            let later_higher = polled[e_at + 1..].iter().any(|p| {
                live_at_start.iter().position(|x| *x == p.1).unwrap() > epos
            });
            let data_left = (0..n).any(|s| {
                s != e && !ended[s] && case.scripts[s][pos[s].min(case.scripts[s].len())..].contains(&Step::I)
            });
            if later_higher && data_left {
                fixup_nontrivial = true;
            }
        }
        live.retain(|s| !ended[*s]);

        match r {
            Poll::Ready(Some(Ok((tag, q)))) => {
                let Some((s, sq)) = item_from else {
                    return Err(Fail::new(
                        "merge:item-from-nowhere",
                        format!("call {call}: merged stream returned ({tag},{q}) but no source yielded an item"),
                    ));
                };
                if tag != case.ids[s] {
                    return Err(Fail::new(
                        "merge:wrong-tag",
                        format!("call {call}: item of source {s} (id {}) came out tagged {tag}", case.ids[s]),
                    ));
                }
                if q != sq || q != emitted[s] {
                    return Err(Fail::new(
                        "merge:order-or-loss",
                        format!(
                            "call {call}: source {s} emitted seq {q}, expected seq {} (polled {sq})",
                            emitted[s]
                        ),
                    ));
                }
                emitted[s] += 1;
                waiting[s] = None;
                for o in 0..n {
                    if o != s {
                        if let Some((seen_o, allowed)) = waiting[o].as_mut() {
                            *seen_o += 1;
                            if *seen_o > *allowed {
                                return Err(Fail::new(
                                    "merge:unfair",
                                    format!(
                                        "call {call}: source {o} had a ready item but {} items of other sources were emitted first (allowed {})",
                                        *seen_o, *allowed
                                    ),
                                ));
                            }
                        }
                    }
                }
            }
            Poll::Ready(Some(Err(e))) => {
                return Err(Fail::new(
                    "merge:spurious-error",
                    format!("call {call}: merged stream returned an error {e} that no source produced"),
                ));
            }
            Poll::Ready(None) => {
                if item_from.is_some() {
                    return Err(Fail::new(
                        "merge:item-lost-at-end",
                        format!("call {call}: a source yielded an item but the merged stream returned None"),
                    ));
                }
                if ended.iter().any(|e| !*e) {
                    return Err(Fail::new(
                        "merge:ended-early",
                        format!("call {call}: merged stream ended while sources {:?} had not ended",
                            (0..n).filter(|s| !ended[*s]).collect::<Vec<_>>()),
                    ));
                }
                finished = true;
                break;
            }
            Poll::Pending => {
                pendings_returned += 1;
                if item_from.is_some() {
                    return Err(Fail::new(
                        "merge:item-lost",
                        format!("call {call}: a source yielded an item but the merged stream returned Pending"),
                    ));
                }
                if live.is_empty() {
                    return Err(Fail::new(
                        "merge:not-ended",
                        format!("call {call}: every source has ended but the merged stream returned Pending"),
                    ));
                }
                // Pending only if every live source was polled in this call
                for &s in &live_at_start {
                    if !seen[s] {
                        return Err(Fail::new(
                            "merge:pending-without-polling-all",
                            format!("call {call}: returned Pending although live source {s} was not polled"),
                        ));
                    }
                }
            }
        }
        if live.is_empty() && !finished {
            // all ended in a call that did not return None: the property says the merged stream
            // ends exactly when all sources have ended
            if !matches!(r, Poll::Ready(None)) {
                return Err(Fail::new(
                    "merge:end-not-reported",
                    format!("call {call}: last source ended in this call but the result was not Ready(None)"),
                ));
            }
        }
    }
    if !finished {
        return Err(Fail::new(
            "merge:no-end",
            format!("merged stream did not end within {max_calls} calls"),
        ));
    }
    // stays ended, polls nothing
    for extra in 0..2 {
        log.lock().unwrap().call = max_calls + extra;
        let before = log.lock().unwrap().polls.len();
        let r = merged.as_mut().poll_next(&mut cx);
        if !matches!(r, Poll::Ready(None)) || log.lock().unwrap().polls.len() != before {
            return Err(Fail::new(
                "merge:not-fused",
                "after the end the merged stream did not keep returning Ready(None)",
            ));
        }
    }
    // nothing lost
    for s in 0..n {
        let want = case.scripts[s].iter().filter(|x| **x == Step::I).count() as u32;
        if emitted[s] != want {
            return Err(Fail::new(
                "merge:order-or-loss",
                format!("source {s}: {} of {want} items came out", emitted[s]),
            ));
        }
    }
    obs.nontrivial(fixup_nontrivial);
    if fixup_nontrivial {
        obs.class("cursor-fixup-with-data-left");
    }
    if pendings_returned > 0 {
        obs.class("merged-pending");
    }
    obs.class(format!("sources={n}"));
    Ok(())
}

fn all_scripts(max_len: usize) -> Vec<Vec<Step>> {
    let mut out = vec![];
    for len in 0..=max_len {
        for mask in 0..(1u32 << len) {
            out.push(
                (0..len)
                    .map(|i| if mask & (1 << i) != 0 { Step::P } else { Step::I })
                    .collect(),
            );
        }
    }
    out
}

fn product(n: usize, scripts: &[Vec<Step>], ids: &[u32], tagged: bool) -> impl Iterator<Item = MergeCase> {
    let total = scripts.len().pow(n as u32);
    let scripts = scripts.to_vec();
    let ids = ids[..n].to_vec();
    (0..total).map(move |mut k| {
        let mut ss = vec![];
        for _ in 0..n {
            ss.push(scripts[k % scripts.len()].clone());
            k /= scripts.len();
        }
        MergeCase {
            ids: ids.clone(),
            scripts: ss,
            tagged,
        }
    })
}

pub fn run(ctx: &mut Ctx) {
    ctx.rule = "C15: case = (tags, per-source scripts over {I=item ready, P=pending} + implicit end, tagged-wrapper flag); \
        MergeSource::verif_new over TaggedSource::verif_new is polled to the end with re-polls after Pending, every source poll logged. \
        Enumerated: all scripts up to length 6/6/5/3 (thorough 6/6/6/4/2) for 1/2/3/4(/5) sources; random: 1..5 sources, scripts up to 8(12). \
        Non-trivial = a source reports the end in a call in which a source positioned after it is polled afterwards \
        (cursor past the removed slot -> cursor fix-up path) while another source still has data. Distinct by case hash."
        .into();
    ctx.assume("sources are fused after reporting the end (MergeSource removes them and must not poll them again; checked)");
    ctx.assume("multi_connection.rs sources (same cursor algorithm, duplicated) need real TCP/Unix listeners and are not driven");
    let tier = ctx.tier();
    ctx.floor = 200;
    let ids = [7u32, 3, 11, 5, 2];
    let s2 = all_scripts(2);
    let s3 = all_scripts(3);
    let s4 = all_scripts(4);
    let s5 = all_scripts(5);
    let s6 = all_scripts(6);
    let empty = ctx.is_replay();
    let mut go = |ctx: &mut Ctx, name: String, n: usize, scripts: &Vec<Vec<Step>>, tagged: bool| {
        if empty {
            ctx.check_all(&name, Vec::<MergeCase>::new(), run_case);
        } else {
            ctx.check_all(&name, product(n, scripts, &ids, tagged), run_case);
        }
    };
    for tagged in [true, false] {
        let t = if tagged { "tagged" } else { "pretagged" };
        match tier {
            Tier::Quick => {
                go(ctx, format!("merge-1src-{t}"), 1, &s6, tagged);
                go(ctx, format!("merge-2src-{t}"), 2, if tagged { &s6 } else { &s4 }, tagged);
                go(ctx, format!("merge-3src-{t}"), 3, if tagged { &s5 } else { &s3 }, tagged);
                go(ctx, format!("merge-4src-{t}"), 4, if tagged { &s3 } else { &s2 }, tagged);
            }
            Tier::Thorough => {
                go(ctx, format!("merge-1src-{t}"), 1, &s6, tagged);
                go(ctx, format!("merge-2src-{t}"), 2, &s6, tagged);
                go(ctx, format!("merge-3src-{t}"), 3, if tagged { &s6 } else { &s5 }, tagged);
                go(ctx, format!("merge-4src-{t}"), 4, if tagged { &s4 } else { &s3 }, tagged);
                go(ctx, format!("merge-5src-{t}"), 5, &s2, tagged);
            }
        }
    }
    let (cases, maxlen) = tier.pick((400_000u32, 8usize), (6_000_000u32, 12usize));
    let strat = (1usize..=5, any::<bool>()).prop_flat_map(move |(n, tagged)| {
        (
            proptest::collection::vec(
                proptest::collection::vec(prop_oneof![3 => Just(Step::I), 2 => Just(Step::P)], 0..=maxlen),
                n,
            ),
            Just(tagged),
            proptest::sample::subsequence(vec![1u32, 2, 3, 5, 8, 13, 21, 34], n).prop_shuffle(),
        )
            .prop_map(|(scripts, tagged, ids)| MergeCase { ids, scripts, tagged })
    });
    ctx.check("merge-random", cases, strat, run_case);
}
