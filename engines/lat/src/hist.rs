//! C04 — merge/convert histories per representation family against the independent model.

use std::cell::Cell;
use std::collections::{BTreeMap, BTreeSet, HashMap};

use lattices::union_find::UnionFind;
use lattices::{LatticeFrom, Merge};
use serde::{Deserialize, Serialize};
use vcommon::proptest::prelude::*;
use vcommon::{Ctx, Fail, Obs};

use crate::laws::{guard, Work};
use crate::model::{self, A};
use crate::subj::{Subj, S};

#[derive(Clone, Debug, Serialize, Deserialize)]
pub enum Op {
    /// merge a delta built in representation #rep from `seed`
    Merge { rep: u8, seed: S },
    /// convert the state into the other receiver representation (LatticeFrom) and go on there
    Convert,
}

fn ops_strat(seed: BoxedStrategy<S>, nreps: u8, max: usize) -> BoxedStrategy<Vec<Op>> {
    prop::collection::vec(
        prop_oneof![
            5 => (0..nreps, seed).prop_map(|(rep, seed)| Op::Merge { rep, seed }),
            1 => Just(Op::Convert),
        ],
        1..max,
    )
    .boxed()
}

/// All histories of length ≤ `len` over the given small seeds and op alphabet, capped.
fn small_histories(seeds: &[S], nreps: u8, len: usize, cap: usize) -> Vec<Vec<Op>> {
    let mut alphabet: Vec<Op> = vec![Op::Convert];
    for s in seeds {
        for r in 0..nreps {
            alphabet.push(Op::Merge {
                rep: r,
                seed: s.clone(),
            });
        }
    }
    let mut out: Vec<Vec<Op>> = vec![];
    let mut frontier: Vec<Vec<Op>> = vec![vec![]];
    for _ in 0..len {
        let mut next = vec![];
        for h in &frontier {
            for op in &alphabet {
                let mut h2 = h.clone();
                h2.push(op.clone());
                next.push(h2);
            }
        }
        out.extend(next.iter().cloned());
        frontier = next;
        if out.len() > cap {
            break;
        }
    }
    if out.len() > cap {
        // deterministic thinning
        let step = out.len().div_ceil(cap);
        out = out.into_iter().step_by(step).collect();
    }
    out
}

/// Two receiver representations R1/R2 (mutually convertible) and a list of delta
/// representations every receiver can merge.
macro_rules! family {
    ($fname:ident, $label:literal, $r1:ty, $r2:ty, [$($d:ty),+ $(,)?]) => {
        pub fn $fname(ctx: &mut Ctx, w: &Work) {
            enum St { A($r1), B($r2) }
            fn abs(s: &St) -> A { match s { St::A(x) => x.abs(), St::B(x) => x.abs() } }
            let names: Vec<String> = vec![$(<$d as Subj>::name()),+];
            let nreps = names.len() as u8;
            let body = |ops: &Vec<Op>, obs: &mut Obs| -> Result<(), Fail> {
                let mut st = St::A(<$r1>::default());
                let mut model = abs(&st);
                if !model.is_bot() {
                    return Err(Fail::new(format!("default-not-bot:{}", $label), format!("{model:?}")));
                }
                let mut converts = 0;
                let mut reps_used = BTreeSet::new();
                for (step, op) in ops.iter().enumerate() {
                    match op {
                        Op::Convert => {
                            converts += 1;
                            st = match st {
                                St::A(x) => St::B(guard("lattice_from", $label, || <$r2 as LatticeFrom<$r1>>::lattice_from(x))?),
                                St::B(x) => St::A(guard("lattice_from", $label, || <$r1 as LatticeFrom<$r2>>::lattice_from(x))?),
                            };
                            let got = abs(&st);
                            if !got.same(&model) {
                                return Err(Fail::new(
                                    format!("convert-changes-value:{}", $label),
                                    format!("step {step}: conversion turned {model:?} into {got:?}"),
                                ));
                            }
                        }
                        Op::Merge { rep, seed } => {
                            let mut i = 0u8;
                            let mut done = false;
                            $(
                                if !done && *rep == i {
                                    done = true;
                                    if !<$d as Subj>::accepts(seed) {
                                        obs.excluded("seed-not-accepted-by-fixed-size-rep");
                                    } else {
                                        let d = <$d as Subj>::build(seed);
                                        let md = d.abs();
                                        let tag = format!("{}<-{}", $label, names[i as usize]);
                                        let flag = match &mut st {
                                            St::A(x) => guard("merge", &tag, || x.merge(d))?,
                                            St::B(x) => guard("merge", &tag, || x.merge(d))?,
                                        };
                                        let want = model.join(&md);
                                        let got = abs(&st);
                                        if !got.same(&want) {
                                            return Err(Fail::new(
                                                format!("history-value:{tag}"),
                                                format!("step {step}: {model:?} ⊔ {md:?} gave {got:?}, model says {want:?}"),
                                            ));
                                        }
                                        if flag != !md.leq(&model) {
                                            return Err(Fail::new(
                                                format!("history-flag:{tag}"),
                                                format!("step {step}: merge of {md:?} into {model:?} returned {flag}"),
                                            ));
                                        }
                                        model = want;
                                        reps_used.insert(i);
                                    }
                                }
                                i += 1;
                            )+
                            let _ = i;
                        }
                    }
                }
                obs.nontrivial(converts >= 1 && reps_used.len() >= 2 && !model.is_bot());
                if converts >= 1 { obs.class("has-conversion"); }
                Ok(())
            };
            let seeds = crate::subj::thin(<$r1 as Subj>::small(), 4);
            ctx.check_all(&format!("history-small/{}", $label), small_histories(&seeds, nreps, 3, 6000), body);
            ctx.check(&format!("history-random/{}", $label), w.random_cases, ops_strat(<$r1 as Subj>::strat(), nreps, 12), body);
        }
    };
}

use std::collections::{BTreeSet as BS, HashSet as HS};

use lattices::collections::{
    ArrayMap, ArraySet, OptionMap, OptionSet, SingletonMap, SingletonSet, VecMap, VecSet,
};
use lattices::map_union::MapUnion;
use lattices::set_union::SetUnion;
use lattices::{Max, VecUnion, WithBot, WithTop, Pair};

type SH = SetUnion<HS<u8>>;
type SB = SetUnion<BS<u8>>;
type SVec = SetUnion<Vec<u8>>;
type SVs = SetUnion<VecSet<u8>>;
type SArr = SetUnion<ArraySet<u8, 2>>;
type SSing = SetUnion<SingletonSet<u8>>;
type SOpt = SetUnion<OptionSet<u8>>;
type MH<V> = MapUnion<HashMap<u8, V>>;
type MB<V> = MapUnion<BTreeMap<u8, V>>;
type MVec<V> = MapUnion<VecMap<u8, V>>;
type MArr<V> = MapUnion<ArrayMap<u8, V, 2>>;
type MSing<V> = MapUnion<SingletonMap<u8, V>>;
type MOpt<V> = MapUnion<OptionMap<u8, V>>;

family!(sets, "SetUnion{Hash,BTree}", SH, SB, [SH, SB, SVec, SVs, SArr, SSing, SOpt]);
family!(maps_of_sets, "MapUnion<{Hash,BTree}<SetUnion>>", MH<SH>, MB<SB>,
    [MH<SH>, MB<SB>, MSing<SSing>, MOpt<SOpt>, MVec<SH>, MArr<SB>, MH<SVec>]);
family!(maps_of_max, "MapUnion<{Hash,BTree}<Max>>", MH<Max<u8>>, MB<Max<u8>>,
    [MH<Max<u8>>, MB<Max<u8>>, MSing<Max<u8>>, MOpt<Max<u8>>, MVec<Max<u8>>, MArr<Max<u8>>]);
family!(nested_maps, "MapUnion<Hash<MapUnion<BTree<Max>>>>~swapped", MH<MB<Max<u8>>>, MB<MH<Max<u8>>>,
    [MH<MB<Max<u8>>>, MB<MH<Max<u8>>>, MSing<MSing<Max<u8>>>, MOpt<MArr<Max<u8>>>]);
family!(with_bot_sets, "WithBot<SetUnion>", WithBot<SH>, WithBot<SB>, [WithBot<SH>, WithBot<SB>, WithBot<SSing>, WithBot<SOpt>, WithBot<SVec>]);
family!(with_top_sets, "WithTop<SetUnion>", WithTop<SH>, WithTop<SB>, [WithTop<SH>, WithTop<SB>, WithTop<SSing>, WithTop<SArr>]);
family!(vec_unions, "VecUnion<SetUnion>", VecUnion<SH>, VecUnion<SB>, [VecUnion<SH>, VecUnion<SB>, VecUnion<SSing>, VecUnion<SOpt>]);
family!(pairs, "Pair<SetUnion,MapUnion>", Pair<SH, MH<Max<u8>>>, Pair<SB, MB<Max<u8>>>,
    [Pair<SH, MH<Max<u8>>>, Pair<SB, MB<Max<u8>>>, Pair<SSing, MSing<Max<u8>>>, Pair<SOpt, MVec<Max<u8>>>]);

// ---------------------------------------------------------------------- union-find

type UH = UnionFind<HashMap<u8, Cell<u8>>>;
type UB = UnionFind<BTreeMap<u8, Cell<u8>>>;

#[derive(Clone, Debug, Serialize, Deserialize)]
pub enum UfOp {
    Union(u8, u8),
    Same(u8, u8),
    /// merge another union-find built (via unions) from edges, in representation rep
    Merge { rep: u8, edges: Vec<(u8, u8)> },
    Convert,
}

#[derive(Clone, Debug, Serialize, Deserialize)]
pub struct UfCase {
    /// directly constructed start state: (item, parent) entries; must be a forest or pure cycles
    start: Vec<(u8, u8)>,
    ops: Vec<UfOp>,
}

/// classify a functional graph given as distinct-key (item,parent) entries
#[derive(PartialEq, Debug)]
enum Shape {
    Forest,
    PureCycles,
    Rho,
}
fn classify(entries: &[(u8, u8)]) -> Shape {
    let m: BTreeMap<u8, u8> = entries.iter().copied().collect();
    let mut on_cycle: BTreeSet<u8> = BTreeSet::new();
    let mut any_cycle = false;
    for &start in m.keys() {
        // walk; detect whether start reaches a cycle of length >= 2
        let mut seen = vec![start];
        let mut x = start;
        loop {
            let Some(&p) = m.get(&x) else { break };
            if p == x {
                break;
            }
            if let Some(pos) = seen.iter().position(|y| *y == p) {
                any_cycle = true;
                for y in &seen[pos..] {
                    on_cycle.insert(*y);
                }
                break;
            }
            seen.push(p);
            x = p;
        }
    }
    if !any_cycle {
        return Shape::Forest;
    }
    // pure: every node that reaches a cycle lies on it
    for &start in m.keys() {
        let mut x = start;
        let mut steps = 0;
        let mut reaches = false;
        while let Some(&p) = m.get(&x) {
            if p == x || steps > 300 {
                break;
            }
            if on_cycle.contains(&p) {
                reaches = true;
                break;
            }
            x = p;
            steps += 1;
        }
        if reaches && !on_cycle.contains(&start) {
            return Shape::Rho;
        }
    }
    Shape::PureCycles
}

fn dedup_keys(e: &[(u8, u8)]) -> Vec<(u8, u8)> {
    let mut seen = BTreeSet::new();
    e.iter().copied().filter(|(k, _)| seen.insert(*k)).collect()
}

fn connected(model: &A, a: u8, b: u8) -> bool {
    if a == b {
        return true;
    }
    match model {
        A::UF(blocks) => blocks
            .iter()
            .any(|bl| bl.contains(&(a as i64)) && bl.contains(&(b as i64))),
        _ => unreachable!(),
    }
}

pub fn union_find(ctx: &mut Ctx, w: &Work) {
    enum St {
        H(UH),
        B(UB),
    }
    fn edges_of(s: &St) -> Vec<(i64, i64)> {
        match s {
            St::H(u) => u.as_reveal_ref().iter().map(|(k, c)| (*k as i64, c.get() as i64)).collect(),
            St::B(u) => u.as_reveal_ref().iter().map(|(k, c)| (*k as i64, c.get() as i64)).collect(),
        }
    }
    let body = |case: &UfCase, obs: &mut Obs| -> Result<(), Fail> {
        let start = dedup_keys(&case.start);
        let shape = classify(&start);
        if shape == Shape::Rho {
            // tail into a cycle: a directly constructed, malformed parent map (never produced by
            // union/merge); `find` does not terminate on it (DESIGN §6 T5). Out of the quantified
            // domain ("every sequence of merges/unions"): excluded and counted.
            obs.excluded("rho-shaped-start-map");
            return Ok(());
        }
        obs.class(format!("start-{shape:?}"));
        let mut st = St::B(UnionFind::new(
            start.iter().map(|(a, b)| (*a, Cell::new(*b))).collect::<BTreeMap<_, _>>(),
        ));
        let mut model = model::uf_from_edges(start.iter().map(|(a, b)| (*a as i64, *b as i64)));
        let mut queries_between = 0;
        let mut unions = 0;
        let mut converts = 0;
        for (step, op) in case.ops.iter().enumerate() {
            match op {
                UfOp::Union(a, b) => {
                    let was = connected(&model, *a, *b);
                    let r = match &mut st {
                        St::H(u) => guard("union", "UnionFind", || u.union(*a, *b).into_reveal())?,
                        St::B(u) => guard("union", "UnionFind", || u.union(*a, *b).into_reveal())?,
                    };
                    if r == was {
                        return Err(Fail::new(
                            "uf-union-flag",
                            format!("step {step}: union({a},{b}) returned {r} but they were {}connected", if was { "" } else { "not " }),
                        ));
                    }
                    model = model.join(&model::uf_from_edges([(*a as i64, *b as i64)]));
                    unions += 1;
                }
                UfOp::Same(a, b) => {
                    let r = match &st {
                        St::H(u) => guard("same", "UnionFind", || u.same(*a, *b).into_reveal())?,
                        St::B(u) => guard("same", "UnionFind", || u.same(*a, *b).into_reveal())?,
                    };
                    if r != connected(&model, *a, *b) {
                        return Err(Fail::new(
                            format!("uf-same:got-{r}"),
                            format!("step {step}: same({a},{b}) = {r}; model partition {model:?}"),
                        ));
                    }
                    if unions > 0 {
                        queries_between += 1;
                    }
                }
                UfOp::Merge { rep, edges } => {
                    let md = model::uf_from_edges(edges.iter().map(|(a, b)| (*a as i64, *b as i64)));
                    let grew = !md.leq(&model);
                    let seed = S::Edges(edges.clone());
                    let flag = match (&mut st, rep % 2) {
                        (St::H(u), 0) => guard("merge", "UnionFind<H<-H>", || u.merge(UH::build(&seed)))?,
                        (St::H(u), _) => guard("merge", "UnionFind<H<-B>", || u.merge(UB::build(&seed)))?,
                        (St::B(u), 0) => guard("merge", "UnionFind<B<-H>", || u.merge(UH::build(&seed)))?,
                        (St::B(u), _) => guard("merge", "UnionFind<B<-B>", || u.merge(UB::build(&seed)))?,
                    };
                    model = model.join(&md);
                    if flag != grew {
                        return Err(Fail::new(
                            "uf-merge-flag",
                            format!("step {step}: merge of edges {edges:?} returned {flag}, partition grew = {grew}"),
                        ));
                    }
                    unions += 1;
                }
                UfOp::Convert => {
                    converts += 1;
                    st = match st {
                        St::H(u) => St::B(guard("lattice_from", "UnionFind", || UB::lattice_from(u))?),
                        St::B(u) => St::H(guard("lattice_from", "UnionFind", || UH::lattice_from(u))?),
                    };
                }
            }
            // after every step: the revealed parent map, read as edges, closes to the model partition
            let got = model::uf_from_edges(edges_of(&st));
            if got != model {
                return Err(Fail::new(
                    "uf-partition",
                    format!("step {step} ({op:?}): parent map closes to {got:?}, model says {model:?}"),
                ));
            }
        }
        // final: all pairs of a small universe
        for a in 0..6u8 {
            for b in 0..6u8 {
                let r = match &st {
                    St::H(u) => guard("same", "UnionFind", || u.same(a, b).into_reveal())?,
                    St::B(u) => guard("same", "UnionFind", || u.same(a, b).into_reveal())?,
                };
                if r != connected(&model, a, b) {
                    return Err(Fail::new(
                        format!("uf-same-final:got-{r}"),
                        format!("final same({a},{b}) = {r}; model partition {model:?}"),
                    ));
                }
            }
        }
        obs.nontrivial((converts >= 1 || queries_between >= 1) && !model.is_bot() && unions >= 2);
        Ok(())
    };
    let op = prop_oneof![
        4 => (0u8..6, 0u8..6).prop_map(|(a, b)| UfOp::Union(a, b)),
        3 => (0u8..6, 0u8..6).prop_map(|(a, b)| UfOp::Same(a, b)),
        2 => (0u8..2, prop::collection::vec((0u8..6, 0u8..6), 0..4)).prop_map(|(rep, edges)| UfOp::Merge { rep, edges }),
        1 => Just(UfOp::Convert),
    ];
    let strat = (
        prop_oneof![
            3 => Just(vec![]),
            2 => prop::collection::vec((0u8..6, 0u8..6), 0..6),
        ],
        prop::collection::vec(op, 1..14),
    )
        .prop_map(|(start, ops)| UfCase { start, ops });
    ctx.check("history-random/UnionFind", w.random_cases * 4, strat, body);

    // bounded-exhaustive: all histories of ≤3 union/same/convert ops over items {0,1,2}
    let mut alpha = vec![UfOp::Convert];
    for a in 0..3u8 {
        for b in 0..3u8 {
            alpha.push(UfOp::Union(a, b));
            if a < b {
                alpha.push(UfOp::Same(a, b));
            }
        }
    }
    let mut cases = vec![];
    for a in &alpha {
        cases.push(UfCase { start: vec![], ops: vec![a.clone()] });
        for b in &alpha {
            cases.push(UfCase { start: vec![], ops: vec![a.clone(), b.clone()] });
            for c in &alpha {
                cases.push(UfCase { start: vec![], ops: vec![a.clone(), b.clone(), c.clone()] });
            }
        }
    }
    // all start maps over {0,1,2} (functional graphs) followed by one query/union
    for p0 in 0..3u8 {
        for p1 in 0..3u8 {
            for p2 in 0..3u8 {
                for a in &alpha {
                    cases.push(UfCase { start: vec![(0, p0), (1, p1), (2, p2)], ops: vec![a.clone()] });
                }
            }
        }
    }
    ctx.check_all("history-small/UnionFind", cases, body);
}

/// single-representation types: a fold of merges equals the model join at every step
pub fn simple<T>(ctx: &mut Ctx, w: &Work)
where
    T: Subj + Merge<T>,
{
    let ty = T::name();
    let body = |seeds: &Vec<S>, obs: &mut Obs| -> Result<(), Fail> {
        let mut it = seeds.iter();
        let Some(first) = it.next() else { return Ok(()) };
        let mut st = T::build(first);
        let mut model = st.abs();
        let mut changes = 0;
        for (i, s) in it.enumerate() {
            if !T::small_compatible(first, s) {
                obs.excluded("incompatible-point");
                continue;
            }
            let d = T::build(s);
            let md = d.abs();
            let flag = guard("merge", &ty, || st.merge(d))?;
            let want = model.join(&md);
            let got = st.abs();
            if !got.same(&want) {
                return Err(Fail::new(
                    format!("history-value:{ty}"),
                    format!("step {i}: {model:?} ⊔ {md:?} gave {got:?}, model says {want:?}"),
                ));
            }
            if flag {
                changes += 1;
            }
            model = want;
        }
        obs.nontrivial(changes >= 2);
        Ok(())
    };
    ctx.check(&format!("fold-random/{ty}"), w.random_cases, prop::collection::vec(T::strat(), 2..8), body);
}
