//! C09 — the law checkers of `lattices::algebra` against brute-force law evaluation over finite
//! operation tables, and the shipped semiring applications (through hook H1).

use lattices::algebra as la;
use serde::{Deserialize, Serialize};
use vcommon::proptest::prelude::*;
use vcommon::{Ctx, Fail, Obs};

use crate::laws::{guard, Work};

/// A finite structure on carrier {0..n-1}: two binary tables, a unary map, distinguished elements.
#[derive(Clone, Debug, Serialize, Deserialize, PartialEq, Eq, Hash)]
pub struct Tab {
    pub n: u8,
    /// f[a*n+b]
    pub f: Vec<u8>,
    pub g: Vec<u8>,
    /// unary maps b, b2 (inverse candidates)
    pub b: Vec<u8>,
    pub b2: Vec<u8>,
    pub e: u8,
    pub z: u8,
    pub one: u8,
}

impl Tab {
    fn n(&self) -> usize {
        self.n as usize
    }
    fn f(&self, a: u8, b: u8) -> u8 {
        self.f[a as usize * self.n() + b as usize]
    }
    fn g(&self, a: u8, b: u8) -> u8 {
        self.g[a as usize * self.n() + b as usize]
    }
}

// ---- brute-force laws (written from the doc comment of each checker)
fn all(n: u8) -> impl Iterator<Item = u8> + Clone {
    0..n
}
fn assoc(n: u8, f: &dyn Fn(u8, u8) -> u8) -> bool {
    all(n).all(|a| all(n).all(|b| all(n).all(|c| f(a, f(b, c)) == f(f(a, b), c))))
}
fn comm(n: u8, f: &dyn Fn(u8, u8) -> u8) -> bool {
    all(n).all(|a| all(n).all(|b| f(a, b) == f(b, a)))
}
fn idem(n: u8, f: &dyn Fn(u8, u8) -> u8) -> bool {
    all(n).all(|a| f(a, a) == a)
}
fn ident(n: u8, f: &dyn Fn(u8, u8) -> u8, e: u8) -> bool {
    all(n).all(|a| f(e, a) == a && f(a, e) == a)
}
fn absorb(n: u8, f: &dyn Fn(u8, u8) -> u8, z: u8) -> bool {
    all(n).all(|a| f(a, z) == z && f(z, a) == z)
}
fn inv(n: u8, f: &dyn Fn(u8, u8) -> u8, e: u8, b: &dyn Fn(u8) -> u8) -> bool {
    all(n).all(|a| f(a, b(a)) == e && f(b(a), a) == e)
}
fn nz_inv(n: u8, f: &dyn Fn(u8, u8) -> u8, e: u8, zero: u8, b: &dyn Fn(u8) -> u8) -> bool {
    all(n).all(|a| a == zero || (f(a, b(a)) == e && f(b(a), a) == e))
}
fn ldist(n: u8, f: &dyn Fn(u8, u8) -> u8, g: &dyn Fn(u8, u8) -> u8) -> bool {
    all(n).all(|a| all(n).all(|b| all(n).all(|c| g(a, f(b, c)) == f(g(a, b), g(a, c)))))
}
fn rdist(n: u8, f: &dyn Fn(u8, u8) -> u8, g: &dyn Fn(u8, u8) -> u8) -> bool {
    all(n).all(|a| all(n).all(|b| all(n).all(|c| g(f(b, c), a) == f(g(b, a), g(c, a)))))
}
fn no_zero_div(n: u8, f: &dyn Fn(u8, u8) -> u8, zero: u8) -> bool {
    all(n).all(|a| all(n).all(|b| a == zero || b == zero || f(a, b) != zero))
}

fn mismatch(name: &str, got: bool, want: bool, t: &Tab) -> Fail {
    Fail::new(
        format!(
            "checker:{name}:{}",
            if got { "accepts-but-law-fails" } else { "rejects-but-law-holds" }
        ),
        format!("{name} returned {} but brute force says the law {} on {t:?}", if got { "Ok" } else { "Err" }, if want { "holds" } else { "fails" }),
    )
}

macro_rules! cmp {
    ($name:literal, $got:expr, $want:expr, $t:expr, $obs:expr) => {{
        let got: bool = guard($name, "algebra", || $got.is_ok())?;
        let want: bool = $want;
        if got != want {
            return Err(mismatch($name, got, want, $t));
        }
        $obs.class(if want { concat!($name, ":holds") } else { concat!($name, ":fails") });
    }};
}

fn run_n<const N: usize>(t: &Tab, obs: &mut Obs, pairs: bool) -> Result<(), Fail> {
    let n = N as u8;
    let mut items = [0u8; N];
    for (i, x) in items.iter_mut().enumerate() {
        *x = i as u8;
    }
    let f = |a: u8, b: u8| t.f(a, b);
    let g = |a: u8, b: u8| t.g(a, b);
    let b = |a: u8| t.b[a as usize];
    let b2 = |a: u8| t.b2[a as usize];
    let (e, z, one) = (t.e, t.z, t.one);

    let l_assoc = assoc(n, &f);
    let l_comm = comm(n, &f);
    let l_idem = idem(n, &f);
    let l_ident = ident(n, &f, e);
    let l_abs = absorb(n, &f, z);
    let l_inv = inv(n, &f, e, &b);
    cmp!("associativity", la::associativity(&items, f), l_assoc, t, obs);
    cmp!("commutativity", la::commutativity(&items, f), l_comm, t, obs);
    cmp!("idempotency", la::idempotency(&items, f), l_idem, t, obs);
    cmp!("identity", la::identity(&items, f, e), l_ident, t, obs);
    cmp!("absorbing_element", la::absorbing_element(&items, f, z), l_abs, t, obs);
    cmp!("inverse", la::inverse(&items, f, e, b), l_inv, t, obs);
    cmp!("nonzero_inverse", la::nonzero_inverse(&items, f, e, z, b), nz_inv(n, &f, e, z, &b), t, obs);
    cmp!("semigroup", la::semigroup(&items, &f), l_assoc, t, obs);
    cmp!("monoid", la::monoid(&items, &f, e), l_assoc && l_ident, t, obs);
    cmp!("commutative_monoid", la::commutative_monoid(&items, &f, e), l_assoc && l_ident && l_comm, t, obs);
    cmp!("group", la::group(&items, &f, e, &b), l_assoc && l_ident && l_inv, t, obs);
    cmp!("abelian_group", la::abelian_group(&items, &f, e, &b), l_assoc && l_ident && l_inv && l_comm, t, obs);
    cmp!("no_nonzero_zero_divisors", la::no_nonzero_zero_divisors(&items, &f, z), no_zero_div(n, &f, z), t, obs);
    {
        let got = guard("get_single_function_properties", "algebra", || {
            la::get_single_function_properties(&items, f, e, b, z)
        })?;
        let mut want = vec![];
        for (nm, l) in [
            ("associativity", l_assoc),
            ("commutativity", l_comm),
            ("idempotency", l_idem),
            ("identity", l_ident),
            ("inverse", l_inv),
            ("absorbing_element", l_abs),
        ] {
            if l {
                want.push(nm);
            }
        }
        if got != want {
            return Err(Fail::new(
                "checker:get_single_function_properties",
                format!("reported {got:?}, brute force says {want:?} on {t:?}"),
            ));
        }
    }
    // one-position sensitivity: nearly-lawful tables
    let near = [l_assoc, l_comm, l_idem, l_ident, l_abs, l_inv].iter().filter(|x| **x).count();
    obs.nontrivial(near >= 1);

    if pairs {
        let l_ld = ldist(n, &f, &g);
        let l_rd = rdist(n, &f, &g);
        let g_assoc = assoc(n, &g);
        let g_ident = ident(n, &g, one);
        let g_comm = comm(n, &g);
        let l_semiring = l_assoc && l_ident && l_comm && g_assoc && g_ident && absorb(n, &g, e) && l_ld && l_rd;
        let l_ring = l_semiring && l_inv;
        let l_cring = l_ring && g_comm;
        cmp!("left_distributes", la::left_distributes(&items, f, g), l_ld, t, obs);
        cmp!("right_distributes", la::right_distributes(&items, f, g), l_rd, t, obs);
        cmp!("distributive", la::distributive(&items, &f, &g), l_ld && l_rd, t, obs);
        cmp!("semiring", la::semiring(&items, &f, &g, e, one), l_semiring, t, obs);
        cmp!("ring", la::ring(&items, &f, &g, e, one, &b), l_ring, t, obs);
        cmp!("commutative_ring", la::commutative_ring(&items, &f, &g, e, one, &b), l_cring, t, obs);
        cmp!(
            "integral_domain",
            la::integral_domain(&items, &f, &g, e, one, &b),
            l_cring && no_zero_div(n, &g, e),
            t,
            obs
        );
        cmp!(
            "field",
            la::field(&items, &f, &g, e, one, &b, &b2),
            l_cring && nz_inv(n, &g, one, e, &b2),
            t,
            obs
        );
        // linearity of the unary map b : (S,f) -> (S,g), as documented: q(a+b) = q(a)+q(b)
        let l_lin = all(n).all(|x| all(n).all(|y| b(f(x, y)) == g(b(x), b(y))));
        cmp!("linearity", la::linearity(&items[..], f, g, b), l_lin, t, obs);
        // bilinearity of q(x,y) := table g used as a map S×S→S, with (+_S, +_T, +_R) = (f, f, f)
        let q = |x: u8, y: u8| t.g(x, y);
        let l_bil = all(n).all(|a| {
            all(n).all(|bb| {
                all(n).all(|c| {
                    all(n).all(|d| q(f(a, bb), c) == f(q(a, c), q(bb, c)) && q(a, f(c, d)) == f(q(a, c), q(a, d)))
                })
            })
        });
        cmp!("bilinearity", la::bilinearity(&items[..], &items[..], f, f, f, q), l_bil, t, obs);
        obs.nontrivial(l_ld || l_rd || l_lin || l_bil || l_semiring);
    }
    Ok(())
}

fn run(t: &Tab, obs: &mut Obs, pairs: bool) -> Result<(), Fail> {
    match t.n {
        1 => run_n::<1>(t, obs, pairs),
        2 => run_n::<2>(t, obs, pairs),
        3 => run_n::<3>(t, obs, pairs),
        4 => run_n::<4>(t, obs, pairs),
        5 => run_n::<5>(t, obs, pairs),
        6 => run_n::<6>(t, obs, pairs),
        8 => run_n::<8>(t, obs, pairs),
        _ => Ok(()),
    }
}

/// decode number `k` as a base-n digit string of length len
fn digits(mut k: u64, n: u8, len: usize) -> Vec<u8> {
    let mut v = vec![0u8; len];
    for d in v.iter_mut() {
        *d = (k % n as u64) as u8;
        k /= n as u64;
    }
    v
}

/// well-known lawful structures so that the "law holds" side of every composite checker is hit
fn lawful() -> Vec<Tab> {
    let mut out = vec![];
    for n in 1..=5u8 {
        let nn = n as usize;
        let tab = |h: &dyn Fn(u8, u8) -> u8| -> Vec<u8> {
            (0..nn * nn).map(|i| h((i / nn) as u8, (i % nn) as u8)).collect()
        };
        let add = tab(&|a, b| (a + b) % n);
        let mul = tab(&|a, b| ((a as u16 * b as u16) % n as u16) as u8);
        let neg: Vec<u8> = (0..n).map(|a| (n - a) % n).collect();
        let minv: Vec<u8> = (0..n)
            .map(|a| (0..n).find(|x| (a as u16 * *x as u16) % n as u16 == 1 % n as u16).unwrap_or(0))
            .collect();
        // Z_n ring / field
        out.push(Tab { n, f: add.clone(), g: mul.clone(), b: neg.clone(), b2: minv.clone(), e: 0, z: 0, one: 1 % n });
        // (max, min) lattice semiring
        let mx = tab(&|a, b| a.max(b));
        let mn = tab(&|a, b| a.min(b));
        let id: Vec<u8> = (0..n).collect();
        out.push(Tab { n, f: mx.clone(), g: mn.clone(), b: id.clone(), b2: id.clone(), e: 0, z: n - 1, one: n - 1 });
        // left-zero semigroup (non-commutative) with identity map: linear as documented
        let lz = tab(&|a, _| a);
        out.push(Tab { n, f: lz.clone(), g: lz.clone(), b: id.clone(), b2: id.clone(), e: 0, z: 0, one: 0 });
        // multiplication as a bilinear map over addition
        out.push(Tab { n, f: add.clone(), g: mul.clone(), b: id.clone(), b2: id.clone(), e: 0, z: 0, one: 1 % n });
    }
    // ---- structures that satisfy a composite law but not the next stronger one
    // S3 (n = 6): a group that is not abelian. Elements are permutations of {0,1,2} in lexicographic order.
    {
        let perms: [[u8; 3]; 6] = [[0, 1, 2], [0, 2, 1], [1, 0, 2], [1, 2, 0], [2, 0, 1], [2, 1, 0]];
        let idx = |p: [u8; 3]| perms.iter().position(|q| *q == p).unwrap() as u8;
        let comp = |a: u8, b: u8| {
            let (p, q) = (perms[a as usize], perms[b as usize]);
            idx([p[q[0] as usize], p[q[1] as usize], p[q[2] as usize]])
        };
        let f: Vec<u8> = (0..36).map(|i| comp((i / 6) as u8, (i % 6) as u8)).collect();
        let inv: Vec<u8> = (0..6u8).map(|a| (0..6u8).find(|b| comp(a, *b) == 0).unwrap()).collect();
        let id: Vec<u8> = (0..6).collect();
        out.push(Tab { n: 6, f: f.clone(), g: f.clone(), b: inv.clone(), b2: id.clone(), e: 0, z: 0, one: 0 });
    }
    // upper-triangular 2x2 matrices over GF(2) (n = 8): a ring with unity whose multiplication is
    // not commutative (the smallest such ring). Element x encodes [[a,b],[0,d]] as bits a=4,b=2,d=1.
    {
        let add = |x: u8, y: u8| x ^ y;
        let mul = |x: u8, y: u8| {
            let (a1, b1, d1) = ((x >> 2) & 1, (x >> 1) & 1, x & 1);
            let (a2, b2, d2) = ((y >> 2) & 1, (y >> 1) & 1, y & 1);
            ((a1 & a2) << 2) | ((((a1 & b2) ^ (b1 & d2)) & 1) << 1) | (d1 & d2)
        };
        let f: Vec<u8> = (0..64).map(|i| add((i / 8) as u8, (i % 8) as u8)).collect();
        let g: Vec<u8> = (0..64).map(|i| mul((i / 8) as u8, (i % 8) as u8)).collect();
        let neg: Vec<u8> = (0..8).collect(); // characteristic 2: every element is its own negative
        out.push(Tab { n: 8, f, g, b: neg.clone(), b2: neg, e: 0, z: 0, one: 0b101 });
    }
    out
}

pub fn c09(ctx: &mut Ctx, w: &Work) {
    // ---- single operation: ALL tables on carriers of size 1,2,3, each with every (e, z) and a
    // family of unary maps
    let mut singles = vec![];
    for n in 1..=3u8 {
        let cells = (n as usize) * (n as usize);
        let ntab = (n as u64).pow(cells as u32);
        let nun = (n as u64).pow(n as u32);
        for k in 0..ntab {
            let f = digits(k, n, cells);
            for e in 0..n {
                // rotate through z and unary maps deterministically so every (table, e) sees
                // several of them without multiplying the space by n^n * n
                for j in 0..(if n == 3 { 3 } else { nun }) {
                    let bi = (k + j * 7 + e as u64) % nun;
                    singles.push(Tab {
                        n,
                        f: f.clone(),
                        g: f.clone(),
                        b: digits(bi, n, n as usize),
                        b2: digits((bi + 1) % nun, n, n as usize),
                        e,
                        z: ((k + j) % n as u64) as u8,
                        one: e,
                    });
                }
            }
        }
    }
    ctx.check_all("single-op-tables-n<=3", singles, |t, obs| run(t, obs, false));
    // ---- pairs of operations: all pairs for n ≤ 2 with all e/one/b; lawful structures n ≤ 5
    let mut pairs = vec![];
    for n in 1..=2u8 {
        let cells = (n as usize) * (n as usize);
        let ntab = (n as u64).pow(cells as u32);
        let nun = (n as u64).pow(n as u32);
        for kf in 0..ntab {
            for kg in 0..ntab {
                for e in 0..n {
                    for one in 0..n {
                        for bi in 0..nun {
                            pairs.push(Tab {
                                n,
                                f: digits(kf, n, cells),
                                g: digits(kg, n, cells),
                                b: digits(bi, n, n as usize),
                                b2: digits((bi + kg) % nun, n, n as usize),
                                e,
                                z: e,
                                one,
                            });
                        }
                    }
                }
            }
        }
    }
    pairs.extend(lawful());
    ctx.check_all("op-pairs-n<=2+lawful", pairs, |t, obs| run(t, obs, true));
    // ---- random tables n = 3..5 (pairs), plus single-cell perturbations of lawful structures
    let law = lawful();
    let nlaw = law.len();
    let strat = prop_oneof![
        3 => (3u8..=5).prop_flat_map(|n| {
            let c = (n as usize) * (n as usize);
            (
                prop::collection::vec(0..n, c),
                prop::collection::vec(0..n, c),
                prop::collection::vec(0..n, n as usize),
                prop::collection::vec(0..n, n as usize),
                0..n,
                0..n,
                0..n,
            )
                .prop_map(move |(f, g, b, b2, e, z, one)| Tab { n, f, g, b, b2, e, z, one })
        }),
        4 => (0..nlaw, any::<u16>(), any::<u16>(), 0u8..4).prop_map(move |(i, pos, val, which)| {
            // perturb exactly one cell of one component of a lawful structure
            let mut t = law[i].clone();
            let n = t.n;
            let v = (val % n as u16) as u8;
            match which {
                0 => {
                    let p = pos as usize % t.f.len();
                    t.f[p] = v;
                }
                1 => {
                    let p = pos as usize % t.g.len();
                    t.g[p] = v;
                }
                2 => {
                    let p = pos as usize % t.b.len();
                    t.b[p] = v;
                }
                _ => {
                    t.one = v;
                }
            }
            t
        }),
    ];
    ctx.check("op-pairs-random-n<=5", w.random_cases * 10, strat, |t, obs| run(t, obs, true));
    semirings(ctx, w);
}

// ------------------------------------------------------------------ shipped semiring applications

#[derive(Clone, Debug, Serialize, Deserialize)]
pub struct SrCase {
    a: u16,
    b: u16,
    c: u16,
}

fn semirings(ctx: &mut Ctx, w: &Work) {
    use lattices::semiring_application::{
        BinaryTrust, ConfidenceScore, Cost, FuzzyLogic, Multiplicity, U32WithInfinity,
    };
    use lattices::{Addition, Multiplication, One, Zero};

    /// check the semiring laws for elements a,b,c of a structure given by closures
    fn laws<T: Clone + PartialEq + std::fmt::Debug>(
        name: &str,
        a: T,
        b: T,
        c: T,
        add: &dyn Fn(T, T) -> T,
        mul: &dyn Fn(T, T) -> T,
        zero: T,
        one: T,
        eq: &dyn Fn(&T, &T) -> bool,
    ) -> Result<(), Fail> {
        let chk = |law: &str, l: T, r: T| -> Result<(), Fail> {
            if eq(&l, &r) {
                Ok(())
            } else {
                Err(Fail::new(
                    format!("semiring-law:{name}:{law}"),
                    format!("{law} fails for a={a:?} b={b:?} c={c:?}: {l:?} vs {r:?}"),
                ))
            }
        };
        chk("add-assoc", add(a.clone(), add(b.clone(), c.clone())), add(add(a.clone(), b.clone()), c.clone()))?;
        chk("add-comm", add(a.clone(), b.clone()), add(b.clone(), a.clone()))?;
        chk("add-zero", add(a.clone(), zero.clone()), a.clone())?;
        chk("zero-add", add(zero.clone(), a.clone()), a.clone())?;
        chk("mul-assoc", mul(a.clone(), mul(b.clone(), c.clone())), mul(mul(a.clone(), b.clone()), c.clone()))?;
        chk("mul-one", mul(a.clone(), one.clone()), a.clone())?;
        chk("one-mul", mul(one.clone(), a.clone()), a.clone())?;
        chk("mul-zero", mul(a.clone(), zero.clone()), zero.clone())?;
        chk("zero-mul", mul(zero.clone(), a.clone()), zero.clone())?;
        chk(
            "left-distrib",
            mul(a.clone(), add(b.clone(), c.clone())),
            add(mul(a.clone(), b.clone()), mul(a.clone(), c.clone())),
        )?;
        chk(
            "right-distrib",
            mul(add(b.clone(), c.clone()), a.clone()),
            add(mul(b.clone(), a.clone()), mul(c.clone(), a.clone())),
        )?;
        Ok(())
    }

    let body = |s: &SrCase, obs: &mut Obs| -> Result<(), Fail> {
        let exact = |x: &u32, y: &u32| x == y;
        // BinaryTrust
        {
            let v = |x: u16| x % 2 == 1;
            let add = |x: bool, y: bool| {
                let mut t = BinaryTrust::verif_new(x);
                t.add(BinaryTrust::verif_new(y));
                t.verif_value()
            };
            let mul = |x: bool, y: bool| {
                let mut t = BinaryTrust::verif_new(x);
                t.mul(BinaryTrust::verif_new(y));
                t.verif_value()
            };
            let p = BinaryTrust::new();
            guard("semiring", "BinaryTrust", || {
                laws("BinaryTrust", v(s.a), v(s.b), v(s.c), &add, &mul, p.zero(), p.one(), &|x, y| x == y)
            })??;
        }
        // Multiplicity (values small enough that checked_* cannot overflow)
        {
            let v = |x: u16| (x % 1000) as u32;
            let add = |x: u32, y: u32| {
                let mut t = Multiplicity::new(x);
                t.add(Multiplicity::new(y));
                t.verif_value()
            };
            let mul = |x: u32, y: u32| {
                let mut t = Multiplicity::new(x);
                t.mul(Multiplicity::new(y));
                t.verif_value()
            };
            let p = Multiplicity::new(7);
            guard("semiring", "Multiplicity", || {
                laws("Multiplicity", v(s.a), v(s.b), v(s.c), &add, &mul, p.zero(), p.one(), &exact)
            })??;
        }
        // Cost (min, +) over u32 ∪ {∞}
        {
            let v = |x: u16| {
                if x % 5 == 0 {
                    U32WithInfinity::Infinity
                } else {
                    U32WithInfinity::Finite((x % 997) as u32)
                }
            };
            let add = |x: U32WithInfinity, y: U32WithInfinity| {
                let mut t = Cost::new(x);
                t.add(Cost::new(y));
                t.verif_value()
            };
            let mul = |x: U32WithInfinity, y: U32WithInfinity| {
                let mut t = Cost::new(x);
                t.mul(Cost::new(y));
                t.verif_value()
            };
            let p = Cost::new(U32WithInfinity::Finite(3));
            guard("semiring", "Cost", || {
                laws("Cost", v(s.a), v(s.b), v(s.c), &add, &mul, p.zero(), p.one(), &|x, y| x == y)
            })??;
        }
        // ConfidenceScore (max, *) and FuzzyLogic (max, min) on dyadic rationals k/16 (exact in f64)
        {
            let v = |x: u16| (x % 17) as f64 / 16.0;
            let feq = |x: &f64, y: &f64| x == y;
            let add = |x: f64, y: f64| {
                let mut t = ConfidenceScore::new(x);
                t.add(ConfidenceScore::new(y));
                t.verif_value()
            };
            let mul = |x: f64, y: f64| {
                let mut t = ConfidenceScore::new(x);
                t.mul(ConfidenceScore::new(y));
                t.verif_value()
            };
            let p = ConfidenceScore::new(0.5);
            guard("semiring", "ConfidenceScore", || {
                laws("ConfidenceScore", v(s.a), v(s.b), v(s.c), &add, &mul, p.zero(), p.one(), &feq)
            })??;
            let add = |x: f64, y: f64| {
                let mut t = FuzzyLogic::new(x);
                t.add(FuzzyLogic::new(y));
                t.verif_value()
            };
            let mul = |x: f64, y: f64| {
                let mut t = FuzzyLogic::new(x);
                t.mul(FuzzyLogic::new(y));
                t.verif_value()
            };
            let p = FuzzyLogic::new(0.5);
            guard("semiring", "FuzzyLogic", || {
                laws("FuzzyLogic", v(s.a), v(s.b), v(s.c), &add, &mul, p.zero(), p.one(), &feq)
            })??;
            // arbitrary values in [0,1] with a relative tolerance (products round)
            let v = |x: u16| x as f64 / 65535.0;
            let tol = |x: &f64, y: &f64| (x - y).abs() <= 1e-12 * x.abs().max(y.abs()).max(1e-300);
            let add = |x: f64, y: f64| {
                let mut t = ConfidenceScore::new(x);
                t.add(ConfidenceScore::new(y));
                t.verif_value()
            };
            let mul = |x: f64, y: f64| {
                let mut t = ConfidenceScore::new(x);
                t.mul(ConfidenceScore::new(y));
                t.verif_value()
            };
            guard("semiring", "ConfidenceScore", || {
                laws("ConfidenceScore~tol", v(s.a), v(s.b), v(s.c), &add, &mul, 0.0, 1.0, &tol)
            })??;
        }
        obs.nontrivial(s.a != s.b && s.b != s.c && s.a != s.c);
        Ok(())
    };
    ctx.check(
        "shipped-semirings",
        w.random_cases * 5,
        (any::<u16>(), any::<u16>(), any::<u16>()).prop_map(|(a, b, c)| SrCase { a, b, c }),
        body,
    );
}
