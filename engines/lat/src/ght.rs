//! C08 — generalized hash tries as sets of tuples; C07 — shipped (bi)morphisms distribute.

use std::cmp::Ordering;
use std::collections::{BTreeMap, BTreeSet, HashMap, HashSet};

use lattices::ght::lattice::{
    DeepJoinLatticeBimorphism, GhtBimorphism, GhtCartesianProductBimorphism,
    GhtNodeKeyedBimorphism, GhtValTypeProductBimorphism,
};
use lattices::ght::{GeneralizedHashTrieNode, GhtGet, GhtPrefixIter};
use lattices::map_union::{KeyedBimorphism, MapUnion};
use lattices::set_union::{CartesianProductBimorphism, SetUnion};
use lattices::{GhtType, IsBot, LatticeBimorphism, Max, Merge, PairBimorphism};
use serde::{Deserialize, Serialize};
use variadics::variadic_collections::{VariadicCountedHashSetStd, VariadicHashSetStd};
use variadics::{var_expr, var_type, VariadicExt};
use vcommon::proptest::prelude::*;
use vcommon::{Ctx, Fail, Obs};

use crate::laws::{guard, Work};

type R3 = [u8; 3];
/// leaf-level `prefix_iter` demands `'static` prefix references (the repository's tests use
/// literals); give every byte a static home
static BYTES: [u8; 256] = {
    let mut a = [0u8; 256];
    let mut i = 0;
    while i < 256 {
        a[i] = i as u8;
        i += 1;
    }
    a
};
fn sr(x: u8) -> &'static u8 {
    &BYTES[x as usize]
}
type V3 = var_type!(u8, u8, u8);
fn v3(r: R3) -> V3 {
    var_expr!(r[0], r[1], r[2])
}
fn r3(v: <V3 as VariadicExt>::AsRefVar<'_>) -> R3 {
    let var_expr!(a, b, c) = v;
    [*a, *b, *c]
}

#[derive(Clone, Debug, Serialize, Deserialize)]
pub enum GOp {
    Insert(R3),
    Merge(Vec<R3>),
    Contains(R3),
    Compare(Vec<R3>),
    Prefix(R3, u8),
    FindLeaf(R3),
    Iter,
}

fn ord_name(o: Option<Ordering>) -> &'static str {
    match o {
        None => "None",
        Some(Ordering::Less) => "Less",
        Some(Ordering::Equal) => "Equal",
        Some(Ordering::Greater) => "Greater",
    }
}
fn set_cmp(a: &BTreeSet<R3>, b: &BTreeSet<R3>) -> Option<Ordering> {
    match (a.is_subset(b), b.is_subset(a)) {
        (true, true) => Some(Ordering::Equal),
        (true, false) => Some(Ordering::Less),
        (false, true) => Some(Ordering::Greater),
        (false, false) => None,
    }
}

/// one trie shape over 3 u8 columns with set storage (a lattice)
macro_rules! shape3 {
    ($fname:ident, $label:literal, $ty:ty, $prefix:expr) => {
        fn $fname(ops: &Vec<GOp>, obs: &mut Obs) -> Result<(), Fail> {
            type T = $ty;
            let label = $label;
            let mut t = T::default();
            let mut m: BTreeSet<R3> = BTreeSet::new();
            let mut incomparable_seen = false;
            for (step, op) in ops.iter().enumerate() {
                match op {
                    GOp::Insert(r) => {
                        guard("insert", label, || t.insert(v3(*r)))?;
                        m.insert(*r);
                    }
                    GOp::Merge(rows) => {
                        let other = guard("new_from", label, || T::new_from(rows.iter().map(|r| v3(*r))))?;
                        let om: BTreeSet<R3> = rows.iter().copied().collect();
                        let grew = !om.is_subset(&m);
                        let flag = guard("merge", label, || Merge::merge(&mut t, other))?;
                        m.extend(om);
                        if flag != grew {
                            return Err(Fail::new(
                                format!("ght-merge-flag:{label}"),
                                format!("step {step}: merge of {rows:?} returned {flag}, set grew = {grew}"),
                            ));
                        }
                    }
                    GOp::Contains(r) => {
                        let got = guard("contains", label, || t.contains(v3(*r).as_ref_var()))?;
                        if got != m.contains(r) {
                            return Err(Fail::new(
                                format!("ght-contains:{label}:got-{got}"),
                                format!("step {step}: contains({r:?}) = {got}; rows {m:?}"),
                            ));
                        }
                    }
                    GOp::Compare(rows) => {
                        let other = T::new_from(rows.iter().map(|r| v3(*r)));
                        let om: BTreeSet<R3> = rows.iter().copied().collect();
                        let want = set_cmp(&m, &om);
                        if want.is_none() {
                            incomparable_seen = true;
                        }
                        let got = guard("partial_cmp", label, || t.partial_cmp(&other))?;
                        if got != want {
                            return Err(Fail::new(
                                format!("ght-partial_cmp:{label}:got-{}-want-{}", ord_name(got), ord_name(want)),
                                format!("step {step}: {m:?} vs {om:?}"),
                            ));
                        }
                        let eq = guard("eq", label, || t == other)?;
                        if eq != (want == Some(Ordering::Equal)) {
                            return Err(Fail::new(
                                format!("ght-eq:{label}:got-{eq}"),
                                format!("step {step}: {m:?} == {om:?} gave {eq}"),
                            ));
                        }
                    }
                    GOp::Prefix(r, k) => {
                        let k = (*k % 4) as usize;
                        let f: fn(&T, R3, usize) -> Option<Vec<R3>> = $prefix;
                        if let Some(got) = guard("prefix_iter", label, || f(&t, *r, k))? {
                            let got: BTreeSet<R3> = got.into_iter().collect();
                            let want: BTreeSet<R3> = m.iter().filter(|x| x[..k] == r[..k]).copied().collect();
                            if got != want {
                                return Err(Fail::new(
                                    format!("ght-prefix_iter:{label}:len-{k}"),
                                    format!("step {step}: prefix {:?} gave {got:?}, expected {want:?}", &r[..k]),
                                ));
                            }
                        }
                    }
                    GOp::FindLeaf(r) => {
                        let got = guard("find_containing_leaf", label, || {
                            t.find_containing_leaf(v3(*r).as_ref_var())
                                .map(|l| l.recursive_iter().map(r3).collect::<Vec<R3>>())
                        })?;
                        match got {
                            None if m.contains(r) => {
                                return Err(Fail::new(
                                    format!("ght-find_containing_leaf:{label}:missing"),
                                    format!("step {step}: row {r:?} is stored but no leaf found"),
                                ))
                            }
                            Some(l) if !m.contains(r) || !l.contains(r) || l.iter().any(|x| !m.contains(x)) => {
                                return Err(Fail::new(
                                    format!("ght-find_containing_leaf:{label}:wrong-leaf"),
                                    format!("step {step}: row {r:?} -> leaf {l:?}; rows {m:?}"),
                                ))
                            }
                            _ => {}
                        }
                    }
                    GOp::Iter => {}
                }
                // after every step: iteration (as a multiset) is exactly the model set
                let rows: Vec<R3> = guard("recursive_iter", label, || t.recursive_iter().map(r3).collect())?;
                let as_set: BTreeSet<R3> = rows.iter().copied().collect();
                if as_set != m || rows.len() != m.len() {
                    return Err(Fail::new(
                        format!("ght-iter:{label}"),
                        format!("step {step} ({op:?}): recursive_iter gave {rows:?}, expected the set {m:?}"),
                    ));
                }
                if guard("is_bot", label, || t.is_bot())? != m.is_empty() {
                    return Err(Fail::new(format!("ght-is_bot:{label}"), format!("step {step}: rows {m:?}")));
                }
            }
            let heads: BTreeSet<u8> = m.iter().map(|r| r[0]).collect();
            obs.nontrivial(incomparable_seen && heads.len() >= 2);
            Ok(())
        }
    };
}

shape3!(shape_k1, "Ght<u8 => u8,u8>", GhtType!(u8 => u8, u8: VariadicHashSetStd), |t, r, k| match k {
    0 => Some(t.prefix_iter(var_expr!()).map(r3).collect()),
    1 => Some(t.prefix_iter(var_expr!(sr(r[0]))).map(r3).collect()),
    2 => Some(t.prefix_iter(var_expr!(sr(r[0]), sr(r[1]))).map(r3).collect()),
    _ => Some(t.prefix_iter(var_expr!(sr(r[0]), sr(r[1]), sr(r[2]))).map(r3).collect()),
});
shape3!(shape_k2, "Ght<u8,u8 => u8>", GhtType!(u8, u8 => u8: VariadicHashSetStd), |t, r, k| match k {
    0 => Some(t.prefix_iter(var_expr!()).map(r3).collect()),
    1 => Some(t.prefix_iter(var_expr!(sr(r[0]))).map(r3).collect()),
    2 => Some(t.prefix_iter(var_expr!(sr(r[0]), sr(r[1]))).map(r3).collect()),
    _ => Some(t.prefix_iter(var_expr!(sr(r[0]), sr(r[1]), sr(r[2]))).map(r3).collect()),
});
shape3!(shape_k3, "Ght<u8,u8,u8 => ()>", GhtType!(u8, u8, u8 => (): VariadicHashSetStd), |t, r, k| match k {
    0 => Some(t.prefix_iter(var_expr!()).map(r3).collect()),
    1 => Some(t.prefix_iter(var_expr!(sr(r[0]))).map(r3).collect()),
    2 => Some(t.prefix_iter(var_expr!(sr(r[0]), sr(r[1]))).map(r3).collect()),
    _ => None,
});
shape3!(shape_leaf, "Ght<() => u8,u8,u8>", GhtType!(() => u8, u8, u8: VariadicHashSetStd), |t, r, k| match k {
    1 => Some(t.prefix_iter(var_expr!(sr(r[0]))).map(r3).collect()),
    2 => Some(t.prefix_iter(var_expr!(sr(r[0]), sr(r[1]))).map(r3).collect()),
    3 => Some(t.prefix_iter(var_expr!(sr(r[0]), sr(r[1]), sr(r[2]))).map(r3).collect()),
    _ => None,
});

/// multiset storage (not a lattice): insertion / membership / iteration with multiplicity
fn counted(ops: &Vec<GOp>, _obs: &mut Obs) -> Result<(), Fail> {
    type T = GhtType!(u8 => u8, u8: VariadicCountedHashSetStd);
    let label = "Ght<u8 => u8,u8 : counted>";
    let mut t = T::default();
    let mut m: BTreeMap<R3, usize> = BTreeMap::new();
    for (step, op) in ops.iter().enumerate() {
        match op {
            GOp::Insert(r) => {
                guard("insert", label, || t.insert(v3(*r)))?;
                *m.entry(*r).or_default() += 1;
            }
            GOp::Merge(rows) => {
                for r in rows {
                    guard("insert", label, || t.insert(v3(*r)))?;
                    *m.entry(*r).or_default() += 1;
                }
            }
            GOp::Contains(r) | GOp::FindLeaf(r) => {
                let got = guard("contains", label, || t.contains(v3(*r).as_ref_var()))?;
                if got != m.contains_key(r) {
                    return Err(Fail::new(format!("ght-contains:{label}:got-{got}"), format!("step {step}: {r:?}; rows {m:?}")));
                }
            }
            _ => {}
        }
        let mut got: BTreeMap<R3, usize> = BTreeMap::new();
        for r in guard("recursive_iter", label, || t.recursive_iter().map(r3).collect::<Vec<_>>())? {
            *got.entry(r).or_default() += 1;
        }
        if got != m {
            return Err(Fail::new(format!("ght-iter:{label}"), format!("step {step}: got {got:?}, expected multiset {m:?}")));
        }
    }
    Ok(())
}

fn row_strat() -> impl Strategy<Value = R3> {
    (0u8..3, 0u8..3, 0u8..2).prop_map(|(a, b, c)| [a, b, c])
}

pub fn c08(ctx: &mut Ctx, w: &Work) {
    let op = prop_oneof![
        4 => row_strat().prop_map(GOp::Insert),
        2 => prop::collection::vec(row_strat(), 0..5).prop_map(GOp::Merge),
        2 => row_strat().prop_map(GOp::Contains),
        3 => prop::collection::vec(row_strat(), 0..5).prop_map(GOp::Compare),
        2 => (row_strat(), 0u8..4).prop_map(|(r, k)| GOp::Prefix(r, k)),
        1 => row_strat().prop_map(GOp::FindLeaf),
    ];
    let body = |ops: &Vec<GOp>, obs: &mut Obs| -> Result<(), Fail> {
        shape_k1(ops, obs)?;
        shape_k2(ops, obs)?;
        shape_k3(ops, obs)?;
        shape_leaf(ops, obs)?;
        counted(ops, obs)?;
        join_check(ops, obs)?;
        force_check(ops, obs)?;
        Ok(())
    };
    ctx.check("history-random/ght", w.random_cases * 4, prop::collection::vec(op, 1..12), body);
    // bounded-exhaustive: all pairs of tries over 4 rows (16 subsets each): build by inserts, compare, merge
    let dom: [R3; 4] = [[0, 0, 0], [0, 1, 0], [1, 0, 0], [1, 0, 1]];
    let sub = |mask: u32| -> Vec<R3> { (0..4).filter(|i| mask & (1 << i) != 0).map(|i| dom[i]).collect() };
    let mut cases = vec![];
    for a in 0..16u32 {
        for b in 0..16u32 {
            let mut ops: Vec<GOp> = sub(a).into_iter().map(GOp::Insert).collect();
            ops.push(GOp::Compare(sub(b)));
            ops.push(GOp::Prefix([0, 1, 0], (a % 4) as u8));
            ops.push(GOp::Merge(sub(b)));
            ops.push(GOp::Compare(sub(b)));
            ops.push(GOp::Contains(dom[(a as usize + b as usize) % 4]));
            ops.push(GOp::FindLeaf(dom[b as usize % 4]));
            cases.push(ops);
        }
    }
    ctx.check_all("pairs-small/ght", cases, body);
}

// ------------------------------------------------------------------ COLT force

/// forcing a leaf (COLT) re-homes every row, with multiplicity, one level down
fn force_check(ops: &Vec<GOp>, _obs: &mut Obs) -> Result<(), Fail> {
    use lattices::ght::colt::ColtForestNode;
    type Leaf = GhtType!(() => u8, u8, u8: VariadicCountedHashSetStd);
    let label = "ColtForestNode::force";
    let mut rows: Vec<R3> = vec![];
    for op in ops {
        match op {
            GOp::Insert(r) | GOp::Contains(r) | GOp::FindLeaf(r) => rows.push(*r),
            GOp::Merge(rs) | GOp::Compare(rs) => rows.extend(rs.iter().copied()),
            _ => {}
        }
    }
    let mut want: BTreeMap<R3, usize> = BTreeMap::new();
    for r in &rows {
        *want.entry(*r).or_default() += 1;
    }
    let collect = |it: Vec<R3>| {
        let mut m: BTreeMap<R3, usize> = BTreeMap::new();
        for r in it {
            *m.entry(r).or_default() += 1;
        }
        m
    };
    let leaf = Leaf::new_from(rows.iter().map(|r| v3(*r)));
    let forced = guard("force", label, || leaf.force())?;
    let Some(forced) = forced else {
        return Err(Fail::new("colt-force:none-for-leaf", "force() of a leaf returned None"));
    };
    if forced.height() != 1 {
        return Err(Fail::new("colt-force:height", format!("forced height {}", forced.height())));
    }
    let got = collect(forced.recursive_iter().map(r3).collect());
    if got != want {
        return Err(Fail::new("colt-force:rows", format!("forced trie holds {got:?}, leaf held {want:?}")));
    }
    for r in want.keys() {
        if !forced.contains(v3(*r).as_ref_var()) {
            return Err(Fail::new("colt-force:contains", format!("row {r:?} not found after force")));
        }
        let under_head: BTreeMap<R3, usize> = collect(forced.prefix_iter(var_expr!(sr(r[0]))).map(r3).collect());
        let want_head: BTreeMap<R3, usize> = want.iter().filter(|(x, _)| x[0] == r[0]).map(|(x, n)| (*x, *n)).collect();
        if under_head != want_head {
            return Err(Fail::new("colt-force:head-bucket", format!("head {} holds {under_head:?}, expected {want_head:?}", r[0])));
        }
    }
    // force_drain empties the source
    let mut leaf2 = Leaf::new_from(rows.iter().map(|r| v3(*r)));
    let forced2 = guard("force_drain", label, || leaf2.force_drain())?;
    let got2 = forced2.map(|f| collect(f.recursive_iter().map(r3).collect()));
    if got2 != Some(want.clone()) || leaf2.recursive_iter().count() != 0 {
        return Err(Fail::new("colt-force_drain", format!("drained into {got2:?} leaving {} rows; expected {want:?}", leaf2.recursive_iter().count())));
    }
    Ok(())
}

// ------------------------------------------------------------------ joins of two tries

type TA = GhtType!(u8, u8 => u8: VariadicHashSetStd);
type JoinOut = var_type!(u8, u8, u8, u8);

fn join_check(ops: &Vec<GOp>, _obs: &mut Obs) -> Result<(), Fail> {
    // split the history's rows into two relations A(k1,k2,v) and B(k1,k2,w)
    let mut a_rows: BTreeSet<R3> = BTreeSet::new();
    let mut b_rows: BTreeSet<R3> = BTreeSet::new();
    for op in ops {
        match op {
            GOp::Insert(r) | GOp::Contains(r) => {
                a_rows.insert(*r);
            }
            GOp::Merge(rs) | GOp::Compare(rs) => b_rows.extend(rs.iter().copied()),
            _ => {}
        }
    }
    let a = TA::new_from(a_rows.iter().map(|r| v3(*r)));
    let b = TA::new_from(b_rows.iter().map(|r| v3(*r)));
    // relational join on (k1,k2): (k1,k2,v,w)
    let mut want: BTreeSet<[u8; 4]> = BTreeSet::new();
    for x in &a_rows {
        for y in &b_rows {
            if x[0] == y[0] && x[1] == y[1] {
                want.insert([x[0], x[1], x[2], y[2]]);
            }
        }
    }
    type Bim = <(TA, TA) as DeepJoinLatticeBimorphism<VariadicHashSetStd<JoinOut>>>::DeepJoinLatticeBimorphism;
    let got: BTreeSet<[u8; 4]> = guard("deep-join", "DeepJoinLatticeBimorphism", || {
        let mut bim = <Bim as Default>::default();
        let out = bim.call(&a, &b);
        out.recursive_iter()
            .map(|var_expr!(p, q, r, s)| [*p, *q, *r, *s])
            .collect()
    })?;
    if got != want {
        return Err(Fail::new(
            "ght-deep-join",
            format!("join of {a_rows:?} and {b_rows:?} gave {got:?}, relational join is {want:?}"),
        ));
    }
    Ok(())
}

// ------------------------------------------------------------------ C07

#[derive(Clone, Debug, Serialize, Deserialize)]
pub struct BiCase {
    a: Vec<(u8, u8)>,
    da: Vec<(u8, u8)>,
    b: Vec<(u8, u8)>,
    db: Vec<(u8, u8)>,
}

fn kv_strat() -> impl Strategy<Value = Vec<(u8, u8)>> {
    prop::collection::vec((0u8..3, 0u8..3), 0..4)
}

type SH<T> = SetUnion<HashSet<T>>;
type SB<T> = SetUnion<BTreeSet<T>>;
type MH<V> = MapUnion<HashMap<u8, V>>;
type MB<V> = MapUnion<BTreeMap<u8, V>>;

fn distribute<A, B, F, O>(
    name: &str,
    mk: &dyn Fn() -> F,
    a: A,
    da: A,
    b: B,
    db: B,
) -> Result<(), Fail>
where
    A: Clone + Merge<A>,
    B: Clone + Merge<B>,
    F: LatticeBimorphism<A, B, Output = O>,
    O: Merge<O> + PartialEq,
{
    let mut f = mk();
    let l = f.call(Merge::merge_owned(a.clone(), da.clone()), b.clone());
    let r = Merge::merge_owned(f.call(a.clone(), b.clone()), f.call(da.clone(), b.clone()));
    if l != r {
        return Err(Fail::new(
            format!("bimorphism-left:{name}"),
            "f(a ⊔ Δa, b) != f(a,b) ⊔ f(Δa,b)".to_string(),
        ));
    }
    let l = f.call(a.clone(), Merge::merge_owned(b.clone(), db.clone()));
    let r = Merge::merge_owned(f.call(a.clone(), b.clone()), f.call(a.clone(), db.clone()));
    if l != r {
        return Err(Fail::new(
            format!("bimorphism-right:{name}"),
            "f(a, b ⊔ Δb) != f(a,b) ⊔ f(a,Δb)".to_string(),
        ));
    }
    Ok(())
}

fn c07_body(c: &BiCase, obs: &mut Obs) -> Result<(), Fail> {
    let keys = |v: &Vec<(u8, u8)>| -> Vec<u8> { v.iter().map(|x| x.0 * 3 + x.1).collect() };
    let desc = format!("{c:?}");
    let wrap = |r: Result<(), Fail>| r.map_err(|f| Fail::new(f.sig, format!("{} on {desc}", f.msg)));
    // --- set cartesian product, several representation combinations
    {
        let s = |v: &Vec<(u8, u8)>| -> SH<u8> { SetUnion::new(keys(v).into_iter().collect()) };
        let sb = |v: &Vec<(u8, u8)>| -> SB<u8> { SetUnion::new(keys(v).into_iter().collect()) };
        wrap(guard("call", "CartesianProduct", || {
            distribute(
                "CartesianProduct<HashSet×HashSet→HashSet>",
                &|| CartesianProductBimorphism::<HashSet<(u8, u8)>>::default(),
                s(&c.a), s(&c.da), s(&c.b), s(&c.db),
            )
        })?)?;
        wrap(guard("call", "CartesianProduct", || {
            distribute(
                "CartesianProduct<BTreeSet×HashSet→BTreeSet>",
                &|| CartesianProductBimorphism::<BTreeSet<(u8, u8)>>::default(),
                sb(&c.a), sb(&c.da), s(&c.b), s(&c.db),
            )
        })?)?;
        // model: the product is exactly the relational product
        let mut f = CartesianProductBimorphism::<BTreeSet<(u8, u8)>>::default();
        let out = f.call(s(&c.a), sb(&c.b));
        let want: BTreeSet<(u8, u8)> = keys(&c.a)
            .into_iter()
            .flat_map(|x| keys(&c.b).into_iter().map(move |y| (x, y)))
            .collect();
        if out.as_reveal_ref() != &want {
            return Err(Fail::new("cartesian-product-value", format!("got {:?}, expected {want:?} on {desc}", out.as_reveal_ref())));
        }
    }
    // --- keyed bimorphism (a join of maps of sets)
    {
        let m = |v: &Vec<(u8, u8)>| -> MH<SH<u8>> {
            let mut h: HashMap<u8, SH<u8>> = HashMap::new();
            for (k, x) in v {
                h.entry(*k).or_default().as_reveal_mut().insert(*x);
            }
            MapUnion::new(h)
        };
        let mb = |v: &Vec<(u8, u8)>| -> MB<SB<u8>> {
            let mut h: BTreeMap<u8, SB<u8>> = BTreeMap::new();
            for (k, x) in v {
                h.entry(*k).or_default().as_reveal_mut().insert(*x);
            }
            MapUnion::new(h)
        };
        wrap(guard("call", "KeyedBimorphism", || {
            distribute(
                "Keyed<HashMap,CartesianProduct>",
                &|| KeyedBimorphism::<HashMap<u8, SH<(u8, u8)>>, _>::new(CartesianProductBimorphism::<HashSet<(u8, u8)>>::default()),
                m(&c.a), m(&c.da), m(&c.b), m(&c.db),
            )
        })?)?;
        wrap(guard("call", "KeyedBimorphism", || {
            distribute(
                "Keyed<BTreeMap,CartesianProduct>",
                &|| KeyedBimorphism::<BTreeMap<u8, SB<(u8, u8)>>, _>::new(CartesianProductBimorphism::<BTreeSet<(u8, u8)>>::default()),
                mb(&c.a), mb(&c.da), m(&c.b), m(&c.db),
            )
        })?)?;
        // model: relational join on the key
        let mut f = KeyedBimorphism::<BTreeMap<u8, SB<(u8, u8)>>, _>::new(CartesianProductBimorphism::<BTreeSet<(u8, u8)>>::default());
        let out = f.call(m(&c.a), mb(&c.b));
        let mut got: BTreeSet<(u8, u8, u8)> = BTreeSet::new();
        for (k, s) in out.as_reveal_ref() {
            for (x, y) in s.as_reveal_ref() {
                got.insert((*k, *x, *y));
            }
        }
        let mut want = BTreeSet::new();
        for (k, x) in &c.a {
            for (k2, y) in &c.b {
                if k == k2 {
                    want.insert((*k, *x, *y));
                }
            }
        }
        if got != want {
            return Err(Fail::new("keyed-bimorphism-value", format!("got {got:?}, expected join {want:?} on {desc}")));
        }
    }
    // --- pair bimorphism
    {
        let s = |v: &Vec<(u8, u8)>| -> SH<u8> { SetUnion::new(keys(v).into_iter().collect()) };
        let mx = |v: &Vec<(u8, u8)>| Max::new(v.iter().map(|x| x.1).max().unwrap_or(0));
        wrap(guard("call", "PairBimorphism", || {
            distribute("PairBimorphism", &|| PairBimorphism, s(&c.a), s(&c.da), mx(&c.b), mx(&c.db))
        })?)?;
    }
    // --- GHT bimorphisms (by-value wrapper GhtBimorphism around the by-reference ones)
    {
        type G = GhtType!(u8 => u8: VariadicHashSetStd);
        let g = |v: &Vec<(u8, u8)>| -> G { G::new_from(v.iter().map(|(k, x)| var_expr!(*k, *x))) };
        type ProdOut = GhtType!(u8, u8 => u8, u8: VariadicHashSetStd);
        type ProdOutLeafVals = GhtType!(u8 => u8: VariadicHashSetStd);
        let _ = std::marker::PhantomData::<ProdOutLeafVals>;
        wrap(guard("call", "GhtCartesianProduct", || {
            distribute(
                "GhtBimorphism<GhtCartesianProduct>",
                &|| GhtBimorphism::new(GhtCartesianProductBimorphism::<ProdOut>::default()),
                g(&c.a), g(&c.da), g(&c.b), g(&c.db),
            )
        })?)?;
        type JoinOutT = GhtType!(u8 => u8, u8: VariadicHashSetStd);
        type Leaf2 = <G as GhtGet>::Get;
        type JoinLeafOut = <JoinOutT as GhtGet>::Get;
        wrap(guard("call", "GhtNodeKeyed", || {
            distribute(
                "GhtBimorphism<GhtNodeKeyed<GhtValTypeProduct>>",
                &|| GhtBimorphism::new(GhtNodeKeyedBimorphism::new(GhtValTypeProductBimorphism::<JoinLeafOut>::default())),
                g(&c.a), g(&c.da), g(&c.b), g(&c.db),
            )
        })?)?;
        let _ = std::marker::PhantomData::<Leaf2>;
        // value: keyed GHT join = relational join on the key column
        let mut f = GhtNodeKeyedBimorphism::new(GhtValTypeProductBimorphism::<JoinLeafOut>::default());
        let (ga, gb) = (g(&c.a), g(&c.b));
        let out = f.call(&ga, &gb);
        let got: BTreeSet<(u8, u8, u8)> = out.recursive_iter().map(|var_expr!(k, x, y)| (*k, *x, *y)).collect();
        let mut want = BTreeSet::new();
        for (k, x) in &c.a {
            for (k2, y) in &c.b {
                if k == k2 {
                    want.insert((*k, *x, *y));
                }
            }
        }
        if got != want {
            return Err(Fail::new("ght-keyed-join-value", format!("got {got:?}, expected join {want:?} on {desc}")));
        }
    }
    let sa: BTreeSet<_> = c.a.iter().collect();
    let sd: BTreeSet<_> = c.da.iter().collect();
    let overlap_incomparable = !sa.is_subset(&sd) && !sd.is_subset(&sa) && sa.intersection(&sd).next().is_some();
    let joins = c.a.iter().any(|(k, _)| c.b.iter().any(|(k2, _)| k == k2));
    obs.nontrivial(overlap_incomparable && joins);
    Ok(())
}

pub fn c07(ctx: &mut Ctx, w: &Work) {
    let strat = (kv_strat(), kv_strat(), kv_strat(), kv_strat()).prop_map(|(a, da, b, db)| BiCase { a, da, b, db });
    ctx.check("distribute-random", w.random_cases * 6, strat, c07_body);
    // bounded-exhaustive over subsets of a 3-pair domain for all four arguments (8^4 = 4096)
    let dom = [(0u8, 0u8), (0, 1), (1, 0)];
    let sub = |mask: u32| -> Vec<(u8, u8)> { (0..3).filter(|i| mask & (1 << i) != 0).map(|i| dom[i]).collect() };
    let mut cases = vec![];
    for a in 0..8 {
        for da in 0..8 {
            for b in 0..8 {
                for db in 0..8 {
                    cases.push(BiCase { a: sub(a), da: sub(da), b: sub(b), db: sub(db) });
                }
            }
        }
    }
    ctx.check_all("distribute-small", cases, c07_body);
}
