//! C10 — variadic collections against a `BTreeMap<tuple, count>` model.

use std::collections::BTreeMap;

use serde::{Deserialize, Serialize};
use variadics::variadic_collections::{
    VariadicCollection, VariadicColumnMultiset, VariadicCountedHashSet, VariadicHashSet,
};
use variadics::{var_expr, var_type, VariadicExt};
use vcommon::proptest::prelude::*;
use vcommon::{Ctx, Fail, Obs};

use crate::laws::{guard, Work};

type Row = var_type!(u8, u16);
type Set = VariadicHashSet<Row, std::hash::RandomState>;
type Counted = VariadicCountedHashSet<Row, std::hash::RandomState>;
type Column = VariadicColumnMultiset<Row>;
type Model = BTreeMap<(u8, u16), usize>;

fn row(t: (u8, u16)) -> Row {
    var_expr!(t.0, t.1)
}

#[derive(Clone, Debug, Serialize, Deserialize)]
pub enum Op {
    Insert(u8, u16),
    /// extend with these rows; `hint_pad` extra elements are promised by the iterator's
    /// size_hint lower bound?? no — the lower bound must be honest: we pass an exact-size vec
    Extend(Vec<(u8, u16)>),
    Drain,
    /// replace the collection by a clone of itself
    Clone,
    /// rebuild through FromIterator from its own contents
    Rebuild,
    /// look up every tuple of the domain
    Probe,
}

trait Coll: Clone + Default {
    const NAME: &'static str;
    const IS_SET: bool;
    fn insert(&mut self, r: Row) -> bool;
    fn extend_rows(&mut self, rows: Vec<Row>);
    fn len(&self) -> usize;
    fn is_empty(&self) -> bool;
    fn contains(&self, r: (u8, u16)) -> bool;
    /// stored multiplicity (None if the collection has no `get`)
    fn mult(&self, r: (u8, u16)) -> Option<usize>;
    fn iter_rows(&self) -> Vec<(u8, u16)>;
    fn into_rows(self) -> Vec<(u8, u16)>;
    fn drain_rows(&mut self) -> Vec<(u8, u16)>;
    fn rebuild(rows: Vec<Row>) -> Option<Self>;
    fn eq_to(&self, other: &Self) -> Option<bool>;
}

fn unrow(r: <Row as VariadicExt>::AsRefVar<'_>) -> (u8, u16) {
    let var_expr!(a, b) = r;
    (*a, *b)
}

impl Coll for Set {
    const NAME: &'static str = "VariadicHashSet";
    const IS_SET: bool = true;
    fn insert(&mut self, r: Row) -> bool {
        VariadicCollection::insert(self, r)
    }
    fn extend_rows(&mut self, rows: Vec<Row>) {
        self.extend(rows)
    }
    fn len(&self) -> usize {
        VariadicCollection::len(self)
    }
    fn is_empty(&self) -> bool {
        VariadicCollection::is_empty(self)
    }
    fn contains(&self, r: (u8, u16)) -> bool {
        VariadicCollection::contains(self, var_expr!(&r.0, &r.1))
    }
    fn mult(&self, r: (u8, u16)) -> Option<usize> {
        Some(if self.get(var_expr!(&r.0, &r.1)).is_some() { 1 } else { 0 })
    }
    fn iter_rows(&self) -> Vec<(u8, u16)> {
        VariadicCollection::iter(self).map(unrow).collect()
    }
    fn into_rows(self) -> Vec<(u8, u16)> {
        self.into_iter().map(|var_expr!(a, b)| (a, b)).collect()
    }
    fn drain_rows(&mut self) -> Vec<(u8, u16)> {
        VariadicCollection::drain(self).map(|var_expr!(a, b)| (a, b)).collect()
    }
    fn rebuild(rows: Vec<Row>) -> Option<Self> {
        Some(rows.into_iter().collect())
    }
    fn eq_to(&self, other: &Self) -> Option<bool> {
        Some(self == other)
    }
}
impl Coll for Counted {
    const NAME: &'static str = "VariadicCountedHashSet";
    const IS_SET: bool = false;
    fn insert(&mut self, r: Row) -> bool {
        VariadicCollection::insert(self, r)
    }
    fn extend_rows(&mut self, rows: Vec<Row>) {
        self.extend(rows)
    }
    fn len(&self) -> usize {
        VariadicCollection::len(self)
    }
    fn is_empty(&self) -> bool {
        VariadicCollection::is_empty(self)
    }
    fn contains(&self, r: (u8, u16)) -> bool {
        VariadicCollection::contains(self, var_expr!(&r.0, &r.1))
    }
    fn mult(&self, r: (u8, u16)) -> Option<usize> {
        Some(self.get(var_expr!(&r.0, &r.1)).map(|(_, n)| *n).unwrap_or(0))
    }
    fn iter_rows(&self) -> Vec<(u8, u16)> {
        VariadicCollection::iter(self).map(unrow).collect()
    }
    fn into_rows(self) -> Vec<(u8, u16)> {
        self.into_iter().map(|var_expr!(a, b)| (a, b)).collect()
    }
    fn drain_rows(&mut self) -> Vec<(u8, u16)> {
        VariadicCollection::drain(self).map(|var_expr!(a, b)| (a, b)).collect()
    }
    fn rebuild(rows: Vec<Row>) -> Option<Self> {
        Some(rows.into_iter().collect())
    }
    fn eq_to(&self, other: &Self) -> Option<bool> {
        Some(self == other)
    }
}
impl Coll for Column {
    const NAME: &'static str = "VariadicColumnMultiset";
    const IS_SET: bool = false;
    fn insert(&mut self, r: Row) -> bool {
        VariadicCollection::insert(self, r)
    }
    fn extend_rows(&mut self, rows: Vec<Row>) {
        self.extend(rows)
    }
    fn len(&self) -> usize {
        VariadicCollection::len(self)
    }
    fn is_empty(&self) -> bool {
        VariadicCollection::is_empty(self)
    }
    fn contains(&self, r: (u8, u16)) -> bool {
        VariadicCollection::contains(self, var_expr!(&r.0, &r.1))
    }
    fn mult(&self, _r: (u8, u16)) -> Option<usize> {
        None
    }
    fn iter_rows(&self) -> Vec<(u8, u16)> {
        VariadicCollection::iter(self).map(unrow).collect()
    }
    fn into_rows(self) -> Vec<(u8, u16)> {
        self.into_iter().map(|var_expr!(a, b)| (a, b)).collect()
    }
    fn drain_rows(&mut self) -> Vec<(u8, u16)> {
        VariadicCollection::drain(self).map(|var_expr!(a, b)| (a, b)).collect()
    }
    fn rebuild(_rows: Vec<Row>) -> Option<Self> {
        None
    }
    fn eq_to(&self, _other: &Self) -> Option<bool> {
        None
    }
}

fn multiset(rows: &[(u8, u16)]) -> Model {
    let mut m = Model::new();
    for r in rows {
        *m.entry(*r).or_default() += 1;
    }
    m
}

fn model_insert(m: &mut Model, r: (u8, u16), is_set: bool) -> bool {
    let e = m.entry(r).or_default();
    if is_set {
        if *e == 0 {
            *e = 1;
            true
        } else {
            false
        }
    } else {
        *e += 1;
        true
    }
}

fn check_state<C: Coll>(c: &C, m: &Model, step: usize, after: &str, dom: &[(u8, u16)]) -> Result<(), Fail> {
    let n = C::NAME;
    let total: usize = m.values().sum();
    let len = guard("len", n, || c.len())?;
    if len != total {
        return Err(Fail::new(
            format!("len:{n}:after-{after}"),
            format!("step {step}: len() = {len}, model holds {total} tuples: {m:?}"),
        ));
    }
    if guard("is_empty", n, || c.is_empty())? != (total == 0) {
        return Err(Fail::new(format!("is_empty:{n}:after-{after}"), format!("step {step}: model {m:?}")));
    }
    let it = multiset(&guard("iter", n, || c.iter_rows())?);
    if &it != m {
        return Err(Fail::new(
            format!("iter:{n}:after-{after}"),
            format!("step {step}: iter() yields {it:?}, model {m:?}"),
        ));
    }
    for r in dom {
        let want = m.get(r).copied().unwrap_or(0);
        let has = guard("contains", n, || c.contains(*r))?;
        if has != (want > 0) {
            return Err(Fail::new(
                format!("contains:{n}:after-{after}:got-{has}"),
                format!("step {step}: contains({r:?}) = {has}, model multiplicity {want}; model {m:?}"),
            ));
        }
        if let Some(k) = guard("get", n, || c.mult(*r))? {
            if k != want {
                return Err(Fail::new(
                    format!("get-multiplicity:{n}:after-{after}"),
                    format!("step {step}: get({r:?}) reports multiplicity {k}, model {want}; model {m:?}"),
                ));
            }
        }
    }
    Ok(())
}

fn run<C: Coll>(ops: &[Op], obs: &mut Obs) -> Result<(), Fail> {
    let n = C::NAME;
    let mut c = C::default();
    let mut m = Model::new();
    let dom: Vec<(u8, u16)> = (0..4u8).flat_map(|a| (0..3u16).map(move |b| (a, b))).collect();
    let mut extend_on_nonempty_then_lookup = false;
    let mut pending_extend = false;
    for (step, op) in ops.iter().enumerate() {
        let after;
        match op {
            Op::Insert(a, b) => {
                after = "insert";
                let want = model_insert(&mut m, (*a, *b), C::IS_SET);
                let got = guard("insert", n, || c.insert(row((*a, *b))))?;
                if got != want {
                    return Err(Fail::new(
                        format!("insert-return:{n}"),
                        format!("step {step}: insert({a},{b}) returned {got}, expected {want}"),
                    ));
                }
            }
            Op::Extend(rows) => {
                after = "extend";
                if !m.is_empty() && !rows.is_empty() {
                    pending_extend = true;
                }
                for r in rows {
                    model_insert(&mut m, *r, C::IS_SET);
                }
                let v: Vec<Row> = rows.iter().map(|r| row(*r)).collect();
                guard("extend", n, || c.extend_rows(v))?;
            }
            Op::Drain => {
                after = "drain";
                let got = multiset(&guard("drain", n, || c.drain_rows())?);
                if got != m {
                    return Err(Fail::new(
                        format!("drain:{n}"),
                        format!("step {step}: drain() yielded {got:?}, model {m:?}"),
                    ));
                }
                m.clear();
            }
            Op::Clone => {
                after = "clone";
                let c2 = c.clone();
                if let Some(false) = guard("eq", n, || c.eq_to(&c2))? {
                    return Err(Fail::new(format!("eq-clone:{n}"), format!("step {step}: a clone is not == its source; model {m:?}")));
                }
                c = c2;
            }
            Op::Rebuild => {
                after = "rebuild";
                let rows: Vec<Row> = m
                    .iter()
                    .flat_map(|(r, k)| std::iter::repeat(*r).take(*k))
                    .map(row)
                    .collect();
                if let Some(c2) = guard("from_iter", n, || C::rebuild(rows))? {
                    // equality ⇔ model equality (both directions)
                    match guard("eq", n, || (c.eq_to(&c2), c2.eq_to(&c)))? {
                        (Some(true), Some(true)) => {}
                        x => {
                            return Err(Fail::new(
                                format!("eq-rebuilt:{n}"),
                                format!("step {step}: collection vs from_iter of the same contents compare {x:?}; model {m:?}"),
                            ))
                        }
                    }
                    // and differs from a collection with one more tuple
                    let mut c3 = c2.clone();
                    c3.insert(row((9, 9)));
                    if let Some(true) = guard("eq", n, || c.eq_to(&c3))? {
                        return Err(Fail::new(format!("eq-different:{n}"), format!("step {step}: equal to a collection holding one more tuple; model {m:?}")));
                    }
                    // same length, different multiplicities: move one occurrence of a stored
                    // tuple onto another tuple (present or not) — must compare unequal both ways
                    if let Some((t1, _)) = m.iter().next() {
                        for t2 in [(3u8, 2u16), (0, 0), (1, 1)] {
                            if t2 == *t1 || C::IS_SET && m.contains_key(&t2) {
                                continue;
                            }
                            let mut m2 = m.clone();
                            let e = m2.get_mut(t1).unwrap();
                            *e -= 1;
                            if *e == 0 {
                                m2.remove(t1);
                            }
                            *m2.entry(t2).or_default() += 1;
                            let rows2: Vec<Row> = m2
                                .iter()
                                .flat_map(|(r, k)| std::iter::repeat(*r).take(*k))
                                .map(row)
                                .collect();
                            if let Some(c4) = C::rebuild(rows2) {
                                let r = guard("eq", n, || (c.eq_to(&c4), c4.eq_to(&c)))?;
                                if r != (Some(false), Some(false)) {
                                    return Err(Fail::new(
                                        format!("eq-same-len-different-contents:{n}"),
                                        format!("step {step}: {m:?} vs {m2:?} compare {r:?} (expected unequal both ways)"),
                                    ));
                                }
                            }
                        }
                    }
                    // into_iter of the rebuilt one
                    let got = multiset(&guard("into_iter", n, || c2.into_rows())?);
                    if got != m {
                        return Err(Fail::new(format!("into_iter:{n}"), format!("step {step}: into_iter yields {got:?}, model {m:?}")));
                    }
                }
            }
            Op::Probe => {
                after = "probe";
                if pending_extend {
                    extend_on_nonempty_then_lookup = true;
                }
            }
        }
        check_state(&c, &m, step, after, &dom)?;
        if pending_extend && !matches!(op, Op::Extend(_)) {
            extend_on_nonempty_then_lookup = true;
        }
    }
    obs.nontrivial(extend_on_nonempty_then_lookup);
    Ok(())
}

pub fn c10(ctx: &mut Ctx, w: &Work) {
    let rowst = || (0u8..4, 0u16..3);
    let op = prop_oneof![
        6 => rowst().prop_map(|(a, b)| Op::Insert(a, b)),
        4 => prop::collection::vec(rowst(), 0..40).prop_map(Op::Extend),
        1 => Just(Op::Drain),
        1 => Just(Op::Clone),
        1 => Just(Op::Rebuild),
        1 => Just(Op::Probe),
    ];
    let strat = prop::collection::vec(op, 1..14);
    let body = |ops: &Vec<Op>, obs: &mut Obs| -> Result<(), Fail> {
        run::<Set>(ops, obs)?;
        run::<Counted>(ops, obs)?;
        run::<Column>(ops, obs)?;
        Ok(())
    };
    ctx.check("history-random/variadic-collections", w.random_cases * 5, strat, body);
    // bounded-exhaustive: all histories of ≤3 ops over a tiny alphabet incl. growing extends
    let big: Vec<(u8, u16)> = (0..4u8).flat_map(|a| (0..3u16).map(move |b| (a, b))).collect();
    let alpha = vec![
        Op::Insert(0, 0),
        Op::Insert(1, 0),
        Op::Insert(0, 0),
        Op::Extend(vec![(0, 0), (0, 0), (1, 1)]),
        Op::Extend(big.clone()),
        Op::Extend(big.iter().chain(big.iter()).copied().collect()),
        Op::Drain,
        Op::Clone,
        Op::Rebuild,
    ];
    let mut cases = vec![];
    for a in &alpha {
        cases.push(vec![a.clone()]);
        for b in &alpha {
            cases.push(vec![a.clone(), b.clone()]);
            for c in &alpha {
                cases.push(vec![a.clone(), b.clone(), c.clone()]);
                for d in [Op::Probe, Op::Rebuild] {
                    cases.push(vec![a.clone(), b.clone(), c.clone(), d]);
                }
            }
        }
    }
    ctx.check_all("history-small/variadic-collections", cases, body);
}
