//! Generic law checks for C01, C02, C03 and C06 over any `Subj` type.

use std::cmp::Ordering;
use std::panic::{catch_unwind, AssertUnwindSafe};

use lattices::{Atomize, IsBot, IsTop, Merge};
use vcommon::proptest::prelude::*;
use vcommon::{panic_msg, Ctx, Fail, Obs};

use crate::model::A;
use crate::subj::{Subj, S};

pub struct Work {
    pub random_cases: u32,
}

/// run `f`, turning a panic into a failure whose signature names the type and operation
pub fn guard<R>(what: &str, ty: &str, f: impl FnOnce() -> R) -> Result<R, Fail> {
    catch_unwind(AssertUnwindSafe(f)).map_err(|p| {
        Fail::new(
            format!("panic:{what}:{ty}"),
            format!("{what} on {ty} panicked: {}", panic_msg(&p)),
        )
    })
}

fn pairs_small<T: Subj>() -> Vec<(S, S)> {
    let s = T::small();
    let mut v = vec![];
    for a in &s {
        for b in &s {
            if T::small_compatible(a, b) {
                v.push((a.clone(), b.clone()));
            }
        }
    }
    v
}

fn triples_small<T: Subj>(cap: usize) -> Vec<(S, S, S)> {
    let mut s = T::small();
    // keep the cube within `cap` triples
    while s.len() * s.len() * s.len() > cap && s.len() > 4 {
        s = crate::subj::thin(s.clone(), s.len() - 1);
    }
    let mut v = vec![];
    for a in &s {
        for b in &s {
            for c in &s {
                if T::small_compatible(a, b) && T::small_compatible(b, c) && T::small_compatible(a, c) {
                    v.push((a.clone(), b.clone(), c.clone()));
                }
            }
        }
    }
    v
}

fn pair_strat<T: Subj>() -> BoxedStrategy<(S, S)> {
    T::triple().prop_map(|(a, b, _)| (a, b)).boxed()
}

// ------------------------------------------------------------------ C01

pub fn c01<T>(ctx: &mut Ctx, w: &Work)
where
    T: Subj + Merge<T> + PartialEq,
{
    let ty = T::name();
    let body = |(sa, sb, sc): &(S, S, S), obs: &mut Obs| -> Result<(), Fail> {
        let (a, b, c) = (T::build(sa), T::build(sb), T::build(sc));
        let (ma, mb, mc) = (a.abs(), b.abs(), c.abs());
        let m = |x: &T, y: &T| -> Result<T, Fail> {
            guard("merge_owned", &ty, || Merge::merge_owned(x.clone(), y.clone()))
        };
        for x in [&a, &b, &c] {
            let xx = m(x, x)?;
            if guard("eq", &ty, || xx != *x)? {
                return Err(Fail::new(
                    format!("idempotence:{ty}"),
                    format!("x⊔x != x for x={:?}; got {:?}", x.abs(), xx.abs()),
                ));
            }
        }
        for (x, y) in [(&a, &b), (&b, &c), (&a, &c)] {
            let xy = m(x, y)?;
            let yx = m(y, x)?;
            if guard("eq", &ty, || xy != yx)? {
                return Err(Fail::new(
                    format!("commutativity:{ty}"),
                    format!(
                        "x⊔y != y⊔x for x={:?} y={:?}: {:?} vs {:?}",
                        x.abs(),
                        y.abs(),
                        xy.abs(),
                        yx.abs()
                    ),
                ));
            }
        }
        let l = m(&m(&a, &b)?, &c)?;
        let r = m(&a, &m(&b, &c)?)?;
        if guard("eq", &ty, || l != r)? {
            return Err(Fail::new(
                format!("associativity:{ty}"),
                format!(
                    "(a⊔b)⊔c != a⊔(b⊔c) for a={ma:?} b={mb:?} c={mc:?}: {:?} vs {:?}",
                    l.abs(),
                    r.abs()
                ),
            ));
        }
        // non-trivial: two of the three pairwise incomparable, or the join differs from all inputs
        let inc = [(&ma, &mb), (&mb, &mc), (&ma, &mc)]
            .iter()
            .filter(|(x, y)| x.cmp_lat(y).is_none())
            .count();
        let j = ma.join(&mb).join(&mc);
        obs.nontrivial(inc >= 1 || (!j.same(&ma) && !j.same(&mb) && !j.same(&mc)));
        if inc >= 1 {
            obs.class("has-incomparable-pair");
        }
        Ok(())
    };
    ctx.check_all(&format!("laws-small/{ty}"), triples_small::<T>(27000), body);
    ctx.check(&format!("laws-random/{ty}"), w.random_cases, T::triple(), body);
}

// ------------------------------------------------------------------ C02

fn flag_class(model_grew: bool) -> &'static str {
    if model_grew {
        "missed-growth(false-but-grew)"
    } else {
        "spurious-change(true-but-unchanged)"
    }
}

/// receiver T, delta O (O may be the same type or another representation)
pub fn c02<T, O>(ctx: &mut Ctx, w: &Work)
where
    T: Subj + Merge<O>,
    O: Subj,
{
    let (ty, oy) = (T::name(), O::name());
    let tag = if ty == oy {
        ty.clone()
    } else {
        format!("{ty}<-{oy}")
    };
    let body = |(sa, sd): &(S, S), obs: &mut Obs| -> Result<(), Fail> {
        let a = T::build(sa);
        let d = O::build(sd);
        let (ma, md) = (a.abs(), d.abs());
        let mut r = a.clone();
        let flag = guard("merge", &tag, || r.merge(d.clone()))?;
        let mr = r.abs();
        let expect_val = ma.join(&md);
        if !mr.same(&expect_val) {
            return Err(Fail::new(
                format!("merge-value:{tag}"),
                format!("{ma:?} ⊔ {md:?}: got {mr:?}, model join is {expect_val:?}"),
            ));
        }
        let grew = !md.leq(&ma);
        if flag != grew {
            return Err(Fail::new(
                format!("changed-flag:{tag}:{}", flag_class(grew)),
                format!(
                    "merge({ma:?} <- {md:?}) returned {flag}; delta ≤ receiver is {}; result {mr:?}",
                    !grew
                ),
            ));
        }
        // before ≤ after, delta ≤ after (in the model, independent of the flag)
        if !ma.leq(&mr) || !md.leq(&mr) {
            return Err(Fail::new(
                format!("merge-not-upper-bound:{tag}"),
                format!("{ma:?} ⊔ {md:?} = {mr:?} is not above both"),
            ));
        }
        let partial = ma.cmp_lat(&md).is_none();
        let same_diff_rep = ma.same(&md) && ty != oy;
        obs.nontrivial(partial || same_diff_rep || (grew && !ma.is_bot() && !md.is_bot()));
        if partial {
            obs.class("partial-overlap");
        }
        if !grew {
            obs.class("delta-below-receiver");
        }
        Ok(())
    };
    let small: Vec<(S, S)> = {
        let sa = T::small();
        let sd = O::small();
        let mut v = vec![];
        for a in &sa {
            for d in &sd {
                if ty != oy || T::small_compatible(a, d) {
                    v.push((a.clone(), d.clone()));
                }
            }
        }
        v
    };
    ctx.check_all(&format!("flag-small/{tag}"), small, body);
    let strat = if ty == oy {
        pair_strat::<T>()
    } else {
        (T::strat(), O::strat()).boxed()
    };
    ctx.check(&format!("flag-random/{tag}"), w.random_cases, strat, body);
}

// ------------------------------------------------------------------ C03

fn ord_name(o: Option<Ordering>) -> &'static str {
    match o {
        None => "None",
        Some(Ordering::Less) => "Less",
        Some(Ordering::Equal) => "Equal",
        Some(Ordering::Greater) => "Greater",
    }
}

/// comparisons between T and O (same type or cross representation)
pub fn c03_cmp<T, O>(ctx: &mut Ctx, w: &Work)
where
    T: Subj + PartialOrd<O> + PartialEq<O>,
    O: Subj,
{
    let (ty, oy) = (T::name(), O::name());
    let tag = if ty == oy {
        ty.clone()
    } else {
        format!("{ty}~{oy}")
    };
    let body = |(sa, sb): &(S, S), obs: &mut Obs| -> Result<(), Fail> {
        let a = T::build(sa);
        let b = O::build(sb);
        let (ma, mb) = (a.abs(), b.abs());
        let want = ma.cmp_lat(&mb);
        let got = guard("partial_cmp", &tag, || a.partial_cmp(&b))?;
        if got != want {
            return Err(Fail::new(
                format!(
                    "partial_cmp:{tag}:got-{}-want-{}",
                    ord_name(got),
                    ord_name(want)
                ),
                format!(
                    "partial_cmp({ma:?}, {mb:?}) = {} but the lattice order says {}",
                    ord_name(got),
                    ord_name(want)
                ),
            ));
        }
        let eq = guard("eq", &tag, || a == b)?;
        if eq != (want == Some(Ordering::Equal)) {
            return Err(Fail::new(
                format!("eq:{tag}:got-{eq}"),
                format!("({ma:?} == {mb:?}) = {eq} but the order says {}", ord_name(want)),
            ));
        }
        // derived operators agree with partial_cmp
        let (lt, le, gt, ge) = guard("cmp-ops", &tag, || (a < b, a <= b, a > b, a >= b))?;
        let exp = (
            want == Some(Ordering::Less),
            matches!(want, Some(Ordering::Less | Ordering::Equal)),
            want == Some(Ordering::Greater),
            matches!(want, Some(Ordering::Greater | Ordering::Equal)),
        );
        if (lt, le, gt, ge) != exp {
            return Err(Fail::new(
                format!("cmp-ops:{tag}"),
                format!("<,<=,>,>= on ({ma:?},{mb:?}) = {:?}, expected {exp:?}", (lt, le, gt, ge)),
            ));
        }
        let diff_build = ty != oy || sa != sb;
        obs.nontrivial(want.is_none() || (want == Some(Ordering::Equal) && diff_build));
        if want.is_none() {
            obs.class("incomparable");
        }
        if want == Some(Ordering::Equal) && diff_build {
            obs.class("equal-built-differently");
        }
        Ok(())
    };
    let small: Vec<(S, S)> = {
        let sa = T::small();
        let sb = O::small();
        let mut v = vec![];
        for a in &sa {
            for b in &sb {
                if ty != oy || T::small_compatible(a, b) {
                    v.push((a.clone(), b.clone()));
                }
            }
        }
        v
    };
    ctx.check_all(&format!("cmp-small/{tag}"), small, body);
    let strat = if ty == oy {
        pair_strat::<T>()
    } else {
        (T::strat(), O::strat()).boxed()
    };
    ctx.check(&format!("cmp-random/{tag}"), w.random_cases, strat, body);
}

/// is_bot / is_top against the model; partial-order laws over triples; naive_cmp agreement
pub fn c03_self<T>(ctx: &mut Ctx, w: &Work)
where
    T: Subj + PartialOrd + PartialEq + IsBot + IsTop + Merge<T>,
{
    let ty = T::name();
    c03_cmp::<T, T>(ctx, w);
    let body1 = |sa: &S, obs: &mut Obs| -> Result<(), Fail> {
        let a = T::build(sa);
        let ma = a.abs();
        let (b, t) = guard("is_bot/is_top", &ty, || (a.is_bot(), a.is_top()))?;
        if b != ma.is_bot() {
            return Err(Fail::new(
                format!("is_bot:{ty}:got-{b}"),
                format!("is_bot({ma:?}) = {b}, but least-element test says {}", ma.is_bot()),
            ));
        }
        if t != ma.is_top() {
            return Err(Fail::new(
                format!("is_top:{ty}:got-{t}"),
                format!("is_top({ma:?}) = {t}, but greatest-element test says {}", ma.is_top()),
            ));
        }
        obs.nontrivial(ma.is_bot() || ma.is_top() || sa != &T::small()[0]);
        if ma.is_bot() {
            obs.class("bottom-value");
        }
        if ma.is_top() {
            obs.class("top-value");
        }
        Ok(())
    };
    ctx.check_all(&format!("bot-top-small/{ty}"), T::small(), body1);
    ctx.check(&format!("bot-top-random/{ty}"), w.random_cases, T::strat(), body1);

    // scope-based cross-check of the model itself and of is_bot/is_top: within the small scope,
    // a value flagged bottom must be ≤ everything, a value flagged top ≥ everything.
    let scope: Vec<T> = T::small().iter().map(T::build).collect();
    let seeds = T::small();
    let body_scope = |i: &usize, obs: &mut Obs| -> Result<(), Fail> {
        let a = &scope[*i];
        let ma = a.abs();
        for (j, y) in scope.iter().enumerate() {
            if !T::small_compatible(&seeds[*i], &seeds[j]) {
                continue;
            }
            if guard("is_bot", &ty, || a.is_bot())? && !guard("le", &ty, || a <= y)? {
                return Err(Fail::new(
                    format!("is_bot-not-least:{ty}"),
                    format!("{ma:?} is_bot but is not <= {:?}", y.abs()),
                ));
            }
            if guard("is_top", &ty, || a.is_top())? && !guard("le", &ty, || y <= a)? {
                return Err(Fail::new(
                    format!("is_top-not-greatest:{ty}"),
                    format!("{ma:?} is_top but {:?} is not <= it", y.abs()),
                ));
            }
        }
        obs.nontrivial(true);
        Ok(())
    };
    ctx.check_all(&format!("extremes-in-scope/{ty}"), 0..scope.len(), body_scope);

    let body3 = |(sa, sb, sc): &(S, S, S), obs: &mut Obs| -> Result<(), Fail> {
        let (a, b, c) = (T::build(sa), T::build(sb), T::build(sc));
        let r = guard("order-laws", &ty, || {
            let mut bad: Option<&'static str> = None;
            if !(a == a) || a.partial_cmp(&a) != Some(Ordering::Equal) {
                bad = Some("reflexivity");
            }
            if (a == b) != (b == a) {
                bad = Some("eq-symmetry");
            }
            if a <= b && b <= a && !(a == b) {
                bad = Some("antisymmetry");
            }
            if a <= b && b <= c && !(a <= c) {
                bad = Some("transitivity");
            }
            if a == b && b == c && !(a == c) {
                bad = Some("eq-transitivity");
            }
            if a.partial_cmp(&b) != b.partial_cmp(&a).map(Ordering::reverse) {
                bad = Some("duality");
            }
            bad
        })?;
        if let Some(law) = r {
            return Err(Fail::new(
                format!("order-law:{law}:{ty}"),
                format!("{law} fails on a={:?} b={:?} c={:?}", a.abs(), b.abs(), c.abs()),
            ));
        }
        // naive (merge-based) comparison agrees with partial_cmp
        let naive = guard("naive_cmp", &ty, || {
            let mut x = a.clone();
            let mut y = b.clone();
            match (x.merge(b.clone()), y.merge(a.clone())) {
                (true, true) => None,
                (true, false) => Some(Ordering::Less),
                (false, true) => Some(Ordering::Greater),
                (false, false) => Some(Ordering::Equal),
            }
        })?;
        let pc = guard("partial_cmp", &ty, || a.partial_cmp(&b))?;
        if naive != pc {
            return Err(Fail::new(
                format!("naive_cmp-vs-partial_cmp:{ty}"),
                format!(
                    "merge-based order of ({:?},{:?}) is {} but partial_cmp says {}",
                    a.abs(),
                    b.abs(),
                    ord_name(naive),
                    ord_name(pc)
                ),
            ));
        }
        obs.nontrivial(a.abs().cmp_lat(&b.abs()).is_none() || b.abs().cmp_lat(&c.abs()).is_none());
        Ok(())
    };
    ctx.check_all(&format!("order-laws-small/{ty}"), triples_small::<T>(8000), body3);
    ctx.check(&format!("order-laws-random/{ty}"), w.random_cases, T::triple(), body3);
}

pub fn c03_default<T>(ctx: &mut Ctx)
where
    T: Subj + Default + IsBot,
{
    let ty = T::name();
    ctx.check_all(&format!("default-is-bot/{ty}"), [0u8], |_, obs| {
        let d = T::default();
        obs.nontrivial(true);
        if !guard("is_bot", &ty, || d.is_bot())? || !d.abs().is_bot() {
            return Err(Fail::new(
                format!("default-not-bot:{ty}"),
                format!("Default = {:?} is not bottom", d.abs()),
            ));
        }
        Ok(())
    });
}

// ------------------------------------------------------------------ C06

pub fn c06<T>(ctx: &mut Ctx, w: &Work)
where
    T: Subj + Atomize + Default + PartialEq + IsBot,
    T::Atom: IsBot,
{
    let ty = T::name();
    let body = |sa: &S, obs: &mut Obs| -> Result<(), Fail> {
        let a = T::build(sa);
        let ma = a.abs();
        let atoms: Vec<T::Atom> = guard("atomize", &ty, || a.clone().atomize().collect())?;
        let is_bot = guard("is_bot", &ty, || a.is_bot())?;
        if atoms.is_empty() != is_bot {
            return Err(Fail::new(
                format!("atoms-empty-iff-bot:{ty}:atoms-{}-bot-{is_bot}", atoms.len().min(1)),
                format!("{ma:?}: {} atoms but is_bot = {is_bot}", atoms.len()),
            ));
        }
        if atoms.is_empty() != ma.is_bot() {
            return Err(Fail::new(
                format!("atoms-empty-iff-model-bot:{ty}"),
                format!("{ma:?}: {} atoms but model bottom = {}", atoms.len(), ma.is_bot()),
            ));
        }
        let n = atoms.len();
        let mut re = T::default();
        for (i, at) in atoms.into_iter().enumerate() {
            if guard("atom.is_bot", &ty, || at.is_bot())? {
                return Err(Fail::new(
                    format!("bottom-atom:{ty}"),
                    format!("atom #{i} of {ma:?} is bottom"),
                ));
            }
            guard("merge-atom", &ty, || re.merge(at))?;
        }
        if guard("eq", &ty, || re != a)? || !re.abs().same(&ma) {
            return Err(Fail::new(
                format!("atoms-do-not-reform:{ty}"),
                format!("merging the {n} atoms of {ma:?} into Default gives {:?}", re.abs()),
            ));
        }
        obs.nontrivial(n >= 2);
        obs.class(match n {
            0 => "0-atoms",
            1 => "1-atom",
            _ => ">=2-atoms",
        });
        Ok(())
    };
    ctx.check_all(&format!("atomize-small/{ty}"), T::small(), body);
    ctx.check(&format!("atomize-random/{ty}"), w.random_cases, T::strat(), body);
}

/// model self-test: join is the least upper bound w.r.t. leq over the small scope of T.
/// A failure here is a harness bug and makes the run inconclusive, never a violation.
pub fn model_selftest<T: Subj>(ctx: &mut Ctx) {
    let vals: Vec<(S, A)> = T::small().into_iter().map(|s| (s.clone(), T::build(&s).abs())).collect();
    for (sa, a) in &vals {
        for (sb, b) in &vals {
            if !T::small_compatible(sa, sb) {
                continue;
            }
            let j = a.join(b);
            if !a.leq(&j) || !b.leq(&j) || !j.same(&b.join(a)) {
                ctx.inconclusive(format!("model self-test: join not an upper bound for {} {a:?} {b:?}", T::name()));
                return;
            }
            for (sc, c) in &vals {
                if !T::small_compatible(sa, sc) || !T::small_compatible(sb, sc) {
                    continue;
                }
                if a.leq(c) && b.leq(c) && !j.leq(c) {
                    ctx.inconclusive(format!("model self-test: join not least for {} {a:?} {b:?} {c:?}", T::name()));
                    return;
                }
            }
        }
    }
    let _ = pairs_small::<T>;
}
