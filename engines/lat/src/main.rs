use vcommon::proptest::prelude::*;
use vcommon::{Args, Ctx, Fail};

fn main() {
    let args = Args::parse();
    let mut ctx = Ctx::new(args);
    vcommon::quiet_panics();
    ctx.rule = "smoke".into();
    ctx.check("smoke", 500, (0u8..20, 0u8..20), |&(a, b), obs| {
        obs.nontrivial(a != b);
        if a as u32 + b as u32 >= 35 {
            return Err(Fail::new("sum>=35", format!("{a}+{b}")));
        }
        Ok(())
    });
    ctx.finish();
}
