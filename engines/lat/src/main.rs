mod alg;
mod derived;
mod ght;
mod hist;
mod laws;
mod model;
mod subj;
mod tomb;
mod varcoll;

use std::cell::Cell;
use std::collections::{BTreeMap, BTreeSet, HashMap, HashSet};

use lattices::collections::{
    ArrayMap, ArraySet, OptionMap, OptionSet, SingletonMap, SingletonSet, VecMap, VecSet,
};
use lattices::map_union::MapUnion;
use lattices::set_union::SetUnion;
use lattices::union_find::UnionFind;
use lattices::{
    Atomize, Conflict, DomPair, IsBot, IsTop, Max, Merge, Min, Pair, Point, VecUnion, WithBot, WithTop,
};
use vcommon::{Args, Ctx};

use derived::{DNamed, DTuple, DUnit, DWhere};
use laws::Work;
use subj::Subj;

type SH = SetUnion<HashSet<u8>>;
type SB = SetUnion<BTreeSet<u8>>;
type SVec = SetUnion<Vec<u8>>;
type SVs = SetUnion<VecSet<u8>>;
type SArr = SetUnion<ArraySet<u8, 2>>;
type SSing = SetUnion<SingletonSet<u8>>;
type SOpt = SetUnion<OptionSet<u8>>;
type MH<V> = MapUnion<HashMap<u8, V>>;
type MB<V> = MapUnion<BTreeMap<u8, V>>;
type MVec<V> = MapUnion<VecMap<u8, V>>;
type MArr<V> = MapUnion<ArrayMap<u8, V, 2>>;
type MSing<V> = MapUnion<SingletonMap<u8, V>>;
type MOpt<V> = MapUnion<OptionMap<u8, V>>;
type UH = UnionFind<HashMap<u8, Cell<u8>>>;
type UB = UnionFind<BTreeMap<u8, Cell<u8>>>;
type UVec = UnionFind<VecMap<u8, Cell<u8>>>;
type UArr = UnionFind<ArrayMap<u8, Cell<u8>, 2>>;
type USing = UnionFind<SingletonMap<u8, Cell<u8>>>;
type UOpt = UnionFind<OptionMap<u8, Cell<u8>>>;
type Pt = Point<u8, ()>;

/// a full lattice: receiver of its own merges, comparable, with bottom/top predicates
fn full<T>(ctx: &mut Ctx, w: &Work)
where
    T: Subj + Merge<T> + PartialOrd + PartialEq + IsBot + IsTop,
{
    laws::model_selftest::<T>(ctx);
    match ctx.prop() {
        "C01" => laws::c01::<T>(ctx, w),
        "C02" => laws::c02::<T, T>(ctx, w),
        "C03" => laws::c03_self::<T>(ctx, w),
        _ => {}
    }
}
fn dflt<T>(ctx: &mut Ctx)
where
    T: Subj + Default + IsBot,
{
    if ctx.prop() == "C03" {
        laws::c03_default::<T>(ctx);
    }
}
/// receiver T merges deltas of another representation O and compares with it
fn cross<T, O>(ctx: &mut Ctx, w: &Work)
where
    T: Subj + Merge<O> + PartialOrd<O> + PartialEq<O>,
    O: Subj,
{
    match ctx.prop() {
        "C02" => laws::c02::<T, O>(ctx, w),
        "C03" => laws::c03_cmp::<T, O>(ctx, w),
        _ => {}
    }
}
/// delta-only: T merges O but the two are not comparable through the API
fn delta<T, O>(ctx: &mut Ctx, w: &Work)
where
    T: Subj + Merge<O>,
    O: Subj,
{
    if ctx.prop() == "C02" {
        laws::c02::<T, O>(ctx, w);
    }
}
/// comparison-only between two (non-receiver) representations
fn cmp<T, O>(ctx: &mut Ctx, w: &Work)
where
    T: Subj + PartialOrd<O> + PartialEq<O>,
    O: Subj,
{
    if ctx.prop() == "C03" {
        laws::c03_cmp::<T, O>(ctx, w);
    }
}
fn simple<T>(ctx: &mut Ctx, w: &Work)
where
    T: Subj + Merge<T>,
{
    hist::simple::<T>(ctx, w);
}
fn atom<T>(ctx: &mut Ctx, w: &Work)
where
    T: Subj + Atomize + Default + PartialEq + IsBot,
    T::Atom: IsBot,
{
    if ctx.prop() == "C06" {
        laws::c06::<T>(ctx, w);
    }
}

macro_rules! each {
    ($f:ident, $ctx:expr, $w:expr; $($t:ty),* $(,)?) => { $( $f::<$t>($ctx, $w); )* };
}
macro_rules! each0 {
    ($f:ident, $ctx:expr; $($t:ty),* $(,)?) => { $( $f::<$t>($ctx); )* };
}
macro_rules! each2 {
    ($f:ident, $ctx:expr, $w:expr; $(($t:ty, $o:ty)),* $(,)?) => { $( $f::<$t, $o>($ctx, $w); )* };
}

/// C06 for union-finds whose parent map is given directly (forests that may contain
/// self-parented entries, as the crate's own `consistency_atomize` test builds them): the atoms
/// must still be non-bottom, empty iff bottom, and re-merge to an equal value.
fn c06_uf_direct(ctx: &mut Ctx, w: &Work) {
    use vcommon::proptest::prelude::*;
    use vcommon::{Fail, Obs};
    let body = |edges: &Vec<(u8, u8)>, obs: &mut Obs| -> Result<(), Fail> {
        let entries = subj::forest_entries(edges);
        let mk = || -> UB { UnionFind::new(entries.iter().map(|(a, b)| (*a, Cell::new(*b))).collect::<BTreeMap<_, _>>()) };
        let u = mk();
        let is_bot = u.is_bot();
        let model_bot = entries.iter().all(|(a, b)| a == b);
        let atoms: Vec<_> = mk().atomize().collect();
        if atoms.is_empty() != is_bot || is_bot != model_bot {
            return Err(Fail::new(
                "atoms-empty-iff-bot:UnionFind<BTreeMap>:direct",
                format!("entries {entries:?}: {} atoms, is_bot {is_bot}, model bottom {model_bot}", atoms.len()),
            ));
        }
        let n = atoms.len();
        let mut re = UB::default();
        for at in atoms {
            if at.is_bot() {
                return Err(Fail::new(
                    "bottom-atom:UnionFind<BTreeMap>:direct",
                    format!("entries {entries:?} atomize to a bottom atom (self-parented entry)"),
                ));
            }
            re.merge(at);
        }
        if re != u {
            return Err(Fail::new(
                "atoms-do-not-reform:UnionFind<BTreeMap>:direct",
                format!("entries {entries:?}: atoms re-merge to {:?}", re.abs()),
            ));
        }
        obs.nontrivial(n >= 1 && entries.iter().any(|(a, b)| a == b));
        Ok(())
    };
    ctx.check(
        "atomize-random/UnionFind<BTreeMap>:direct-forest",
        w.random_cases,
        prop::collection::vec((0u8..5, 0u8..5), 0..7),
        body,
    );
}

fn laws_registry(ctx: &mut Ctx, w: &Work) {
    // ---- full lattices (every alias the crate exports that can receive merges), nestings, derived
    each!(full, ctx, w;
        (), Max<u8>, Min<u8>, Max<bool>, Min<bool>, Max<i16>, Conflict<u8>, Pt,
        SH, SB,
        MH<SH>, MB<Max<u8>>, MH<WithBot<Max<u8>>>, MB<SB>, MH<Min<u8>>,
        WithBot<SH>, WithBot<Max<u8>>, WithBot<Conflict<u8>>, WithBot<WithBot<SB>>,
        WithTop<SH>, WithTop<Max<bool>>, WithTop<Max<u8>>, WithTop<WithTop<Min<bool>>>, WithTop<WithBot<SB>>,
        WithBot<WithTop<SH>>,
        Pair<SH, Max<u8>>, Pair<WithTop<SB>, WithBot<Min<u8>>>, Pair<Max<bool>, Min<bool>>, Pair<MH<SH>, Conflict<u8>>,
        DomPair<Max<u8>, SH>, DomPair<Min<u8>, MH<Max<u8>>>, DomPair<Max<bool>, WithTop<Max<bool>>>, DomPair<Max<u8>, Conflict<u8>>,
        VecUnion<Max<u8>>, VecUnion<SH>, VecUnion<WithBot<Max<bool>>>, VecUnion<MH<Max<u8>>>,
        UH, UB,
        MH<MB<Max<u8>>>, MH<Pair<SH, Max<u8>>>, MB<VecUnion<Max<u8>>>, MH<WithTop<SB>>, MH<DomPair<Max<u8>, SH>>,
        MB<Conflict<u8>>,
        DNamed, DTuple<SH, Max<u8>>, DTuple<WithTop<Max<bool>>, MH<SH>>, DUnit, DWhere<Max<u8>>, DWhere<MH<SB>>,
        tomb::TSH, tomb::TMH<Max<u8>>, tomb::TMH<SH>, Pair<tomb::TSH, Max<u8>>,
    );
    each0!(dflt, ctx;
        (), Max<u8>, Min<u8>, Max<bool>, Min<bool>, Max<i16>, SH, SB, MH<SH>, MB<Max<u8>>,
        WithBot<SH>, WithBot<Conflict<u8>>, WithTop<SH>, WithTop<Max<bool>>, Pair<SH, Max<u8>>,
        DomPair<Max<u8>, SH>, VecUnion<Max<u8>>, UH, UB, MH<MB<Max<u8>>>,
        DNamed, DTuple<SH, Max<u8>>, DUnit, DWhere<Max<u8>>,
    );
    // ---- cross-representation merge + comparison
    each2!(cross, ctx, w;
        (SH, SB), (SB, SH), (SH, SSing), (SH, SOpt), (SH, SArr), (SB, SSing), (SB, SOpt), (SB, SArr),
        (SH, SVs), (SB, SVs),
        (MH<SH>, MB<SB>), (MB<SB>, MH<SH>), (MH<SH>, MSing<SSing>), (MH<SH>, MOpt<SOpt>), (MH<SH>, MArr<SB>), (MH<SH>, MVec<SH>),
        (MB<Max<u8>>, MH<Max<u8>>), (MB<Max<u8>>, MSing<Max<u8>>), (MH<WithBot<Max<u8>>>, MVec<WithBot<Max<u8>>>),
        (WithBot<SH>, WithBot<SSing>), (WithBot<SH>, WithBot<SB>), (WithTop<SH>, WithTop<SOpt>),
        (Pair<SH, Max<u8>>, Pair<SSing, Max<u8>>),
        (VecUnion<SH>, VecUnion<SB>),
        (UH, UB), (UB, UH),
        (MH<MB<Max<u8>>>, MB<MH<Max<u8>>>),
        (DomPair<Max<u8>, SH>, DomPair<Max<u8>, SB>),
        (DTuple<SH, Max<u8>>, DTuple<SOpt, Max<u8>>),
        (tomb::TSH, tomb::TSB), (tomb::TMH<SH>, tomb::TMH<SB>),
    );
    each2!(delta, ctx, w; (SH, SVec), (SB, SVec), (WithBot<SH>, WithBot<SVec>),
        (UH, USing), (UH, UOpt), (UH, UVec), (UB, UArr), (UB, USing), (UB, UVec));
    // ---- comparison only (neither side can receive)
    each2!(cmp, ctx, w;
        (SSing, SOpt), (SOpt, SSing), (SArr, SH), (SSing, SH), (SVs, SArr), (SOpt, SOpt), (SArr, SArr),
        (tomb::TSB, tomb::TSB), (tomb::TSB, tomb::TSH),
        (MSing<Max<u8>>, MB<Max<u8>>), (MOpt<SOpt>, MH<SH>), (MArr<SB>, MVec<SH>), (MVec<SH>, MVec<SH>),
    );
    // ---- atomization
    each!(atom, ctx, w;
        SH, SB, MH<SH>, MB<SB>, MH<MB<SH>>, UH, UB, WithBot<SH>, WithTop<SH>, WithBot<MH<SH>>, WithTop<MB<SB>>,
        WithBot<WithTop<SH>>, MH<WithBot<SH>>, MH<WithTop<SB>>, MH<UH>,
    );
}

fn main() {
    let args = Args::parse();
    let mut ctx = Ctx::new(args);
    vcommon::quiet_panics();
    let tier = ctx.tier();
    let w = Work {
        random_cases: tier.pick(2000, 150000),
    };
    ctx.assume("item/key domains are treated as unbounded (u8 items drawn from 0..7): a set holding every item of a finite domain is not regarded as a top element");
    ctx.assume("array/vec-backed sets and maps are built duplicate-free; DomPair keys are totally ordered (Max/Min); Point values only meet equal values");
    match ctx.prop().to_string().as_str() {
        "C01" => {
            ctx.rule = "per registry type: all triples of the bounded-exhaustive small value list (≤27k) + seeded random triples of larger values; laws checked with the type's own PartialEq on merge_owned results; non-trivial = some pair of the triple is incomparable in the independent model, or the join differs from all three inputs; distinct = by seed triple and type".into();
            ctx.floor = 2000;
            laws_registry(&mut ctx, &w);
            tomb::c01_backends(&mut ctx, &w);
        }
        "C02" => {
            ctx.rule = "per (receiver, delta) type pair incl. cross-representation deltas: all pairs of small values + random pairs; oracle: returned flag == (delta not ≤ receiver in the independent model) and result == model join; non-trivial = delta and receiver incomparable, or equal across different representations, or strict growth of a non-bottom receiver by a non-bottom delta".into();
            ctx.floor = 2000;
            laws_registry(&mut ctx, &w);
            tomb::c02_flags(&mut ctx, &w);
        }
        "C03" => {
            ctx.rule = "per type and per cross-representation pair: partial_cmp/eq/<,<=,>,>= vs the independent model order on all small pairs + random pairs; is_bot/is_top vs model least/greatest and vs ≤ over the enumerated scope; reflexive/antisymmetric/transitive/dual and merge-based naive_cmp on triples; Default is bottom; non-trivial = incomparable pair, or model-equal values built differently, or an extreme (bottom/top) value".into();
            ctx.floor = 2000;
            laws_registry(&mut ctx, &w);
        }
        "C05" => {
            ctx.rule = "2–4 replica states (live items/entries + tombstones, live∩tombs=∅; deltas may also be given in Vec/BTree/singleton/tombstone-only representations, optionally with a live∧tombstoned overlap as the repository's own tests build them) merged in every order (all permutations, ≤24) and as a merge tree, for the HashSet, BTreeSet+HashSet, Roaring and FST set backends and the HashSet, Roaring and FST map backends; oracle after every merge: live∩tombs=∅, nothing tombstoned earlier is live, tombstones only grow; final live = ⋃live − ⋃tombs, tombs = ⋃tombs; all backends agree; exhaustive over items {0,1} × {absent, live v1, live v2, tombstoned} for 2 and 3 replicas + random; non-trivial = some item live in one replica and tombstoned in another".into();
            ctx.floor = 500;
            tomb::c05(&mut ctx, &w);
        }
        "C06" => {
            ctx.rule = "every small value + random values of each Atomize type; oracle: atoms non-bottom, none iff bottom (impl and model), atoms merged into Default equal the original (impl eq and model); non-trivial = value with ≥2 atoms".into();
            ctx.floor = 200;
            laws_registry(&mut ctx, &w);
            c06_uf_direct(&mut ctx, &w);
        }
        "C04" => {
            ctx.rule = "histories of merges (deltas in every compatible representation), LatticeFrom conversions between receiver representations, and for union-find union/same queries interleaved with merges, starting from Default or a directly constructed forest / pure-cycle parent map; after every step the revealed state is projected into the independent model and compared with the model's own join; all histories of length ≤3 over a tiny domain + random histories ≤13 ops; non-trivial = history with a representation change and ≥2 delta representations (union-find: a conversion or a query between unions) ending non-bottom".into();
            ctx.floor = 500;
            hist::sets(&mut ctx, &w);
            hist::maps_of_sets(&mut ctx, &w);
            hist::maps_of_max(&mut ctx, &w);
            hist::nested_maps(&mut ctx, &w);
            hist::with_bot_sets(&mut ctx, &w);
            hist::with_top_sets(&mut ctx, &w);
            hist::vec_unions(&mut ctx, &w);
            hist::pairs(&mut ctx, &w);
            hist::union_find(&mut ctx, &w);
            each!(simple, &mut ctx, &w;
                Max<u8>, Min<u8>, Max<bool>, Conflict<u8>, Pt, WithBot<Max<u8>>, WithTop<Max<u8>>, WithBot<Conflict<u8>>,
                DomPair<Max<u8>, SH>, DomPair<Min<u8>, MH<Max<u8>>>, VecUnion<Max<u8>>, VecUnion<WithBot<Max<bool>>>,
                MH<DomPair<Max<u8>, SH>>, MB<VecUnion<Max<u8>>>, DNamed, DTuple<SH, Max<u8>>, DWhere<MH<SB>>, UH, UB,
            );
        }
        "C07" => {
            ctx.rule = "arguments a, Δa, b, Δb as relations over a 3×3 key/value domain (all 8^4 subset combinations of a 3-pair domain + random), fed to CartesianProductBimorphism (hash/btree combinations), KeyedBimorphism over CartesianProduct (hash and btree outputs), PairBimorphism, and the GHT bimorphisms (GhtBimorphism over GhtCartesianProduct, GhtNodeKeyed over GhtValTypeProduct); oracle: f(a⊔Δa,b) == f(a,b)⊔f(Δa,b) and symmetrically, by the output lattice's PartialEq, plus value equality with the relational product/join; non-trivial = a and Δa overlap but are incomparable and the result is non-empty".into();
            ctx.floor = 300;
            ght::c07(&mut ctx, &w);
        }
        "C08" => {
            ctx.rule = "histories of insert / merge(other trie) / contains / partial_cmp+eq against another trie / prefix_iter (every prefix length the shape accepts) / find_containing_leaf on four trie shapes over three u8 columns with set storage, counted (multiset) storage for the non-lattice operations, the deep-join bimorphism of two tries, and COLT force/force_drain of a leaf; oracle: BTreeSet<[u8;3]> (multiset for counted storage), subset order for comparisons (a panic is a violation), filter-by-prefix, relational join; all pairs of tries over a 4-row domain + random histories; non-trivial = a comparison of incomparable tries with ≥2 distinct heads".into();
            ctx.floor = 200;
            ght::c08(&mut ctx, &w);
        }
        "C09" => {
            ctx.rule = "finite structures on carriers {0..n-1}: ALL binary operation tables for n ≤ 3 (each with every identity candidate and rotating absorbing elements / unary maps), ALL pairs of tables with all (zero, one, unary map) for n ≤ 2, textbook lawful structures for n ≤ 5 (Z_n, (max,min), left-zero semigroup) and their single-cell perturbations, random tables n = 3..5; oracle: checker.is_ok() ⇔ brute-force evaluation of the law documented on that function over all tuples (composites = conjunction of documented components); shipped semirings through hook H1 on generated element triples (dyadic f64, overflow-free u32); non-trivial = structure satisfying at least one law (so both verdicts occur); distinct = by table".into();
            ctx.assume("integral_domain/field: the textbook side condition 0 ≠ 1 is not a per-tuple law and is not demanded");
            ctx.floor = 2000;
            alg::c09(&mut ctx, &w);
        }
        "C10" => {
            ctx.rule = "histories of insert / extend (exact-size vectors up to 40 rows, large enough to force table growth) / drain / clone / from_iter / probe over rows (u8,u16) from a 12-tuple domain, run on VariadicHashSet, VariadicCountedHashSet and VariadicColumnMultiset; after every op len, is_empty, contains and get (stored multiplicity) for every domain tuple, iter/into_iter/drain as multisets and == are compared with a BTreeMap<tuple,count>; all histories ≤3 ops over a 9-op alphabet + random ≤13 ops; non-trivial = an extend onto a non-empty collection followed by lookups".into();
            ctx.floor = 500;
            varcoll::c10(&mut ctx, &w);
        }
        p => {
            eprintln!("property {p} is not served by engine lat");
            std::process::exit(2);
        }
    }
    ctx.finish();
}
