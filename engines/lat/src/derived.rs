//! Harness-side `#[derive(Lattice)]` structs exercising lattices_macro code generation
//! (named, tuple, unit, generic with where-clause).

use std::collections::{BTreeSet, HashSet};

use lattices::set_union::SetUnion;
use lattices::{Lattice, Max, WithTop};
use vcommon::proptest::prelude::*;

use crate::model::A;
use crate::subj::{thin, Subj, S};

#[derive(Clone, Debug, Default, Lattice)]
pub struct DNamed {
    pub s: SetUnion<HashSet<u8>>,
    pub m: Max<u8>,
}

#[derive(Clone, Debug, Default, Lattice)]
pub struct DTuple<X, Y>(pub X, pub Y);

#[derive(Clone, Debug, Default, Lattice)]
pub struct DUnit;

#[derive(Clone, Debug, Default, Lattice)]
pub struct DWhere<X>
where
    X: Clone,
{
    pub x: X,
    pub w: WithTop<Max<bool>>,
    pub b: SetUnion<BTreeSet<u8>>,
}

fn two(a: S, b: S) -> S {
    S::Two(Box::new(a), Box::new(b))
}
fn two_of(s: &S) -> (&S, &S) {
    match s {
        S::Two(a, b) => (a, b),
        _ => panic!("seed shape"),
    }
}
fn cross(xs: Vec<S>, ys: Vec<S>) -> Vec<S> {
    let mut v = vec![];
    for a in &xs {
        for b in &ys {
            v.push(two(a.clone(), b.clone()));
        }
    }
    v
}

impl Subj for DNamed {
    fn name() -> String {
        "derive:DNamed{SetUnion<HashSet>,Max<u8>}".into()
    }
    fn strat() -> BoxedStrategy<S> {
        (<SetUnion<HashSet<u8>>>::strat(), <Max<u8>>::strat())
            .prop_map(|(a, b)| two(a, b))
            .boxed()
    }
    fn small() -> Vec<S> {
        cross(thin(<SetUnion<HashSet<u8>>>::small(), 5), thin(<Max<u8>>::small(), 4))
    }
    fn build(s: &S) -> Self {
        let (a, b) = two_of(s);
        DNamed {
            s: Subj::build(a),
            m: Subj::build(b),
        }
    }
    fn abs(&self) -> A {
        A::Pair(Box::new(self.s.abs()), Box::new(self.m.abs()))
    }
}

impl<X: Subj, Y: Subj> Subj for DTuple<X, Y> {
    fn name() -> String {
        format!("derive:DTuple<{},{}>", X::name(), Y::name())
    }
    fn strat() -> BoxedStrategy<S> {
        (X::strat(), Y::strat()).prop_map(|(a, b)| two(a, b)).boxed()
    }
    fn small() -> Vec<S> {
        cross(thin(X::small(), 5), thin(Y::small(), 5))
    }
    fn build(s: &S) -> Self {
        let (a, b) = two_of(s);
        DTuple(X::build(a), Y::build(b))
    }
    fn abs(&self) -> A {
        A::Pair(Box::new(self.0.abs()), Box::new(self.1.abs()))
    }
}

impl Subj for DUnit {
    fn name() -> String {
        "derive:DUnit".into()
    }
    fn strat() -> BoxedStrategy<S> {
        Just(S::U).boxed()
    }
    fn small() -> Vec<S> {
        vec![S::U]
    }
    fn build(_: &S) -> Self {
        DUnit
    }
    fn abs(&self) -> A {
        A::Unit
    }
}

impl<X: Subj> Subj for DWhere<X> {
    fn name() -> String {
        format!("derive:DWhere<{}>", X::name())
    }
    fn strat() -> BoxedStrategy<S> {
        (
            X::strat(),
            <WithTop<Max<bool>>>::strat(),
            <SetUnion<BTreeSet<u8>>>::strat(),
        )
            .prop_map(|(a, b, c)| two(a, two(b, c)))
            .boxed()
    }
    fn small() -> Vec<S> {
        cross(
            thin(X::small(), 3),
            cross(
                <WithTop<Max<bool>>>::small(),
                thin(<SetUnion<BTreeSet<u8>>>::small(), 3),
            ),
        )
    }
    fn build(s: &S) -> Self {
        let (a, bc) = two_of(s);
        let (b, c) = two_of(bc);
        DWhere {
            x: X::build(a),
            w: Subj::build(b),
            b: Subj::build(c),
        }
    }
    fn abs(&self) -> A {
        A::Pair(
            Box::new(self.x.abs()),
            Box::new(A::Pair(Box::new(self.w.abs()), Box::new(self.b.abs()))),
        )
    }
}
