//! Independent abstract model of the lattice values (DESIGN.md §3.1). Shares no code with the
//! `lattices` crate: joins, order, bottom and top are defined here from the mathematical
//! description in the crate documentation.

use std::cmp::Ordering;
use std::collections::{BTreeMap, BTreeSet};

#[derive(Clone, Debug, PartialEq, Eq, PartialOrd, Ord, Hash)]
pub enum A {
    Unit,
    /// set union over integer items
    Set(BTreeSet<i64>),
    /// key-wise merge; invariant: no bottom-valued entry is stored
    Map(BTreeMap<i64, A>),
    /// totally ordered chain with known least/greatest element (Max: v; Min: negated v)
    Chain { v: i64, lo: i64, hi: i64 },
    /// adjoined bottom: None is the new bottom; invariant: Some(x) has x not bottom
    Bot(Option<Box<A>>),
    /// adjoined top: None is the new top (strictly above every Some)
    Top(Option<Box<A>>),
    /// component-wise product
    Pair(Box<A>, Box<A>),
    /// key-dominant pair (key lattice totally ordered)
    Dom(Box<A>, Box<A>),
    /// flat lattice: values pairwise incomparable, None = conflict (top); no bottom
    Conf(Option<i64>),
    /// one-point lattice tagged by its value (only ever compared with itself)
    Point(i64),
    /// index-wise merge with extension; length matters
    Vec(Vec<A>),
    /// partition of the integers: the blocks with at least two members
    UF(BTreeSet<BTreeSet<i64>>),
    /// set with tombstones: (live, tombs), live ∩ tombs = ∅
    TSet(BTreeSet<i64>, BTreeSet<i64>),
    /// map with tombstoned keys: (live entries, tombstoned keys)
    TMap(BTreeMap<i64, A>, BTreeSet<i64>),
}

pub fn set<I: IntoIterator<Item = i64>>(i: I) -> A {
    A::Set(i.into_iter().collect())
}

/// Build a normalised map value (drops bottom entries, merges duplicate keys by join).
pub fn map<I: IntoIterator<Item = (i64, A)>>(i: I) -> A {
    let mut m: BTreeMap<i64, A> = BTreeMap::new();
    for (k, v) in i {
        if v.is_bot() {
            continue;
        }
        match m.remove(&k) {
            Some(old) => {
                m.insert(k, old.join(&v));
            }
            None => {
                m.insert(k, v);
            }
        }
    }
    A::Map(m)
}

pub fn with_bot(inner: Option<A>) -> A {
    match inner {
        Some(x) if !x.is_bot() => A::Bot(Some(Box::new(x))),
        _ => A::Bot(None),
    }
}

/// Partition closure of a set of edges: blocks with >= 2 members.
pub fn uf_from_edges<I: IntoIterator<Item = (i64, i64)>>(edges: I) -> A {
    let mut blocks: Vec<BTreeSet<i64>> = vec![];
    for (a, b) in edges {
        let mut merged: BTreeSet<i64> = [a, b].into_iter().collect();
        let mut rest = vec![];
        for bl in blocks.drain(..) {
            if bl.contains(&a) || bl.contains(&b) {
                merged.extend(bl);
            } else {
                rest.push(bl);
            }
        }
        rest.push(merged);
        blocks = rest;
    }
    A::UF(blocks.into_iter().filter(|b| b.len() >= 2).collect())
}

fn uf_edges(blocks: &BTreeSet<BTreeSet<i64>>) -> Vec<(i64, i64)> {
    let mut e = vec![];
    for b in blocks {
        let first = *b.iter().next().unwrap();
        for x in b {
            e.push((first, *x));
        }
    }
    e
}

impl A {
    pub fn is_bot(&self) -> bool {
        match self {
            A::Unit => true,
            A::Set(s) => s.is_empty(),
            A::Map(m) => m.values().all(|v| v.is_bot()),
            A::Chain { v, lo, .. } => v == lo,
            A::Bot(o) => match o {
                None => true,
                Some(x) => x.is_bot(),
            },
            A::Top(o) => match o {
                None => false,
                Some(x) => x.is_bot(),
            },
            A::Pair(a, b) => a.is_bot() && b.is_bot(),
            A::Dom(k, v) => k.is_bot() && v.is_bot(),
            A::Conf(_) => false,
            A::Point(_) => true,
            A::Vec(v) => v.is_empty(),
            A::UF(b) => b.is_empty(),
            A::TSet(l, t) => l.is_empty() && t.is_empty(),
            A::TMap(l, t) => l.values().all(|v| v.is_bot()) && t.is_empty(),
        }
    }

    /// Greatest element of the lattice. Item/key domains are treated as unbounded, so
    /// sets, maps, vectors, partitions and tombstone structures never have a top.
    pub fn is_top(&self) -> bool {
        match self {
            A::Unit => true,
            A::Set(_) | A::Map(_) | A::Vec(_) | A::UF(_) | A::TSet(..) | A::TMap(..) => false,
            A::Chain { v, hi, .. } => v == hi,
            A::Bot(o) => match o {
                None => false,
                Some(x) => x.is_top(),
            },
            A::Top(o) => o.is_none(),
            A::Pair(a, b) => a.is_top() && b.is_top(),
            A::Dom(k, v) => k.is_top() && v.is_top(),
            A::Conf(o) => o.is_none(),
            A::Point(_) => true,
        }
    }

    pub fn join(&self, other: &A) -> A {
        match (self, other) {
            (A::Unit, A::Unit) => A::Unit,
            (A::Set(a), A::Set(b)) => A::Set(a.union(b).cloned().collect()),
            (A::Map(a), A::Map(b)) => {
                let mut m = a.clone();
                for (k, v) in b {
                    let nv = match m.get(k) {
                        Some(o) => o.join(v),
                        None => v.clone(),
                    };
                    m.insert(*k, nv);
                }
                m.retain(|_, v| !v.is_bot());
                A::Map(m)
            }
            (A::Chain { v: a, lo, hi }, A::Chain { v: b, .. }) => A::Chain {
                v: *a.max(b),
                lo: *lo,
                hi: *hi,
            },
            (A::Bot(a), A::Bot(b)) => match (a, b) {
                (None, x) | (x, None) => A::Bot(x.clone()),
                (Some(x), Some(y)) => with_bot(Some(x.join(y))),
            },
            (A::Top(a), A::Top(b)) => match (a, b) {
                (Some(x), Some(y)) => A::Top(Some(Box::new(x.join(y)))),
                _ => A::Top(None),
            },
            (A::Pair(a1, b1), A::Pair(a2, b2)) => {
                A::Pair(Box::new(a1.join(a2)), Box::new(b1.join(b2)))
            }
            (A::Dom(k1, v1), A::Dom(k2, v2)) => match k1.cmp_lat(k2) {
                Some(Ordering::Less) => A::Dom(k2.clone(), v2.clone()),
                Some(Ordering::Greater) => A::Dom(k1.clone(), v1.clone()),
                Some(Ordering::Equal) => A::Dom(k1.clone(), Box::new(v1.join(v2))),
                None => A::Dom(Box::new(k1.join(k2)), Box::new(v1.join(v2))),
            },
            (A::Conf(a), A::Conf(b)) => {
                if a == b {
                    A::Conf(*a)
                } else {
                    A::Conf(None)
                }
            }
            (A::Point(a), A::Point(b)) => {
                assert_eq!(a, b, "model: points only merge with equal points");
                A::Point(*a)
            }
            (A::Vec(a), A::Vec(b)) => {
                let n = a.len().max(b.len());
                let mut out = Vec::with_capacity(n);
                for i in 0..n {
                    out.push(match (a.get(i), b.get(i)) {
                        (Some(x), Some(y)) => x.join(y),
                        (Some(x), None) | (None, Some(x)) => x.clone(),
                        (None, None) => unreachable!(),
                    });
                }
                A::Vec(out)
            }
            (A::UF(a), A::UF(b)) => {
                let mut e = uf_edges(a);
                e.extend(uf_edges(b));
                uf_from_edges(e)
            }
            (A::TSet(la, ta), A::TSet(lb, tb)) => {
                let t: BTreeSet<i64> = ta.union(tb).cloned().collect();
                let l: BTreeSet<i64> = la.union(lb).filter(|x| !t.contains(x)).cloned().collect();
                A::TSet(l, t)
            }
            (A::TMap(la, ta), A::TMap(lb, tb)) => {
                let t: BTreeSet<i64> = ta.union(tb).cloned().collect();
                let mut m = la.clone();
                for (k, v) in lb {
                    let nv = match m.get(k) {
                        Some(o) => o.join(v),
                        None => v.clone(),
                    };
                    m.insert(*k, nv);
                }
                m.retain(|k, _| !t.contains(k));
                A::TMap(m, t)
            }
            (a, b) => panic!("model: join of different shapes {a:?} {b:?}"),
        }
    }

    /// a ≤ b in the lattice order, defined directly (not through join).
    pub fn leq(&self, other: &A) -> bool {
        match (self, other) {
            (A::Unit, A::Unit) => true,
            (A::Set(a), A::Set(b)) => a.is_subset(b),
            (A::Map(a), A::Map(b)) => a.iter().all(|(k, v)| {
                v.is_bot()
                    || match b.get(k) {
                        Some(w) => v.leq(w),
                        None => false,
                    }
            }),
            (A::Chain { v: a, .. }, A::Chain { v: b, .. }) => a <= b,
            (A::Bot(a), A::Bot(b)) => match (a, b) {
                (None, _) => true,
                (Some(x), None) => x.is_bot(),
                (Some(x), Some(y)) => x.leq(y),
            },
            (A::Top(a), A::Top(b)) => match (a, b) {
                (_, None) => true,
                (None, Some(_)) => false,
                (Some(x), Some(y)) => x.leq(y),
            },
            (A::Pair(a1, b1), A::Pair(a2, b2)) => a1.leq(a2) && b1.leq(b2),
            (A::Dom(k1, v1), A::Dom(k2, v2)) => {
                if k1 == k2 {
                    v1.leq(v2)
                } else {
                    k1.leq(k2)
                }
            }
            (A::Conf(a), A::Conf(b)) => b.is_none() || a == b,
            (A::Point(a), A::Point(b)) => {
                assert_eq!(a, b);
                true
            }
            (A::Vec(a), A::Vec(b)) => a.len() <= b.len() && a.iter().zip(b).all(|(x, y)| x.leq(y)),
            (A::UF(a), A::UF(b)) => a.iter().all(|bl| b.iter().any(|bb| bl.is_subset(bb))),
            (A::TSet(la, ta), A::TSet(lb, tb)) => {
                ta.is_subset(tb) && la.iter().all(|x| tb.contains(x) || lb.contains(x))
            }
            (A::TMap(la, ta), A::TMap(lb, tb)) => {
                ta.is_subset(tb)
                    && la.iter().all(|(k, v)| {
                        tb.contains(k)
                            || v.is_bot()
                            || match lb.get(k) {
                                Some(w) => v.leq(w),
                                None => false,
                            }
                    })
            }
            (a, b) => panic!("model: leq of different shapes {a:?} {b:?}"),
        }
    }

    pub fn cmp_lat(&self, other: &A) -> Option<Ordering> {
        match (self.leq(other), other.leq(self)) {
            (true, true) => Some(Ordering::Equal),
            (true, false) => Some(Ordering::Less),
            (false, true) => Some(Ordering::Greater),
            (false, false) => None,
        }
    }

    /// Lattice equality (mutual ≤); maps with bottom entries etc. are normalised on build, so
    /// this coincides with structural equality except for TMap live bottoms.
    pub fn same(&self, other: &A) -> bool {
        self.leq(other) && other.leq(self)
    }
}

#[cfg(test)]
mod tests {
    use super::*;
    #[test]
    fn uf() {
        let a = uf_from_edges([(1, 2), (3, 4)]);
        let b = uf_from_edges([(2, 3)]);
        let j = a.join(&b);
        assert_eq!(j, uf_from_edges([(1, 2), (2, 3), (3, 4)]));
        assert!(a.leq(&j) && b.leq(&j) && !j.leq(&a));
    }
}
