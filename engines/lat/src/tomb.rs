//! C05 — tombstone lattices: replica states merged in every order, three tombstone backends,
//! checked against `live = ⋃live − ⋃tombs`, `tombs = ⋃tombs`, no resurrection, backend equality.
//! Also provides `Subj` impls of the hash-backed tombstone types for the C01–C03 registries and
//! the changed-flag check (C02) for the Roaring / FST backends, which are not comparable.

use std::collections::{BTreeMap, BTreeSet, HashMap, HashSet};

use lattices::collections::{EmptyMap, EmptySet, SingletonMap, SingletonSet};
use lattices::map_union_with_tombstones::MapUnionWithTombstones;
use lattices::set_union_with_tombstones::SetUnionWithTombstones;
use lattices::tombstone::{FstTombstoneSet, RoaringTombstoneSet};
use lattices::{Max, Merge};
use serde::{Deserialize, Serialize};
use vcommon::proptest::prelude::*;
use vcommon::{Ctx, Fail, Obs};

use crate::laws::{guard, Work};
use crate::model::{self, A};
use crate::subj::{Subj, S};

type Items = BTreeSet<u64>;

// ------------------------------------------------------------------ set backends

pub trait TSet: Clone + 'static {
    const NAME: &'static str;
    fn build(live: &Items, tombs: &Items) -> Self;
    fn merge_same(&mut self, other: Self) -> bool;
    /// merge a delta given in one of the non-receiver representations; None if `kind` does not
    /// apply to this (live,tombs) shape
    fn merge_delta(&mut self, kind: u8, live: &Items, tombs: &Items, order: &[u64]) -> Option<bool>;
    fn reveal(&self) -> (Items, Items);
}

macro_rules! tset_u64 {
    ($ty:ty, $name:literal, $mk_tombs:expr, $tomb_items:expr) => {
        impl TSet for $ty {
            const NAME: &'static str = $name;
            fn build(live: &Items, tombs: &Items) -> Self {
                SetUnionWithTombstones::new(live.iter().copied().collect(), $mk_tombs(tombs))
            }
            fn merge_same(&mut self, other: Self) -> bool {
                self.merge(other)
            }
            fn merge_delta(&mut self, kind: u8, live: &Items, tombs: &Items, order: &[u64]) -> Option<bool> {
                match kind {
                    // Vec-backed delta
                    // Vec-backed delta, tombstones in the generated (arbitrary) order
                    0 => Some(self.merge(SetUnionWithTombstones::new(
                        live.iter().rev().copied().collect::<Vec<u64>>(),
                        order.to_vec(),
                    ))),
                    // HashSet-backed delta
                    4 => Some(self.merge(SetUnionWithTombstones::new(
                        live.iter().copied().collect::<HashSet<u64>>(),
                        tombs.iter().copied().collect::<HashSet<u64>>(),
                    ))),
                    // BTreeSet-backed delta
                    1 => Some(self.merge(SetUnionWithTombstones::new(
                        live.clone(),
                        tombs.clone(),
                    ))),
                    // tombstone-only singleton
                    2 if live.is_empty() && tombs.len() == 1 => Some(self.merge(
                        SetUnionWithTombstones::new(EmptySet::<u64>::default(), SingletonSet(*tombs.iter().next().unwrap())),
                    )),
                    // singleton live + singleton tombstone
                    3 if live.len() == 1 && tombs.len() == 1 => Some(self.merge(SetUnionWithTombstones::new(
                        SingletonSet(*live.iter().next().unwrap()),
                        SingletonSet(*tombs.iter().next().unwrap()),
                    ))),
                    _ => None,
                }
            }
            fn reveal(&self) -> (Items, Items) {
                let (l, t) = self.as_reveal_ref();
                (l.iter().copied().collect(), $tomb_items(t))
            }
        }
    };
}
tset_u64!(
    SetUnionWithTombstones<HashSet<u64>, HashSet<u64>>,
    "SetUnionWithTombstones<HashSet,HashSet>",
    |t: &Items| t.iter().copied().collect::<HashSet<u64>>(),
    |t: &HashSet<u64>| t.iter().copied().collect::<Items>()
);
tset_u64!(
    SetUnionWithTombstones<BTreeSet<u64>, HashSet<u64>>,
    "SetUnionWithTombstones<BTreeSet,HashSet>",
    |t: &Items| t.iter().copied().collect::<HashSet<u64>>(),
    |t: &HashSet<u64>| t.iter().copied().collect::<Items>()
);
tset_u64!(
    SetUnionWithTombstones<HashSet<u64>, RoaringTombstoneSet>,
    "SetUnionWithTombstonesRoaring",
    |t: &Items| t.iter().copied().collect::<RoaringTombstoneSet>(),
    |t: &RoaringTombstoneSet| t.clone().into_iter().collect::<Items>()
);

fn s(x: u64) -> String {
    // not order-preserving on purpose (FST sorts bytes): 10 sorts before 2
    format!("{}", x * 7)
}
fn us(x: &str) -> u64 {
    x.parse::<u64>().unwrap() / 7
}

impl TSet for SetUnionWithTombstones<HashSet<String>, FstTombstoneSet<String>> {
    const NAME: &'static str = "SetUnionWithTombstonesFstString";
    fn build(live: &Items, tombs: &Items) -> Self {
        SetUnionWithTombstones::new(
            live.iter().map(|x| s(*x)).collect(),
            tombs.iter().map(|x| s(*x)).collect::<FstTombstoneSet<String>>(),
        )
    }
    fn merge_same(&mut self, other: Self) -> bool {
        self.merge(other)
    }
    fn merge_delta(&mut self, kind: u8, live: &Items, tombs: &Items, order: &[u64]) -> Option<bool> {
        match kind {
            0 => Some(self.merge(SetUnionWithTombstones::new(
                live.iter().rev().map(|x| s(*x)).collect::<Vec<String>>(),
                order.iter().map(|x| s(*x)).collect::<Vec<String>>(),
            ))),
            4 => Some(self.merge(SetUnionWithTombstones::new(
                live.iter().map(|x| s(*x)).collect::<HashSet<String>>(),
                tombs.iter().map(|x| s(*x)).collect::<HashSet<String>>(),
            ))),
            1 => Some(self.merge(SetUnionWithTombstones::new(
                live.iter().map(|x| s(*x)).collect::<BTreeSet<String>>(),
                tombs.iter().map(|x| s(*x)).collect::<BTreeSet<String>>(),
            ))),
            2 if live.is_empty() && tombs.len() == 1 => Some(self.merge(SetUnionWithTombstones::new(
                EmptySet::<String>::default(),
                SingletonSet(s(*tombs.iter().next().unwrap())),
            ))),
            _ => None,
        }
    }
    fn reveal(&self) -> (Items, Items) {
        let (l, t) = self.as_reveal_ref();
        (
            l.iter().map(|x| us(x)).collect(),
            t.clone().into_iter().map(|x| us(&x)).collect(),
        )
    }
}

// ------------------------------------------------------------------ map backends (values Max<u8>)

type Live = BTreeMap<u64, u8>;

pub trait TMap: Clone + 'static {
    const NAME: &'static str;
    fn build(live: &Live, tombs: &Items) -> Self;
    fn merge_same(&mut self, other: Self) -> bool;
    fn merge_delta(&mut self, kind: u8, live: &Live, tombs: &Items, order: &[u64]) -> Option<bool>;
    fn reveal(&self) -> (Live, Items);
}

macro_rules! tmap_u64 {
    ($ty:ty, $name:literal, $mk_tombs:expr, $tomb_items:expr) => {
        impl TMap for $ty {
            const NAME: &'static str = $name;
            fn build(live: &Live, tombs: &Items) -> Self {
                MapUnionWithTombstones::new(
                    live.iter().map(|(k, v)| (*k, Max::new(*v))).collect(),
                    $mk_tombs(tombs),
                )
            }
            fn merge_same(&mut self, other: Self) -> bool {
                self.merge(other)
            }
            fn merge_delta(&mut self, kind: u8, live: &Live, tombs: &Items, order: &[u64]) -> Option<bool> {
                match kind {
                    0 => Some(self.merge(MapUnionWithTombstones::new(
                        live.iter().map(|(k, v)| (*k, Max::new(*v))).collect::<BTreeMap<u64, Max<u8>>>(),
                        tombs.clone(),
                    ))),
                    1 if live.len() == 1 && tombs.is_empty() => {
                        let (k, v) = live.iter().next().unwrap();
                        Some(self.merge(MapUnionWithTombstones::new(
                            SingletonMap(*k, Max::new(*v)),
                            EmptySet::<u64>::default(),
                        )))
                    }
                    // hash map + Vec of tombstones in the generated (arbitrary) order
                    3 => Some(self.merge(MapUnionWithTombstones::new(
                        live.iter().map(|(k, v)| (*k, Max::new(*v))).collect::<HashMap<u64, Max<u8>>>(),
                        order.to_vec(),
                    ))),
                    4 => Some(self.merge(MapUnionWithTombstones::new(
                        live.iter().map(|(k, v)| (*k, Max::new(*v))).collect::<HashMap<u64, Max<u8>>>(),
                        tombs.iter().copied().collect::<HashSet<u64>>(),
                    ))),
                    2 if live.is_empty() && tombs.len() == 1 => Some(self.merge(MapUnionWithTombstones::new(
                        EmptyMap::<u64, Max<u8>>::default(),
                        SingletonSet(*tombs.iter().next().unwrap()),
                    ))),
                    _ => None,
                }
            }
            fn reveal(&self) -> (Live, Items) {
                let (l, t) = self.as_reveal_ref();
                (
                    l.iter().map(|(k, v)| (*k, *v.as_reveal_ref())).collect(),
                    $tomb_items(t),
                )
            }
        }
    };
}
tmap_u64!(
    MapUnionWithTombstones<HashMap<u64, Max<u8>>, HashSet<u64>>,
    "MapUnionHashMapWithTombstoneHashSet",
    |t: &Items| t.iter().copied().collect::<HashSet<u64>>(),
    |t: &HashSet<u64>| t.iter().copied().collect::<Items>()
);
tmap_u64!(
    MapUnionWithTombstones<HashMap<u64, Max<u8>>, RoaringTombstoneSet>,
    "MapUnionWithTombstonesRoaring",
    |t: &Items| t.iter().copied().collect::<RoaringTombstoneSet>(),
    |t: &RoaringTombstoneSet| t.clone().into_iter().collect::<Items>()
);

impl TMap for MapUnionWithTombstones<HashMap<String, Max<u8>>, FstTombstoneSet<String>> {
    const NAME: &'static str = "MapUnionWithTombstonesFstString";
    fn build(live: &Live, tombs: &Items) -> Self {
        MapUnionWithTombstones::new(
            live.iter().map(|(k, v)| (s(*k), Max::new(*v))).collect(),
            tombs.iter().map(|x| s(*x)).collect::<FstTombstoneSet<String>>(),
        )
    }
    fn merge_same(&mut self, other: Self) -> bool {
        self.merge(other)
    }
    fn merge_delta(&mut self, kind: u8, live: &Live, tombs: &Items, order: &[u64]) -> Option<bool> {
        match kind {
            0 => Some(self.merge(MapUnionWithTombstones::new(
                live.iter().map(|(k, v)| (s(*k), Max::new(*v))).collect::<BTreeMap<String, Max<u8>>>(),
                tombs.iter().map(|x| s(*x)).collect::<BTreeSet<String>>(),
            ))),
            2 if live.is_empty() && tombs.len() == 1 => Some(self.merge(MapUnionWithTombstones::new(
                EmptyMap::<String, Max<u8>>::default(),
                SingletonSet(s(*tombs.iter().next().unwrap())),
            ))),
            3 => Some(self.merge(MapUnionWithTombstones::new(
                live.iter().map(|(k, v)| (s(*k), Max::new(*v))).collect::<HashMap<String, Max<u8>>>(),
                order.iter().map(|x| s(*x)).collect::<Vec<String>>(),
            ))),
            _ => None,
        }
    }
    fn reveal(&self) -> (Live, Items) {
        let (l, t) = self.as_reveal_ref();
        (
            l.iter().map(|(k, v)| (us(k), *v.as_reveal_ref())).collect(),
            t.clone().into_iter().map(|x| us(&x)).collect(),
        )
    }
}

// ------------------------------------------------------------------ cases

/// One replica state: live items (with values, used by the map variant) and tombstoned items.
/// A replica state reachable by insert/delete operations has live ∩ tombs = ∅; the harness
/// normalises receivers that way. `overlap_delta` keeps the overlap for a replica that is only
/// ever merged *into* something (the repository's own tests build such deltas).
#[derive(Clone, Debug, Serialize, Deserialize, PartialEq, Eq, Hash)]
pub struct Replica {
    pub live: Vec<(u8, u8)>,
    pub tombs: Vec<u8>,
}
#[derive(Clone, Debug, Serialize, Deserialize)]
pub struct TCase {
    pub replicas: Vec<Replica>,
    /// which delta representation to use for non-first merges (255 = same representation)
    pub delta_kind: u8,
    pub overlap_delta: bool,
}

fn norm(r: &Replica, keep_overlap: bool) -> (Live, Items) {
    let tombs: Items = r.tombs.iter().map(|x| *x as u64).collect();
    let mut live = Live::new();
    for (k, v) in &r.live {
        let e = live.entry(*k as u64).or_insert(0);
        *e = (*e).max(*v);
    }
    if !keep_overlap {
        live.retain(|k, _| !tombs.contains(k));
    }
    (live, tombs)
}

/// the replica's tombstones, duplicate-free, in the order they were generated
fn tomb_order(r: &Replica) -> Vec<u64> {
    let mut seen = Items::new();
    r.tombs.iter().map(|x| *x as u64).filter(|x| seen.insert(*x)).collect()
}

fn perms(n: usize) -> Vec<Vec<usize>> {
    fn rec(cur: &mut Vec<usize>, used: &mut Vec<bool>, n: usize, out: &mut Vec<Vec<usize>>) {
        if cur.len() == n {
            out.push(cur.clone());
            return;
        }
        for i in 0..n {
            if !used[i] {
                used[i] = true;
                cur.push(i);
                rec(cur, used, n, out);
                cur.pop();
                used[i] = false;
            }
        }
    }
    let mut out = vec![];
    rec(&mut vec![], &mut vec![false; n], n, &mut out);
    out
}

/// expected final state
fn expected(case: &TCase) -> (Live, Items) {
    let mut tombs = Items::new();
    let mut live = Live::new();
    for r in &case.replicas {
        let (l, t) = norm(r, false);
        tombs.extend(t);
        for (k, v) in l {
            let e = live.entry(k).or_insert(0);
            *e = (*e).max(v);
        }
    }
    live.retain(|k, _| !tombs.contains(k));
    (live, tombs)
}

fn nontrivial(case: &TCase) -> bool {
    // some item live in one replica and tombstoned in another
    for (i, a) in case.replicas.iter().enumerate() {
        let (la, _) = norm(a, false);
        for (j, b) in case.replicas.iter().enumerate() {
            if i != j {
                let (_, tb) = norm(b, false);
                if la.keys().any(|k| tb.contains(k)) {
                    return true;
                }
            }
        }
    }
    false
}

fn run_set<B: TSet>(case: &TCase) -> Result<(Items, Items), Fail> {
    let name = B::NAME;
    let (want_live, want_tombs) = expected(case);
    let want_live: Items = want_live.keys().copied().collect();
    let n = case.replicas.len();
    let mut result: Option<(Items, Items)> = None;
    let mut orders = perms(n);
    orders.truncate(24);
    for order in &orders {
        let first = &case.replicas[order[0]];
        let (l0, t0) = norm(first, false);
        let mut acc = B::build(&l0.keys().copied().collect(), &t0);
        let mut dead = t0.clone();
        for &i in &order[1..] {
            let r = &case.replicas[i];
            let (l, t) = norm(r, case.overlap_delta);
            let lk: Items = l.keys().copied().collect();
            let used_delta = if case.delta_kind != 255 {
                guard("merge", name, || acc.merge_delta(case.delta_kind, &lk, &t, &tomb_order(r)))?
            } else {
                None
            };
            if used_delta.is_none() {
                let (l2, t2) = norm(r, false);
                let o = B::build(&l2.keys().copied().collect(), &t2);
                guard("merge", name, || acc.merge_same(o))?;
            }
            dead.extend(t);
            let (gl, gt) = acc.reveal();
            if let Some(x) = gl.iter().find(|x| gt.contains(x)) {
                return Err(Fail::new(
                    format!("live-and-tombstoned:{name}"),
                    format!("item {x} is both live and tombstoned after merging replicas in order {order:?}: live {gl:?} tombs {gt:?}"),
                ));
            }
            if let Some(x) = gl.iter().find(|x| dead.contains(x)) {
                return Err(Fail::new(
                    format!("resurrected:{name}"),
                    format!("item {x} was tombstoned earlier but is live after order {order:?}: live {gl:?}"),
                ));
            }
            if !dead.is_subset(&gt) {
                return Err(Fail::new(
                    format!("tombstone-lost:{name}"),
                    format!("tombstones {dead:?} merged so far, state has {gt:?} (order {order:?})"),
                ));
            }
        }
        let got = acc.reveal();
        if got != (want_live.clone(), want_tombs.clone()) {
            return Err(Fail::new(
                format!("final-state:{name}"),
                format!("order {order:?}: got live {:?} tombs {:?}; expected live {want_live:?} tombs {want_tombs:?}", got.0, got.1),
            ));
        }
        result = Some(got);
    }
    // merge tree: (r0 ⊔ r1) ⊔ (r2 ⊔ r3 …)
    if n >= 3 {
        let b = |r: &Replica| {
            let (l, t) = norm(r, false);
            B::build(&l.keys().copied().collect(), &t)
        };
        let mut left = b(&case.replicas[0]);
        guard("merge", name, || left.merge_same(b(&case.replicas[1])))?;
        let mut right = b(&case.replicas[2]);
        for r in &case.replicas[3..] {
            guard("merge", name, || right.merge_same(b(r)))?;
        }
        guard("merge", name, || left.merge_same(right))?;
        let got = left.reveal();
        if got != (want_live.clone(), want_tombs.clone()) {
            return Err(Fail::new(
                format!("final-state-tree:{name}"),
                format!("tree merge: got {got:?}; expected live {want_live:?} tombs {want_tombs:?}"),
            ));
        }
    }
    Ok(result.unwrap())
}

fn run_map<B: TMap>(case: &TCase) -> Result<(Live, Items), Fail> {
    let name = B::NAME;
    let (want_live, want_tombs) = expected(case);
    let n = case.replicas.len();
    let mut result = None;
    let mut orders = perms(n);
    orders.truncate(24);
    for order in &orders {
        let (l0, t0) = norm(&case.replicas[order[0]], false);
        let mut acc = B::build(&l0, &t0);
        let mut dead = t0.clone();
        for &i in &order[1..] {
            let r = &case.replicas[i];
            let (l, t) = norm(r, case.overlap_delta);
            let used_delta = if case.delta_kind != 255 {
                guard("merge", name, || acc.merge_delta(case.delta_kind, &l, &t, &tomb_order(r)))?
            } else {
                None
            };
            if used_delta.is_none() {
                let (l2, t2) = norm(r, false);
                let o = B::build(&l2, &t2);
                guard("merge", name, || acc.merge_same(o))?;
            }
            dead.extend(t);
            let (gl, gt) = acc.reveal();
            if let Some(x) = gl.keys().find(|x| gt.contains(x)) {
                return Err(Fail::new(
                    format!("live-and-tombstoned:{name}"),
                    format!("key {x} is both live and tombstoned after order {order:?}: live {gl:?} tombs {gt:?}"),
                ));
            }
            if let Some(x) = gl.keys().find(|x| dead.contains(x)) {
                return Err(Fail::new(
                    format!("resurrected:{name}"),
                    format!("key {x} was tombstoned earlier but is live after order {order:?}: live {gl:?}"),
                ));
            }
            if !dead.is_subset(&gt) {
                return Err(Fail::new(
                    format!("tombstone-lost:{name}"),
                    format!("tombstones {dead:?} merged so far, state has {gt:?}"),
                ));
            }
        }
        let (gl, gt) = acc.reveal();
        // bottom-valued live entries are invisible
        let gl: Live = gl.into_iter().filter(|(_, v)| *v != 0).collect();
        let wl: Live = want_live.iter().filter(|(_, v)| **v != 0).map(|(k, v)| (*k, *v)).collect();
        if (gl.clone(), gt.clone()) != (wl.clone(), want_tombs.clone()) {
            return Err(Fail::new(
                format!("final-state:{name}"),
                format!("order {order:?}: got live {gl:?} tombs {gt:?}; expected live {wl:?} tombs {want_tombs:?}"),
            ));
        }
        result = Some((gl, gt));
    }
    Ok(result.unwrap())
}

fn body(case: &TCase, obs: &mut Obs) -> Result<(), Fail> {
    if case.replicas.is_empty() {
        return Ok(());
    }
    let a = run_set::<SetUnionWithTombstones<HashSet<u64>, HashSet<u64>>>(case)?;
    let b = run_set::<SetUnionWithTombstones<BTreeSet<u64>, HashSet<u64>>>(case)?;
    let c = run_set::<SetUnionWithTombstones<HashSet<u64>, RoaringTombstoneSet>>(case)?;
    let d = run_set::<SetUnionWithTombstones<HashSet<String>, FstTombstoneSet<String>>>(case)?;
    if !(a == b && b == c && c == d) {
        return Err(Fail::new(
            "backends-differ:set",
            format!("hash {a:?} btree {b:?} roaring {c:?} fst {d:?}"),
        ));
    }
    let ma = run_map::<MapUnionWithTombstones<HashMap<u64, Max<u8>>, HashSet<u64>>>(case)?;
    let mb = run_map::<MapUnionWithTombstones<HashMap<u64, Max<u8>>, RoaringTombstoneSet>>(case)?;
    let mc = run_map::<MapUnionWithTombstones<HashMap<String, Max<u8>>, FstTombstoneSet<String>>>(case)?;
    if !(ma == mb && mb == mc) {
        return Err(Fail::new(
            "backends-differ:map",
            format!("hash {ma:?} roaring {mb:?} fst {mc:?}"),
        ));
    }
    obs.nontrivial(nontrivial(case) && case.replicas.len() >= 2);
    if case.delta_kind != 255 {
        obs.class("cross-representation-delta");
    }
    if case.overlap_delta {
        obs.class("delta-with-live-tomb-overlap");
    }
    Ok(())
}

fn replica_strat(dom: u8) -> impl Strategy<Value = Replica> {
    (
        prop::collection::vec((0..dom, 0u8..4), 0..4),
        prop::collection::vec(0..dom, 0..3),
    )
        .prop_map(|(live, tombs)| Replica { live, tombs })
}

/// C01 for the tombstone backends that have no `PartialEq` (Roaring, FST): merge order,
/// grouping and the delta's representation/iteration order must not matter, observed through
/// the revealed state (same body as C05, smaller budget).
pub fn c01_backends(ctx: &mut Ctx, w: &Work) {
    let strat = (
        prop::collection::vec(replica_strat(5), 2..5),
        prop_oneof![Just(255u8), 0u8..5],
        any::<bool>(),
    )
        .prop_map(|(replicas, delta_kind, overlap_delta)| TCase {
            replicas,
            delta_kind,
            overlap_delta,
        });
    ctx.check("tombstone-backends-order-independence", (w.random_cases / 8).max(200), strat, body);
}

pub fn c05(ctx: &mut Ctx, w: &Work) {
    // bounded-exhaustive: items {0,1}, per item state ∈ {absent, live(v=1), live(v=2), tombstoned},
    // 2 and 3 replicas, every order (all permutations inside the body)
    let mut states: Vec<Replica> = vec![];
    for s0 in 0..4u8 {
        for s1 in 0..4u8 {
            let mut live = vec![];
            let mut tombs = vec![];
            for (item, st) in [(0u8, s0), (1u8, s1)] {
                match st {
                    1 => live.push((item, 1)),
                    2 => live.push((item, 2)),
                    3 => tombs.push(item),
                    _ => {}
                }
            }
            if tombs.len() == 2 {
                let mut rev = tombs.clone();
                rev.reverse();
                states.push(Replica { live: live.clone(), tombs: rev });
            }
            states.push(Replica { live, tombs });
        }
    }
    let mut cases = vec![];
    for a in &states {
        for b in &states {
            for dk in [255u8, 0, 1, 2, 3, 4] {
                cases.push(TCase {
                    replicas: vec![a.clone(), b.clone()],
                    delta_kind: dk,
                    overlap_delta: false,
                });
            }
            for c in &states {
                cases.push(TCase {
                    replicas: vec![a.clone(), b.clone(), c.clone()],
                    delta_kind: 255,
                    overlap_delta: false,
                });
            }
        }
    }
    ctx.check_all("replicas-small", cases, body);
    let strat = (
        prop::collection::vec(replica_strat(5), 2..5),
        prop_oneof![Just(255u8), 0u8..5],
        any::<bool>(),
    )
        .prop_map(|(replicas, delta_kind, overlap_delta)| TCase {
            replicas,
            delta_kind,
            overlap_delta,
        });
    ctx.check("replicas-random", (w.random_cases / 4).max(300), strat, body);
}

// ------------------------------------------------------------------ changed-flag for all backends (C02)

#[derive(Clone, Debug, Serialize, Deserialize)]
pub struct FlagCase {
    recv: Replica,
    delta: Replica,
    delta_kind: u8,
}

pub fn c02_flags(ctx: &mut Ctx, w: &Work) {
    fn set_flag<B: TSet>(c: &FlagCase) -> Result<(), Fail> {
        let (l, t) = norm(&c.recv, false);
        let (dl, dt) = norm(&c.delta, false);
        let lk: Items = l.keys().copied().collect();
        let dlk: Items = dl.keys().copied().collect();
        let mut acc = B::build(&lk, &t);
        let flag = match guard("merge", B::NAME, || acc.merge_delta(c.delta_kind, &dlk, &dt, &tomb_order(&c.delta)))? {
            Some(f) => f,
            None => {
                let o = B::build(&dlk, &dt);
                guard("merge", B::NAME, || acc.merge_same(o))?
            }
        };
        let before = A::TSet(lk.iter().map(|x| *x as i64).collect(), t.iter().map(|x| *x as i64).collect());
        let delta = A::TSet(dlk.iter().map(|x| *x as i64).collect(), dt.iter().map(|x| *x as i64).collect());
        let grew = !delta.leq(&before);
        if flag != grew {
            return Err(Fail::new(
                format!("changed-flag:{}:{}", B::NAME, if grew { "missed-growth(false-but-grew)" } else { "spurious-change(true-but-unchanged)" }),
                format!("merge({before:?} <- {delta:?}) returned {flag}"),
            ));
        }
        Ok(())
    }
    fn map_flag<B: TMap>(c: &FlagCase) -> Result<(), Fail> {
        let (l, t) = norm(&c.recv, false);
        let (dl, dt) = norm(&c.delta, false);
        let mut acc = B::build(&l, &t);
        let flag = match guard("merge", B::NAME, || acc.merge_delta(c.delta_kind, &dl, &dt, &tomb_order(&c.delta)))? {
            Some(f) => f,
            None => {
                let o = B::build(&dl, &dt);
                guard("merge", B::NAME, || acc.merge_same(o))?
            }
        };
        let mk = |l: &Live, t: &Items| {
            A::TMap(
                l.iter()
                    .filter(|(_, v)| **v != 0)
                    .map(|(k, v)| (*k as i64, A::Chain { v: *v as i64, lo: 0, hi: 255 }))
                    .collect(),
                t.iter().map(|x| *x as i64).collect(),
            )
        };
        let before = mk(&l, &t);
        let delta = mk(&dl, &dt);
        let grew = !delta.leq(&before);
        if flag != grew {
            return Err(Fail::new(
                format!("changed-flag:{}:{}", B::NAME, if grew { "missed-growth(false-but-grew)" } else { "spurious-change(true-but-unchanged)" }),
                format!("merge({before:?} <- {delta:?}) returned {flag}"),
            ));
        }
        Ok(())
    }
    let body = |c: &FlagCase, obs: &mut Obs| -> Result<(), Fail> {
        set_flag::<SetUnionWithTombstones<HashSet<u64>, HashSet<u64>>>(c)?;
        set_flag::<SetUnionWithTombstones<BTreeSet<u64>, HashSet<u64>>>(c)?;
        set_flag::<SetUnionWithTombstones<HashSet<u64>, RoaringTombstoneSet>>(c)?;
        set_flag::<SetUnionWithTombstones<HashSet<String>, FstTombstoneSet<String>>>(c)?;
        map_flag::<MapUnionWithTombstones<HashMap<u64, Max<u8>>, HashSet<u64>>>(c)?;
        map_flag::<MapUnionWithTombstones<HashMap<u64, Max<u8>>, RoaringTombstoneSet>>(c)?;
        map_flag::<MapUnionWithTombstones<HashMap<String, Max<u8>>, FstTombstoneSet<String>>>(c)?;
        let (l, t) = norm(&c.recv, false);
        let (dl, dt) = norm(&c.delta, false);
        obs.nontrivial(
            dl.keys().any(|k| t.contains(k)) || l.keys().any(|k| dt.contains(k)) || (!dl.is_empty() && !l.is_empty()),
        );
        Ok(())
    };
    let strat = (replica_strat(4), replica_strat(4), prop_oneof![Just(255u8), 0u8..5])
        .prop_map(|(recv, delta, delta_kind)| FlagCase { recv, delta, delta_kind });
    ctx.check("flag-random/tombstone-backends", w.random_cases * 3, strat, body);
}

// ------------------------------------------------------------------ Subj impls (hash-backed, comparable)

fn two_of(s: &S) -> (&S, &S) {
    match s {
        S::Two(a, b) => (a, b),
        _ => panic!("seed shape"),
    }
}
fn items(s: &S) -> Vec<u8> {
    match s {
        S::Items(v) => v.clone(),
        _ => panic!("seed shape"),
    }
}

pub type TSH = SetUnionWithTombstones<HashSet<u8>, HashSet<u8>>;
pub type TSB = SetUnionWithTombstones<BTreeSet<u8>, BTreeSet<u8>>;

fn tset_small() -> Vec<S> {
    let mut v = vec![];
    for s0 in 0..3u8 {
        for s1 in 0..3u8 {
            for s2 in 0..3u8 {
                let mut live = vec![];
                let mut tombs = vec![];
                for (item, st) in [(0u8, s0), (1u8, s1), (2u8, s2)] {
                    match st {
                        1 => live.push(item),
                        2 => tombs.push(item),
                        _ => {}
                    }
                }
                v.push(S::Two(Box::new(S::Items(live)), Box::new(S::Items(tombs))));
            }
        }
    }
    v
}
fn tset_strat() -> BoxedStrategy<S> {
    (
        prop::collection::vec(0u8..6, 0..5),
        prop::collection::vec(0u8..6, 0..4),
    )
        .prop_map(|(l, t)| S::Two(Box::new(S::Items(l)), Box::new(S::Items(t))))
        .boxed()
}

macro_rules! tset_subj {
    ($ty:ty, $name:literal) => {
        impl Subj for $ty {
            fn name() -> String {
                $name.into()
            }
            fn strat() -> BoxedStrategy<S> {
                tset_strat()
            }
            fn small() -> Vec<S> {
                tset_small()
            }
            fn build(s: &S) -> Self {
                let (l, t) = two_of(s);
                let t = items(t);
                let l: Vec<u8> = items(l).into_iter().filter(|x| !t.contains(x)).collect();
                SetUnionWithTombstones::new(l.into_iter().collect(), t.into_iter().collect())
            }
            fn abs(&self) -> A {
                let (l, t) = self.as_reveal_ref();
                A::TSet(
                    l.iter().map(|x| *x as i64).collect(),
                    t.iter().map(|x| *x as i64).collect(),
                )
            }
        }
    };
}
tset_subj!(TSH, "SetUnionWithTombstones<HashSet,HashSet>");
tset_subj!(TSB, "SetUnionWithTombstones<BTreeSet,BTreeSet>");

pub type TMH<V> = MapUnionWithTombstones<HashMap<u8, V>, HashSet<u8>>;

impl<V: Subj> Subj for TMH<V> {
    fn name() -> String {
        format!("MapUnionWithTombstones<HashMap<{}>,HashSet>", V::name())
    }
    fn strat() -> BoxedStrategy<S> {
        (
            prop::collection::vec((0u8..5, V::strat()), 0..4),
            prop::collection::vec(0u8..5, 0..3),
        )
            .prop_map(|(l, t)| S::Two(Box::new(S::Ent(l)), Box::new(S::Items(t))))
            .boxed()
    }
    fn small() -> Vec<S> {
        let vs = crate::subj::thin(V::small(), 3);
        let mut out = vec![];
        // per key {0,1}: absent | live(v) | tombstoned
        let mut opts: Vec<Option<Option<S>>> = vec![None, Some(None)];
        for v in &vs {
            opts.push(Some(Some(v.clone())));
        }
        for a in &opts {
            for b in &opts {
                let mut live = vec![];
                let mut tombs = vec![];
                for (k, o) in [(0u8, a), (1u8, b)] {
                    match o {
                        None => {}
                        Some(None) => tombs.push(k),
                        Some(Some(v)) => live.push((k, v.clone())),
                    }
                }
                out.push(S::Two(Box::new(S::Ent(live)), Box::new(S::Items(tombs))));
            }
        }
        out
    }
    fn build(s: &S) -> Self {
        let (l, t) = two_of(s);
        let t = items(t);
        let mut seen = BTreeSet::new();
        let l: HashMap<u8, V> = match l {
            S::Ent(e) => e
                .iter()
                .filter(|(k, _)| !t.contains(k) && seen.insert(*k))
                .map(|(k, v)| (*k, V::build(v)))
                .collect(),
            _ => panic!("seed shape"),
        };
        MapUnionWithTombstones::new(l, t.into_iter().collect())
    }
    fn abs(&self) -> A {
        let (l, t) = self.as_reveal_ref();
        let m = model::map(l.iter().map(|(k, v)| (*k as i64, v.abs())));
        let A::Map(m) = m else { unreachable!() };
        A::TMap(m, t.iter().map(|x| *x as i64).collect())
    }
}
