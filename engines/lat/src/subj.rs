//! The lattice universe (DESIGN.md §3.1): every concrete type is built from a plain-data seed
//! `S` (so cases serialise, shrink and replay) and projected into the abstract model `A`.

use std::cell::Cell;
use std::collections::{BTreeMap, BTreeSet, HashMap, HashSet};

use lattices::collections::{
    ArrayMap, ArraySet, OptionMap, OptionSet, SingletonMap, SingletonSet, VecMap, VecSet,
};
use lattices::map_union::MapUnion;
use lattices::set_union::SetUnion;
use lattices::union_find::UnionFind;
use lattices::{Conflict, DomPair, Max, Min, Pair, Point, VecUnion, WithBot, WithTop};
use serde::{Deserialize, Serialize};
use vcommon::proptest::prelude::*;

use crate::model::{self, A};

#[derive(Clone, Debug, Serialize, Deserialize, PartialEq, Eq, Hash, PartialOrd, Ord)]
pub enum S {
    U,
    N(u8),
    Items(Vec<u8>),
    Ent(Vec<(u8, S)>),
    Opt(Option<Box<S>>),
    Two(Box<S>, Box<S>),
    List(Vec<S>),
    Edges(Vec<(u8, u8)>),
}

pub trait Subj: Clone + 'static {
    fn name() -> String;
    /// random seeds (larger values)
    fn strat() -> BoxedStrategy<S>;
    /// bounded-exhaustive list of small seeds (tiny element domain); kept to a few dozen
    fn small() -> Vec<S>;
    fn build(s: &S) -> Self;
    fn abs(&self) -> A;
    /// strategy for triples (overridden by types whose values may only meet equal values)
    fn triple() -> BoxedStrategy<(S, S, S)> {
        (Self::strat(), Self::strat(), Self::strat()).boxed()
    }
    fn small_compatible(_a: &S, _b: &S) -> bool {
        true
    }
    /// whether this (possibly fixed-size) representation can be built from the seed
    fn accepts(_s: &S) -> bool {
        true
    }
}

/// Pick at most `n` representative seeds (first, last, and evenly spread) for nesting.
pub fn thin(v: Vec<S>, n: usize) -> Vec<S> {
    if v.len() <= n {
        return v;
    }
    let mut out = vec![];
    for i in 0..n {
        let idx = i * (v.len() - 1) / (n - 1);
        if !out.contains(&v[idx]) {
            out.push(v[idx].clone());
        }
    }
    out
}

fn dedup(items: &[u8]) -> Vec<u8> {
    let mut seen = BTreeSet::new();
    items.iter().copied().filter(|x| seen.insert(*x)).collect()
}

fn items_of(s: &S) -> Vec<u8> {
    match s {
        S::Items(v) => v.clone(),
        _ => panic!("seed shape: expected Items, got {s:?}"),
    }
}

fn subsets(dom: &[u8]) -> Vec<S> {
    let mut out = vec![];
    for mask in 0..(1u32 << dom.len()) {
        let v: Vec<u8> = dom
            .iter()
            .enumerate()
            .filter(|(i, _)| mask & (1 << i) != 0)
            .map(|(_, x)| *x)
            .collect();
        out.push(S::Items(v));
    }
    out
}

fn items_strat() -> BoxedStrategy<S> {
    prop::collection::vec(0u8..7, 0..7).prop_map(S::Items).boxed()
}

// ---------------------------------------------------------------- sets

pub trait SetBack: Clone + 'static {
    const NAME: &'static str;
    /// may coerce (fixed-size backings); always duplicate-free
    fn from_items(items: &[u8]) -> Self;
    fn to_items(&self) -> Vec<u8>;
}
impl SetBack for HashSet<u8> {
    const NAME: &'static str = "HashSet";
    fn from_items(i: &[u8]) -> Self {
        i.iter().copied().collect()
    }
    fn to_items(&self) -> Vec<u8> {
        self.iter().copied().collect()
    }
}
impl SetBack for BTreeSet<u8> {
    const NAME: &'static str = "BTreeSet";
    fn from_items(i: &[u8]) -> Self {
        i.iter().copied().collect()
    }
    fn to_items(&self) -> Vec<u8> {
        self.iter().copied().collect()
    }
}
impl SetBack for Vec<u8> {
    const NAME: &'static str = "Vec";
    fn from_items(i: &[u8]) -> Self {
        dedup(i)
    }
    fn to_items(&self) -> Vec<u8> {
        self.clone()
    }
}
impl SetBack for VecSet<u8> {
    const NAME: &'static str = "VecSet";
    fn from_items(i: &[u8]) -> Self {
        VecSet(dedup(i))
    }
    fn to_items(&self) -> Vec<u8> {
        self.0.clone()
    }
}
impl SetBack for SingletonSet<u8> {
    const NAME: &'static str = "SingletonSet";
    fn from_items(i: &[u8]) -> Self {
        SingletonSet(i.first().copied().unwrap_or(0))
    }
    fn to_items(&self) -> Vec<u8> {
        vec![self.0]
    }
}
impl SetBack for OptionSet<u8> {
    const NAME: &'static str = "OptionSet";
    fn from_items(i: &[u8]) -> Self {
        OptionSet(i.first().copied())
    }
    fn to_items(&self) -> Vec<u8> {
        self.0.into_iter().collect()
    }
}
impl SetBack for ArraySet<u8, 2> {
    const NAME: &'static str = "ArraySet2";
    fn from_items(i: &[u8]) -> Self {
        let d = dedup(i);
        let a = d.first().copied().unwrap_or(0);
        let b = d.get(1).copied().unwrap_or(if a == 6 { 5 } else { a + 1 });
        ArraySet([a, b])
    }
    fn to_items(&self) -> Vec<u8> {
        self.0.to_vec()
    }
}

impl<C: SetBack> Subj for SetUnion<C> {
    fn name() -> String {
        format!("SetUnion<{}>", C::NAME)
    }
    fn strat() -> BoxedStrategy<S> {
        items_strat()
    }
    fn small() -> Vec<S> {
        subsets(&[0, 1, 2])
    }
    fn build(s: &S) -> Self {
        SetUnion::new(C::from_items(&items_of(s)))
    }
    fn abs(&self) -> A {
        model::set(self.as_reveal_ref().to_items().into_iter().map(|x| x as i64))
    }
}

// ---------------------------------------------------------------- maps

pub trait MapBack: Clone + 'static {
    type V: Subj;
    const NAME: &'static str;
    fn from_entries(e: Vec<(u8, Self::V)>) -> Self;
    fn entries(&self) -> Vec<(u8, &Self::V)>;
}
fn dedup_entries<V>(e: Vec<(u8, V)>) -> Vec<(u8, V)> {
    let mut seen = BTreeSet::new();
    e.into_iter().filter(|(k, _)| seen.insert(*k)).collect()
}
impl<V: Subj> MapBack for HashMap<u8, V> {
    type V = V;
    const NAME: &'static str = "HashMap";
    fn from_entries(e: Vec<(u8, V)>) -> Self {
        dedup_entries(e).into_iter().collect()
    }
    fn entries(&self) -> Vec<(u8, &V)> {
        self.iter().map(|(k, v)| (*k, v)).collect()
    }
}
impl<V: Subj> MapBack for BTreeMap<u8, V> {
    type V = V;
    const NAME: &'static str = "BTreeMap";
    fn from_entries(e: Vec<(u8, V)>) -> Self {
        dedup_entries(e).into_iter().collect()
    }
    fn entries(&self) -> Vec<(u8, &V)> {
        self.iter().map(|(k, v)| (*k, v)).collect()
    }
}
impl<V: Subj> MapBack for VecMap<u8, V> {
    type V = V;
    const NAME: &'static str = "VecMap";
    fn from_entries(e: Vec<(u8, V)>) -> Self {
        let (k, v): (Vec<u8>, Vec<V>) = dedup_entries(e).into_iter().unzip();
        VecMap::new(k, v)
    }
    fn entries(&self) -> Vec<(u8, &V)> {
        self.keys.iter().copied().zip(self.vals.iter()).collect()
    }
}

/// Fixed-size backings need a value to pad with; they are only built from seeds that have
/// enough entries (see `MapUnion` build below), otherwise padded with clones of the first.
impl<V: Subj> MapBack for SingletonMap<u8, V> {
    type V = V;
    const NAME: &'static str = "SingletonMap";
    fn from_entries(e: Vec<(u8, V)>) -> Self {
        let (k, v) = e.into_iter().next().expect("SingletonMap needs one entry");
        SingletonMap(k, v)
    }
    fn entries(&self) -> Vec<(u8, &V)> {
        vec![(self.0, &self.1)]
    }
}
impl<V: Subj> MapBack for OptionMap<u8, V> {
    type V = V;
    const NAME: &'static str = "OptionMap";
    fn from_entries(e: Vec<(u8, V)>) -> Self {
        OptionMap(e.into_iter().next())
    }
    fn entries(&self) -> Vec<(u8, &V)> {
        self.0.iter().map(|(k, v)| (*k, v)).collect()
    }
}
impl<V: Subj> MapBack for ArrayMap<u8, V, 2> {
    type V = V;
    const NAME: &'static str = "ArrayMap2";
    fn from_entries(e: Vec<(u8, V)>) -> Self {
        let mut d = dedup_entries(e);
        assert!(!d.is_empty(), "ArrayMap2 needs an entry");
        if d.len() == 1 {
            let (k, v) = d[0].clone();
            d.push((if k == 6 { 5 } else { k + 1 }, v));
        }
        let mut it = d.into_iter();
        let (k0, v0) = it.next().unwrap();
        let (k1, v1) = it.next().unwrap();
        ArrayMap {
            keys: [k0, k1],
            vals: [v0, v1],
        }
    }
    fn entries(&self) -> Vec<(u8, &V)> {
        self.keys.iter().copied().zip(self.vals.iter()).collect()
    }
}

fn ent_of(s: &S) -> Vec<(u8, S)> {
    match s {
        S::Ent(v) => v.clone(),
        _ => panic!("seed shape: expected Ent, got {s:?}"),
    }
}

/// `NEEDS` = minimum number of entries the backing requires (fixed-size maps).
pub trait MapMin {
    const NEEDS: usize;
}
impl<V> MapMin for HashMap<u8, V> {
    const NEEDS: usize = 0;
}
impl<V> MapMin for BTreeMap<u8, V> {
    const NEEDS: usize = 0;
}
impl<V> MapMin for VecMap<u8, V> {
    const NEEDS: usize = 0;
}
impl<V> MapMin for OptionMap<u8, V> {
    const NEEDS: usize = 0;
}
impl<V> MapMin for SingletonMap<u8, V> {
    const NEEDS: usize = 1;
}
impl<V> MapMin for ArrayMap<u8, V, 2> {
    const NEEDS: usize = 1;
}

impl<M: MapBack + MapMin> Subj for MapUnion<M> {
    fn name() -> String {
        format!("MapUnion<{}<{}>>", M::NAME, <M::V>::name())
    }
    fn strat() -> BoxedStrategy<S> {
        prop::collection::vec((0u8..5, <M::V>::strat()), M::NEEDS..5)
            .prop_map(S::Ent)
            .boxed()
    }
    fn small() -> Vec<S> {
        // keys {0,1}; values from the thinned small list of V (includes bottom-valued entries)
        let vs = thin(<M::V>::small(), 4);
        let mut out = vec![];
        if M::NEEDS == 0 {
            out.push(S::Ent(vec![]));
        }
        for v in &vs {
            out.push(S::Ent(vec![(0, v.clone())]));
            out.push(S::Ent(vec![(1, v.clone())]));
        }
        for v in &vs {
            for w in &vs {
                out.push(S::Ent(vec![(0, v.clone()), (1, w.clone())]));
            }
        }
        out
    }
    fn build(s: &S) -> Self {
        let e: Vec<(u8, M::V)> = ent_of(s).iter().map(|(k, v)| (*k, <M::V>::build(v))).collect();
        MapUnion::new(M::from_entries(e))
    }
    fn abs(&self) -> A {
        model::map(
            self.as_reveal_ref()
                .entries()
                .into_iter()
                .map(|(k, v)| (k as i64, v.abs())),
        )
    }
    fn accepts(s: &S) -> bool {
        let e = ent_of(s);
        e.len() >= M::NEEDS && e.iter().all(|(_, v)| <M::V>::accepts(v))
    }
}

// ---------------------------------------------------------------- scalars

fn n_of(s: &S) -> u8 {
    match s {
        S::N(x) => *x,
        _ => panic!("seed shape: expected N, got {s:?}"),
    }
}
fn u8_strat() -> BoxedStrategy<S> {
    prop_oneof![
        4 => (0u8..5).prop_map(S::N),
        1 => any::<u8>().prop_map(S::N),
        1 => Just(S::N(255)),
        1 => Just(S::N(254)),
    ]
    .boxed()
}
fn u8_small() -> Vec<S> {
    vec![S::N(0), S::N(1), S::N(2), S::N(255)]
}

impl Subj for Max<u8> {
    fn name() -> String {
        "Max<u8>".into()
    }
    fn strat() -> BoxedStrategy<S> {
        u8_strat()
    }
    fn small() -> Vec<S> {
        u8_small()
    }
    fn build(s: &S) -> Self {
        Max::new(n_of(s))
    }
    fn abs(&self) -> A {
        A::Chain {
            v: *self.as_reveal_ref() as i64,
            lo: 0,
            hi: 255,
        }
    }
}
impl Subj for Min<u8> {
    fn name() -> String {
        "Min<u8>".into()
    }
    fn strat() -> BoxedStrategy<S> {
        u8_strat()
    }
    fn small() -> Vec<S> {
        u8_small()
    }
    fn build(s: &S) -> Self {
        Min::new(n_of(s))
    }
    fn abs(&self) -> A {
        A::Chain {
            v: -(*self.as_reveal_ref() as i64),
            lo: -255,
            hi: 0,
        }
    }
}
impl Subj for Max<bool> {
    fn name() -> String {
        "Max<bool>".into()
    }
    fn strat() -> BoxedStrategy<S> {
        (0u8..2).prop_map(S::N).boxed()
    }
    fn small() -> Vec<S> {
        vec![S::N(0), S::N(1)]
    }
    fn build(s: &S) -> Self {
        Max::new(n_of(s) != 0)
    }
    fn abs(&self) -> A {
        A::Chain {
            v: *self.as_reveal_ref() as i64,
            lo: 0,
            hi: 1,
        }
    }
}
impl Subj for Min<bool> {
    fn name() -> String {
        "Min<bool>".into()
    }
    fn strat() -> BoxedStrategy<S> {
        (0u8..2).prop_map(S::N).boxed()
    }
    fn small() -> Vec<S> {
        vec![S::N(0), S::N(1)]
    }
    fn build(s: &S) -> Self {
        Min::new(n_of(s) != 0)
    }
    fn abs(&self) -> A {
        A::Chain {
            v: -(*self.as_reveal_ref() as i64),
            lo: -1,
            hi: 0,
        }
    }
}
impl Subj for Max<i16> {
    fn name() -> String {
        "Max<i16>".into()
    }
    fn strat() -> BoxedStrategy<S> {
        u8_strat()
    }
    fn small() -> Vec<S> {
        u8_small()
    }
    /// seed byte mapped onto the i16 range with both extremes reachable
    fn build(s: &S) -> Self {
        let x = n_of(s);
        Max::new(match x {
            0 => i16::MIN,
            255 => i16::MAX,
            x => x as i16 - 100,
        })
    }
    fn abs(&self) -> A {
        A::Chain {
            v: *self.as_reveal_ref() as i64,
            lo: i16::MIN as i64,
            hi: i16::MAX as i64,
        }
    }
}
impl Subj for () {
    fn name() -> String {
        "()".into()
    }
    fn strat() -> BoxedStrategy<S> {
        Just(S::U).boxed()
    }
    fn small() -> Vec<S> {
        vec![S::U]
    }
    fn build(_: &S) -> Self {}
    fn abs(&self) -> A {
        A::Unit
    }
}

impl Subj for Conflict<u8> {
    fn name() -> String {
        "Conflict<u8>".into()
    }
    fn strat() -> BoxedStrategy<S> {
        prop_oneof![
            1 => Just(S::Opt(None)),
            4 => (0u8..4).prop_map(|x| S::Opt(Some(Box::new(S::N(x))))),
        ]
        .boxed()
    }
    fn small() -> Vec<S> {
        vec![
            S::Opt(None),
            S::Opt(Some(Box::new(S::N(0)))),
            S::Opt(Some(Box::new(S::N(1)))),
            S::Opt(Some(Box::new(S::N(2)))),
        ]
    }
    fn build(s: &S) -> Self {
        match s {
            S::Opt(o) => Conflict::new(o.as_ref().map(|b| n_of(b))),
            _ => panic!("seed shape"),
        }
    }
    fn abs(&self) -> A {
        A::Conf(self.as_reveal_ref().map(|x| *x as i64))
    }
}

impl Subj for Point<u8, ()> {
    fn name() -> String {
        "Point<u8>".into()
    }
    fn strat() -> BoxedStrategy<S> {
        (0u8..4).prop_map(S::N).boxed()
    }
    fn small() -> Vec<S> {
        vec![S::N(0), S::N(1), S::N(7)]
    }
    fn build(s: &S) -> Self {
        Point::new(n_of(s))
    }
    fn abs(&self) -> A {
        A::Point(self.val as i64)
    }
    fn triple() -> BoxedStrategy<(S, S, S)> {
        Self::strat().prop_map(|s| (s.clone(), s.clone(), s)).boxed()
    }
    fn small_compatible(a: &S, b: &S) -> bool {
        a == b
    }
}

// ---------------------------------------------------------------- wrappers

fn opt_of(s: &S) -> Option<&S> {
    match s {
        S::Opt(o) => o.as_deref(),
        _ => panic!("seed shape: expected Opt, got {s:?}"),
    }
}

impl<I: Subj> Subj for WithBot<I> {
    fn name() -> String {
        format!("WithBot<{}>", I::name())
    }
    fn strat() -> BoxedStrategy<S> {
        prop_oneof![
            1 => Just(S::Opt(None)),
            5 => I::strat().prop_map(|s| S::Opt(Some(Box::new(s)))),
        ]
        .boxed()
    }
    fn small() -> Vec<S> {
        let mut v = vec![S::Opt(None)];
        v.extend(thin(I::small(), 9).into_iter().map(|s| S::Opt(Some(Box::new(s)))));
        v
    }
    fn build(s: &S) -> Self {
        WithBot::new(opt_of(s).map(I::build))
    }
    fn abs(&self) -> A {
        model::with_bot(self.as_reveal_ref().map(|i| i.abs()))
    }
    fn small_compatible(a: &S, b: &S) -> bool {
        match (opt_of(a), opt_of(b)) {
            (Some(x), Some(y)) => I::small_compatible(x, y),
            _ => true,
        }
    }
    fn accepts(s: &S) -> bool {
        opt_of(s).is_none_or(I::accepts)
    }
}

impl<I: Subj> Subj for WithTop<I> {
    fn name() -> String {
        format!("WithTop<{}>", I::name())
    }
    fn strat() -> BoxedStrategy<S> {
        prop_oneof![
            1 => Just(S::Opt(None)),
            5 => I::strat().prop_map(|s| S::Opt(Some(Box::new(s)))),
        ]
        .boxed()
    }
    fn small() -> Vec<S> {
        let mut v = vec![S::Opt(None)];
        v.extend(thin(I::small(), 9).into_iter().map(|s| S::Opt(Some(Box::new(s)))));
        v
    }
    fn build(s: &S) -> Self {
        WithTop::new(opt_of(s).map(I::build))
    }
    fn abs(&self) -> A {
        A::Top(self.as_reveal_ref().map(|i| Box::new(i.abs())))
    }
    fn small_compatible(a: &S, b: &S) -> bool {
        match (opt_of(a), opt_of(b)) {
            (Some(x), Some(y)) => I::small_compatible(x, y),
            _ => true,
        }
    }
    fn accepts(s: &S) -> bool {
        opt_of(s).is_none_or(I::accepts)
    }
}

fn two_of(s: &S) -> (&S, &S) {
    match s {
        S::Two(a, b) => (a, b),
        _ => panic!("seed shape: expected Two, got {s:?}"),
    }
}

impl<X: Subj, Y: Subj> Subj for Pair<X, Y> {
    fn name() -> String {
        format!("Pair<{},{}>", X::name(), Y::name())
    }
    fn strat() -> BoxedStrategy<S> {
        (X::strat(), Y::strat())
            .prop_map(|(a, b)| S::Two(Box::new(a), Box::new(b)))
            .boxed()
    }
    fn small() -> Vec<S> {
        let xs = thin(X::small(), 5);
        let ys = thin(Y::small(), 5);
        let mut v = vec![];
        for a in &xs {
            for b in &ys {
                v.push(S::Two(Box::new(a.clone()), Box::new(b.clone())));
            }
        }
        v
    }
    fn build(s: &S) -> Self {
        let (a, b) = two_of(s);
        Pair::new(X::build(a), Y::build(b))
    }
    fn abs(&self) -> A {
        let (a, b) = self.as_reveal_ref();
        A::Pair(Box::new(a.abs()), Box::new(b.abs()))
    }
    fn accepts(s: &S) -> bool {
        let (a, b) = two_of(s);
        X::accepts(a) && Y::accepts(b)
    }
}

/// DomPair is only a lattice for totally ordered keys (property C01): instantiated with
/// Max/Min keys only.
impl<K: Subj, V: Subj> Subj for DomPair<K, V> {
    fn name() -> String {
        format!("DomPair<{},{}>", K::name(), V::name())
    }
    fn strat() -> BoxedStrategy<S> {
        (K::strat(), V::strat())
            .prop_map(|(a, b)| S::Two(Box::new(a), Box::new(b)))
            .boxed()
    }
    fn small() -> Vec<S> {
        let xs = thin(K::small(), 4);
        let ys = thin(V::small(), 6);
        let mut v = vec![];
        for a in &xs {
            for b in &ys {
                v.push(S::Two(Box::new(a.clone()), Box::new(b.clone())));
            }
        }
        v
    }
    fn build(s: &S) -> Self {
        let (a, b) = two_of(s);
        DomPair::new(K::build(a), V::build(b))
    }
    fn abs(&self) -> A {
        let (a, b) = self.as_reveal_ref();
        A::Dom(Box::new(a.abs()), Box::new(b.abs()))
    }
}

impl<I: Subj> Subj for VecUnion<I> {
    fn name() -> String {
        format!("VecUnion<{}>", I::name())
    }
    fn strat() -> BoxedStrategy<S> {
        prop::collection::vec(I::strat(), 0..5).prop_map(S::List).boxed()
    }
    fn small() -> Vec<S> {
        let is = thin(I::small(), 3);
        let mut v = vec![S::List(vec![])];
        for a in &is {
            v.push(S::List(vec![a.clone()]));
        }
        for a in &is {
            for b in &is {
                v.push(S::List(vec![a.clone(), b.clone()]));
            }
        }
        v.push(S::List(vec![is[0].clone(); 3]));
        v
    }
    fn build(s: &S) -> Self {
        match s {
            S::List(l) => VecUnion::new(l.iter().map(I::build).collect()),
            _ => panic!("seed shape"),
        }
    }
    fn abs(&self) -> A {
        A::Vec(self.as_reveal_ref().iter().map(|i| i.abs()).collect())
    }
    fn accepts(s: &S) -> bool {
        match s {
            S::List(l) => l.iter().all(I::accepts),
            _ => false,
        }
    }
}

// ---------------------------------------------------------------- union-find

fn edges_of(s: &S) -> Vec<(u8, u8)> {
    match s {
        S::Edges(e) => e.clone(),
        _ => panic!("seed shape: expected Edges, got {s:?}"),
    }
}
fn edges_strat(max: usize) -> BoxedStrategy<S> {
    prop::collection::vec((0u8..6, 0u8..6), 0..max)
        .prop_map(S::Edges)
        .boxed()
}
fn edges_small() -> Vec<S> {
    let pairs = [(0u8, 1u8), (1, 2), (0, 2), (2, 3), (1, 1)];
    let mut v = vec![S::Edges(vec![])];
    for p in pairs {
        v.push(S::Edges(vec![p]));
    }
    for (i, p) in pairs.iter().enumerate() {
        for q in &pairs[i + 1..] {
            v.push(S::Edges(vec![*p, *q]));
            v.push(S::Edges(vec![*q, *p]));
        }
    }
    v.push(S::Edges(vec![(0, 1), (1, 2), (2, 3)]));
    v.push(S::Edges(vec![(2, 3), (1, 2), (0, 1)]));
    v
}
fn uf_abs<'a>(it: impl Iterator<Item = (u8, u8)>) -> A {
    model::uf_from_edges(it.map(|(a, b)| (a as i64, b as i64)))
}

macro_rules! uf_growable {
    ($map:ty, $name:literal) => {
        impl Subj for UnionFind<$map> {
            fn name() -> String {
                format!("UnionFind<{}>", $name)
            }
            fn strat() -> BoxedStrategy<S> {
                edges_strat(7)
            }
            fn small() -> Vec<S> {
                edges_small()
            }
            /// built only through the public `union` operation, so the parent map is whatever
            /// the crate itself produces
            fn build(s: &S) -> Self {
                let mut u = <UnionFind<$map>>::default();
                for (a, b) in edges_of(s) {
                    u.union(a, b);
                }
                u
            }
            fn abs(&self) -> A {
                uf_abs(self.as_reveal_ref().iter().map(|(k, c)| (*k, c.get())))
            }
        }
    };
}
uf_growable!(HashMap<u8, Cell<u8>>, "HashMap");
uf_growable!(BTreeMap<u8, Cell<u8>>, "BTreeMap");

impl Subj for UnionFind<SingletonMap<u8, Cell<u8>>> {
    fn name() -> String {
        "UnionFind<SingletonMap>".into()
    }
    fn strat() -> BoxedStrategy<S> {
        (0u8..6, 0u8..6).prop_map(|p| S::Edges(vec![p])).boxed()
    }
    fn small() -> Vec<S> {
        vec![(0u8, 1u8), (1, 2), (0, 2), (1, 1), (2, 1)]
            .into_iter()
            .map(|p| S::Edges(vec![p]))
            .collect()
    }
    fn build(s: &S) -> Self {
        let (a, b) = edges_of(s)[0];
        UnionFind::new(SingletonMap(a, Cell::new(b)))
    }
    fn abs(&self) -> A {
        let m = self.as_reveal_ref();
        uf_abs(std::iter::once((m.0, m.1.get())))
    }
}
impl Subj for UnionFind<OptionMap<u8, Cell<u8>>> {
    fn name() -> String {
        "UnionFind<OptionMap>".into()
    }
    fn strat() -> BoxedStrategy<S> {
        prop::collection::vec((0u8..6, 0u8..6), 0..2)
            .prop_map(S::Edges)
            .boxed()
    }
    fn small() -> Vec<S> {
        let mut v = vec![S::Edges(vec![])];
        v.extend(<UnionFind<SingletonMap<u8, Cell<u8>>>>::small());
        v
    }
    fn build(s: &S) -> Self {
        UnionFind::new(OptionMap(
            edges_of(s).first().map(|(a, b)| (*a, Cell::new(*b))),
        ))
    }
    fn abs(&self) -> A {
        uf_abs(self.as_reveal_ref().0.iter().map(|(k, c)| (*k, c.get())))
    }
}
/// VecMap / ArrayMap backed union-finds: forests given directly as (item, parent) entries with
/// distinct items whose edges are acyclic (a well-formed parent map), built from an edge list by
/// keeping an edge (a,b) only when `a` has no parent yet and b is not a descendant of a.
pub fn forest_entries(edges: &[(u8, u8)]) -> Vec<(u8, u8)> {
    let mut parent: BTreeMap<u8, u8> = BTreeMap::new();
    let root = |p: &BTreeMap<u8, u8>, mut x: u8| {
        while let Some(&y) = p.get(&x) {
            if y == x {
                break;
            }
            x = y;
        }
        x
    };
    for &(a, b) in edges {
        if parent.contains_key(&a) {
            continue;
        }
        if root(&parent, b) == a && a != b {
            continue;
        }
        parent.insert(a, b);
    }
    parent.into_iter().collect()
}
impl Subj for UnionFind<VecMap<u8, Cell<u8>>> {
    fn name() -> String {
        "UnionFind<VecMap>".into()
    }
    fn strat() -> BoxedStrategy<S> {
        edges_strat(6)
    }
    fn small() -> Vec<S> {
        edges_small()
    }
    fn build(s: &S) -> Self {
        let e = forest_entries(&edges_of(s));
        let (k, v): (Vec<u8>, Vec<Cell<u8>>) = e.into_iter().map(|(a, b)| (a, Cell::new(b))).unzip();
        UnionFind::new(VecMap::new(k, v))
    }
    fn abs(&self) -> A {
        let m = self.as_reveal_ref();
        uf_abs(m.keys.iter().copied().zip(m.vals.iter().map(|c| c.get())))
    }
}
impl Subj for UnionFind<ArrayMap<u8, Cell<u8>, 2>> {
    fn name() -> String {
        "UnionFind<ArrayMap2>".into()
    }
    fn strat() -> BoxedStrategy<S> {
        edges_strat(4)
    }
    fn small() -> Vec<S> {
        edges_small()
    }
    fn build(s: &S) -> Self {
        let mut e = forest_entries(&edges_of(s));
        // pad with self-parented fresh items (bottom contributions)
        let mut pad = 10u8;
        while e.len() < 2 {
            e.push((pad, pad));
            pad += 1;
        }
        UnionFind::new(ArrayMap {
            keys: [e[0].0, e[1].0],
            vals: [Cell::new(e[0].1), Cell::new(e[1].1)],
        })
    }
    fn abs(&self) -> A {
        let m = self.as_reveal_ref();
        uf_abs(m.keys.iter().copied().zip(m.vals.iter().map(|c| c.get())))
    }
}
