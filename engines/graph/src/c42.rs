//! C42 (DFIR half): byte-identical partitioned-graph JSON and `as_code` text across repeated
//! compilations, in one process (fresh threads, junk allocations in between) and across fresh
//! processes (this binary re-spawned in `--child` mode).

use std::io::{Read, Write};
use std::process::{Command, Stdio};
use std::sync::atomic::{AtomicBool, Ordering};

use vcommon::{Fail, Obs};

use crate::gen::{self, Tape};
use crate::pipeline;

pub static INFRA_FAIL: AtomicBool = AtomicBool::new(false);

/// Outcome of one compilation: Ok((json, code)) or a short description of where it stopped.
pub type Compiled = Result<(String, String), String>;

pub fn compile(text: &str) -> Compiled {
    match pipeline::full(text, None) {
        pipeline::Full::Ok(g) => {
            let json = serde_json::to_string(&g).map_err(|e| format!("json: {e}"))?;
            match pipeline::code(&g) {
                Ok(c) => Ok((json, c)),
                Err(e) => Err(format!("as_code: {}", e.join(" | "))),
            }
        }
        pipeline::Full::Excluded(e) => Err(format!("excluded: {e}")),
        pipeline::Full::Rejected(e) => Err(format!("rejected: {e}")),
    }
}

fn junk(n: usize) -> usize {
    // allocate and free a generated amount of differently sized blocks to move heap addresses
    let mut v: Vec<Vec<u8>> = Vec::new();
    let mut acc = 0usize;
    for i in 0..(n % 200) {
        let b = vec![i as u8; 16 + (i * 37 + n) % 4096];
        acc += b.len();
        v.push(b);
    }
    std::hint::black_box(&v);
    acc
}

pub fn compile_in_fresh_thread(text: &str, j: usize) -> Compiled {
    let t = text.to_string();
    std::thread::Builder::new()
        .stack_size(16 << 20)
        .spawn(move || {
            let keep = junk(j);
            let mut warm: std::collections::HashMap<usize, usize> = std::collections::HashMap::new();
            for i in 0..(j % 17) {
                warm.insert(i, keep);
            }
            std::hint::black_box(&warm);
            compile(&t)
        })
        .unwrap()
        .join()
        .unwrap_or_else(|_| Err("panic".to_string()))
}

/// `--child <junk>`: read one program from stdin, compile it once, print a JSON object.
pub fn child_main(j: usize) -> ! {
    vcommon::quiet_panics();
    let mut text = String::new();
    std::io::stdin().read_to_string(&mut text).unwrap();
    let keep = junk(j);
    std::hint::black_box(keep);
    let r = std::panic::catch_unwind(|| compile(&text)).unwrap_or_else(|_| Err("panic".to_string()));
    let out = match r {
        Ok((json, code)) => serde_json::json!({"ok": true, "json": json, "code": code}),
        Err(e) => serde_json::json!({"ok": false, "err": e}),
    };
    let s = serde_json::to_string(&out).unwrap();
    std::io::stdout().write_all(s.as_bytes()).unwrap();
    std::process::exit(0);
}

fn compile_in_child(text: &str, j: usize) -> Option<Compiled> {
    let exe = std::env::current_exe().ok()?;
    let mut ch = Command::new(exe)
        .arg("--child")
        .arg(j.to_string())
        // a differently sized environment moves the initial stack
        .env("VERIF_PAD", "x".repeat(1 + (j * 131) % 3000))
        .stdin(Stdio::piped())
        .stdout(Stdio::piped())
        .stderr(Stdio::null())
        .spawn()
        .ok()?;
    ch.stdin.take()?.write_all(text.as_bytes()).ok()?;
    let out = ch.wait_with_output().ok()?;
    if !out.status.success() {
        return None;
    }
    let v: serde_json::Value = serde_json::from_slice(&out.stdout).ok()?;
    if v["ok"].as_bool()? {
        Some(Ok((v["json"].as_str()?.to_string(), v["code"].as_str()?.to_string())))
    } else {
        Some(Err(v["err"].as_str()?.to_string()))
    }
}

fn first_diff(a: &str, b: &str) -> String {
    let i = a.bytes().zip(b.bytes()).position(|(x, y)| x != y).unwrap_or(a.len().min(b.len()));
    let lo = i.saturating_sub(60);
    let cut = |s: &str| s.get(lo..(i + 60).min(s.len())).unwrap_or("<non-utf8 boundary>").to_string();
    format!("first difference at byte {i}:\n  A: ...{}\n  B: ...{}", cut(a), cut(b))
}

fn compare(kind: &str, a: &Compiled, b: &Compiled, text: &str) -> Result<(), Fail> {
    match (a, b) {
        (Ok((ja, ca)), Ok((jb, cb))) => {
            if ja != jb {
                return Err(Fail::new(format!("determinism:{kind}:partitioned-graph-json-differs"), format!("{}\n{text}", first_diff(ja, jb))));
            }
            if ca != cb {
                return Err(Fail::new(format!("determinism:{kind}:as_code-text-differs"), format!("{}\n{text}", first_diff(ca, cb))));
            }
            Ok(())
        }
        (Err(ea), Err(eb)) => {
            if ea != eb {
                return Err(Fail::new(format!("determinism:{kind}:diagnostics-differ"), format!("{ea}\nvs\n{eb}\n{text}")));
            }
            Ok(())
        }
        (x, y) => Err(Fail::new(
            format!("determinism:{kind}:verdict-differs"),
            format!("{:?}\nvs\n{:?}\n{text}", x.as_ref().map(|_| "ok"), y.as_ref().map(|_| "ok")),
        )),
    }
}

fn classify(p: &gen::Prog, first: &Compiled, obs: &mut Obs) {
    // non-trivial: >=2 loops or >=4 handoffs or >=2 reference groups (where hash containers are used)
    let f = p.features();
    let mut hoffs = 0;
    if let Ok((json, _)) = first {
        hoffs = json.matches("\"Handoff\"").count();
    }
    let groups = f.ref_targets;
    if first.is_ok() {
        obs.nontrivial(f.loops >= 2 || hoffs >= 4 || groups >= 2);
        if f.loops >= 2 {
            obs.class("c42:loops>=2");
        }
        if hoffs >= 4 {
            obs.class("c42:handoffs>=4");
        }
        if groups >= 2 {
            obs.class("c42:ref-targets>=2");
        }
        if f.defers > 0 && f.loops > 0 {
            obs.class("c42:defer-in-loop-program");
        }
    } else {
        obs.class("c42:not-compiled");
    }
}

pub fn run_inproc(tape: &Tape, obs: &mut Obs) -> Result<(), Fail> {
    let p = gen::decode(tape);
    let text = gen::print(&p);
    let a = compile_in_fresh_thread(&text, 3 + tape.order as usize);
    if let Err(e) = &a {
        obs.excluded(e.split(':').next().unwrap_or("err").to_string());
    }
    let b = compile_in_fresh_thread(&text, 77 + p.nodes.len() * 13);
    let c = compile(&text); // and once on the long-lived main thread
    compare("in-process", &a, &b, &text)?;
    compare("in-process", &a, &c, &text)?;
    classify(&p, &a, obs);
    Ok(())
}

pub fn run_xproc(tape: &Tape, obs: &mut Obs) -> Result<(), Fail> {
    let p = gen::decode(tape);
    let text = gen::print(&p);
    let a = compile(&text);
    if let Err(e) = &a {
        obs.excluded(e.split(':').next().unwrap_or("err").to_string());
    }
    for j in [5usize, 1234] {
        match compile_in_child(&text, j + p.nodes.len()) {
            Some(b) => compare("cross-process", &a, &b, &text)?,
            None => {
                INFRA_FAIL.store(true, Ordering::SeqCst);
                return Ok(());
            }
        }
    }
    classify(&p, &a, obs);
    Ok(())
}
