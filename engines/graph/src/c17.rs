//! C17: topo_sort, SubgraphMerge, UnionFind against independent validators.

use std::collections::{BTreeMap, BTreeSet};

use dfir_lang::graph::graph_algorithms::{topo_sort, SubgraphMerge};
use dfir_lang::union_find::UnionFind;
use serde::{Deserialize, Serialize};
use slotmap::{DefaultKey, SlotMap};
use vcommon::proptest::prelude::*;
use vcommon::{Ctx, Fail, Obs};

// ------------------------------------------------------------------------------------------------
// topo_sort

fn acyclic(n: usize, edges: &[(usize, usize)]) -> bool {
    let mut indeg = vec![0usize; n];
    for &(_, b) in edges {
        indeg[b] += 1;
    }
    let mut ready: Vec<usize> = (0..n).filter(|&i| indeg[i] == 0).collect();
    let mut seen = 0;
    while let Some(x) = ready.pop() {
        seen += 1;
        for &(a, b) in edges {
            if a == x {
                indeg[b] -= 1;
                if indeg[b] == 0 {
                    ready.push(b);
                }
            }
        }
    }
    seen == n
}

/// Check one `topo_sort` answer. `order`: the order in which node ids are handed to the function;
/// `rev_preds`: hand predecessors in descending instead of ascending order.
fn check_toposort(n: usize, edges: &[(usize, usize)], order: &[usize], rev_preds: bool, label: impl Fn(usize) -> u32) -> Result<bool, Fail> {
    let lab: Vec<u32> = (0..n).map(&label).collect();
    let unl: BTreeMap<u32, usize> = lab.iter().enumerate().map(|(i, l)| (*l, i)).collect();
    let res = topo_sort(order.iter().map(|&i| lab[i]), |v| {
        let v = unl[&v];
        let mut ps: Vec<u32> = edges.iter().filter(|e| e.1 == v).map(|e| lab[e.0]).collect();
        if rev_preds {
            ps.reverse();
        }
        ps
    });
    let is_acyclic = acyclic(n, edges);
    let eset: BTreeSet<(usize, usize)> = edges.iter().copied().collect();
    match res {
        Ok(ord) => {
            if !is_acyclic {
                return Err(Fail::new("toposort:ok-on-cyclic-graph", format!("n={n} edges={edges:?} order={order:?} -> Ok({ord:?})")));
            }
            let mut pos = BTreeMap::new();
            for (i, l) in ord.iter().enumerate() {
                if pos.insert(*l, i).is_some() {
                    return Err(Fail::new("toposort:order-repeats-a-node", format!("n={n} edges={edges:?} -> {ord:?}")));
                }
            }
            if ord.len() != n || !lab.iter().all(|l| pos.contains_key(l)) {
                return Err(Fail::new("toposort:order-not-a-permutation", format!("n={n} edges={edges:?} -> {ord:?}")));
            }
            for &(a, b) in edges {
                if pos[&lab[a]] >= pos[&lab[b]] {
                    return Err(Fail::new("toposort:order-violates-edge", format!("n={n} edges={edges:?} edge {a}->{b} -> {ord:?}")));
                }
            }
            Ok(false)
        }
        Err(cyc) => {
            if is_acyclic {
                return Err(Fail::new("toposort:cycle-reported-on-dag", format!("n={n} edges={edges:?} order={order:?} -> Err({cyc:?})")));
            }
            if cyc.is_empty() {
                return Err(Fail::new("toposort:empty-cycle", format!("n={n} edges={edges:?}")));
            }
            let set: BTreeSet<u32> = cyc.iter().copied().collect();
            if set.len() != cyc.len() {
                return Err(Fail::new("toposort:cycle-repeats-a-node", format!("n={n} edges={edges:?} order={order:?} -> Err({cyc:?})")));
            }
            for l in &cyc {
                if !unl.contains_key(l) {
                    return Err(Fail::new("toposort:cycle-lists-unknown-node", format!("n={n} edges={edges:?} -> Err({cyc:?})")));
                }
            }
            let m = cyc.len();
            for i in 0..m {
                let (a, b) = (unl[&cyc[i]], unl[&cyc[(i + 1) % m]]);
                if !eset.contains(&(a, b)) {
                    return Err(Fail::new(
                        "toposort:reported-cycle-is-not-a-cycle",
                        format!("n={n} edges={edges:?} order={order:?} preds_reversed={rev_preds} -> Err({cyc:?}): {a}->{b} is no edge"),
                    ));
                }
            }
            Ok(true)
        }
    }
}

fn permutations(n: usize) -> Vec<Vec<usize>> {
    fn rec(cur: &mut Vec<usize>, used: &mut Vec<bool>, n: usize, out: &mut Vec<Vec<usize>>) {
        if cur.len() == n {
            out.push(cur.clone());
            return;
        }
        for i in 0..n {
            if !used[i] {
                used[i] = true;
                cur.push(i);
                rec(cur, used, n, out);
                cur.pop();
                used[i] = false;
            }
        }
    }
    let mut out = vec![];
    rec(&mut vec![], &mut vec![false; n], n, &mut out);
    out
}

fn mask_edges(n: usize, mask: u32) -> Vec<(usize, usize)> {
    let mut e = vec![];
    for a in 0..n {
        for b in 0..n {
            if mask & (1 << (a * n + b)) != 0 {
                e.push((a, b));
            }
        }
    }
    e
}

#[derive(Clone, Debug, Serialize, Deserialize)]
pub struct RandGraph {
    pub n: usize,
    pub edges: Vec<(u8, u8)>,
    pub perm: Vec<u8>,
    pub rev: bool,
}

fn rand_graph(max_n: usize, max_e: usize) -> impl Strategy<Value = RandGraph> {
    (1..=max_n).prop_flat_map(move |n| {
        (
            vcommon::proptest::collection::vec((0..n as u8, 0..n as u8), 0..=max_e),
            vcommon::proptest::collection::vec(any::<u8>(), n),
            any::<bool>(),
            any::<bool>(),
        )
            .prop_map(move |(mut edges, perm, rev, dagify)| {
                if dagify {
                    // half of the cases: orient along a hidden order so that large graphs are DAGs
                    for e in edges.iter_mut() {
                        if e.0 > e.1 {
                            *e = (e.1, e.0);
                        }
                    }
                    edges.retain(|e| e.0 != e.1);
                }
                RandGraph { n, edges, perm, rev }
            })
    })
}

fn perm_from_keys(keys: &[u8]) -> Vec<usize> {
    let mut idx: Vec<usize> = (0..keys.len()).collect();
    idx.sort_by_key(|&i| (keys[i], i));
    idx
}

// ------------------------------------------------------------------------------------------------
// SubgraphMerge

#[derive(Clone, Debug, Serialize, Deserialize)]
pub struct MergeCase {
    pub n: usize,
    /// DAG edges (a -> b)
    pub edges: Vec<(usize, usize)>,
    pub enemies: Vec<(usize, usize)>,
    pub attempts: Vec<(usize, usize)>,
    /// order in which the keys are created in the slot map relative to node index
    pub key_perm: Vec<usize>,
}

struct Model {
    n: usize,
    edges: Vec<(usize, usize)>,
    enemies: Vec<(usize, usize)>,
    class: Vec<usize>,
}

impl Model {
    fn quotient_acyclic(&self, class: &[usize]) -> bool {
        let q: Vec<(usize, usize)> = self
            .edges
            .iter()
            .map(|&(a, b)| (class[a], class[b]))
            .filter(|(a, b)| a != b)
            .collect();
        acyclic(self.n, &q)
    }
    fn enemies_conflict(&self, class: &[usize]) -> bool {
        self.enemies.iter().any(|&(a, b)| class[a] == class[b])
    }
    /// Expected verdict of try_merge(u, v): may the two classes be merged?
    fn allowed(&self, u: usize, v: usize) -> (bool, &'static str) {
        if self.class[u] == self.class[v] {
            return (true, "same");
        }
        let mut c = self.class.clone();
        let (cu, cv) = (c[u], c[v]);
        for x in c.iter_mut() {
            if *x == cv {
                *x = cu;
            }
        }
        if self.enemies_conflict(&c) {
            return (false, "enemies");
        }
        if !self.quotient_acyclic(&c) {
            return (false, "cycle");
        }
        (true, "ok")
    }
    fn merge(&mut self, u: usize, v: usize) {
        let (cu, cv) = (self.class[u], self.class[v]);
        for x in self.class.iter_mut() {
            if *x == cv {
                *x = cu;
            }
        }
    }
}

pub fn run_merge_case(c: &MergeCase, obs: &mut Obs) -> Result<(), Fail> {
    let n = c.n;
    let mut sm: SlotMap<DefaultKey, usize> = SlotMap::new();
    let mut key_of: Vec<Option<DefaultKey>> = vec![None; n];
    for &i in &c.key_perm {
        key_of[i] = Some(sm.insert(i));
    }
    let key: Vec<DefaultKey> = key_of.into_iter().map(|k| k.unwrap()).collect();
    let idx_of = |k: DefaultKey| sm[k];
    let dag = acyclic(n, &c.edges);
    let res = SubgraphMerge::new(
        sm.keys(),
        |k| {
            let v = idx_of(k);
            c.edges.iter().filter(move |e| e.1 == v).map(|e| key[e.0]).collect::<Vec<_>>()
        },
        c.enemies.iter().map(|&(a, b)| (key[a], key[b])),
    );
    let mut m = match res {
        Ok(m) => {
            if !dag {
                return Err(Fail::new("merge:new-accepts-cyclic-graph", format!("{c:?}")));
            }
            m
        }
        Err(cyc) => {
            if dag {
                return Err(Fail::new("merge:new-rejects-dag", format!("{c:?} -> {cyc:?}")));
            }
            obs.class("merge:new-err-cycle");
            return Ok(());
        }
    };
    let mut model = Model { n, edges: c.edges.clone(), enemies: c.enemies.clone(), class: (0..n).collect() };
    let validate = |m: &mut SubgraphMerge<DefaultKey>, model: &Model, step: &str| -> Result<Vec<Vec<usize>>, Fail> {
        let slices: Vec<Vec<usize>> = m.subgraphs().map(|s| s.iter().map(|&k| idx_of(k)).collect()).collect();
        let flat: Vec<usize> = slices.iter().flatten().copied().collect();
        let set: BTreeSet<usize> = flat.iter().copied().collect();
        if flat.len() != n || set.len() != n {
            return Err(Fail::new("merge:subgraphs-do-not-partition-nodes", format!("{c:?} after {step}: {slices:?}")));
        }
        // each slice = exactly one class
        let mut seen_classes = BTreeSet::new();
        for s in &slices {
            let cl: BTreeSet<usize> = s.iter().map(|&x| model.class[x]).collect();
            if cl.len() != 1 {
                return Err(Fail::new("merge:group-mixes-classes", format!("{c:?} after {step}: {slices:?} classes {:?}", model.class)));
            }
            let cls = *cl.iter().next().unwrap();
            if !seen_classes.insert(cls) {
                return Err(Fail::new("merge:group-not-contiguous", format!("{c:?} after {step}: {slices:?} classes {:?}", model.class)));
            }
            if model.class.iter().filter(|&&x| x == cls).count() != s.len() {
                return Err(Fail::new("merge:group-incomplete", format!("{c:?} after {step}: {slices:?}")));
            }
            for &(a, b) in &model.enemies {
                if s.contains(&a) && s.contains(&b) {
                    return Err(Fail::new("merge:enemies-in-one-group", format!("{c:?} after {step}: {slices:?}")));
                }
            }
        }
        let pos: BTreeMap<usize, usize> = flat.iter().enumerate().map(|(i, x)| (*x, i)).collect();
        for &(a, b) in &model.edges {
            if pos[&a] >= pos[&b] {
                return Err(Fail::new("merge:global-order-violates-edge", format!("{c:?} after {step}: {slices:?} edge {a}->{b}")));
            }
        }
        if !model.quotient_acyclic(&model.class) {
            return Err(Fail::new("merge:quotient-cyclic", format!("{c:?} after {step}")));
        }
        // connectivity answers
        for a in 0..n {
            for b in 0..n {
                let same = m.same_set(key[a], key[b]);
                if same != (model.class[a] == model.class[b]) {
                    return Err(Fail::new("merge:same_set-wrong", format!("{c:?} after {step}: same_set({a},{b})={same}")));
                }
            }
            let r = idx_of(m.find(key[a]));
            if model.class[r] != model.class[a] {
                return Err(Fail::new("merge:find-outside-class", format!("{c:?} after {step}: find({a})={r}")));
            }
        }
        for a in 0..n {
            for b in 0..n {
                if (m.find(key[a]) == m.find(key[b])) != (model.class[a] == model.class[b]) {
                    return Err(Fail::new("merge:find-inconsistent", format!("{c:?} after {step}: {a},{b}")));
                }
            }
        }
        Ok(slices)
    };
    let mut slices = validate(&mut m, &model, "new")?;
    for (step, &(u, v)) in c.attempts.iter().enumerate() {
        let (want, why) = model.allowed(u, v);
        let got = m.try_merge(key[u], key[v]);
        if got != want {
            return Err(Fail::new(
                if want { "merge:refused-a-legal-merge" } else if why == "enemies" { "merge:merged-enemies" } else { "merge:merged-into-cycle" },
                format!("{c:?}: attempt #{step} try_merge({u},{v}) returned {got}, model says {want} ({why}); classes {:?}", model.class),
            ));
        }
        if got {
            if why == "ok" {
                // were the two groups non-adjacent (something in the window had to be re-sorted)?
                let pu = slices.iter().position(|s| s.contains(&u)).unwrap();
                let pv = slices.iter().position(|s| s.contains(&v)).unwrap();
                if pu.abs_diff(pv) > 1 {
                    obs.nontrivial(true);
                    obs.class("merge:window-resorted");
                }
                model.merge(u, v);
            }
        } else {
            obs.nontrivial(true);
            obs.class(format!("merge:refused-{why}"));
        }
        slices = validate(&mut m, &model, &format!("attempt #{step} ({u},{v})={got}"))?;
    }
    Ok(())
}

fn all_dags(n: usize) -> Vec<Vec<(usize, usize)>> {
    let mut out = vec![];
    for mask in 0u32..(1 << (n * n)) {
        let e = mask_edges(n, mask);
        if e.iter().any(|&(a, b)| a == b) {
            continue;
        }
        if acyclic(n, &e) {
            out.push(e);
        }
    }
    out
}

fn pairs(n: usize, ordered: bool) -> Vec<(usize, usize)> {
    let mut p = vec![];
    for a in 0..n {
        for b in 0..n {
            if a != b && (ordered || a < b) {
                p.push((a, b));
            }
        }
    }
    p
}

fn merge_rand(max_n: usize, max_attempts: usize) -> impl Strategy<Value = MergeCase> {
    (2..=max_n).prop_flat_map(move |n| {
        (
            vcommon::proptest::collection::vec((0..n, 0..n), 0..=(2 * n)),
            vcommon::proptest::collection::vec((0..n, 0..n), 0..=n),
            vcommon::proptest::collection::vec((0..n, 0..n, any::<bool>()), 1..=max_attempts),
            vcommon::proptest::collection::vec(any::<u8>(), n),
            vcommon::proptest::collection::vec(any::<u8>(), n),
        )
            .prop_map(move |(es, en, at, hidden, kp)| {
                // orient edges along a hidden random order => DAG whose topological structure is
                // unrelated to the key order
                let rank = perm_from_keys(&hidden);
                let mut pos = vec![0; n];
                for (i, &x) in rank.iter().enumerate() {
                    pos[x] = i;
                }
                let mut edges: Vec<(usize, usize)> = es
                    .into_iter()
                    .filter(|(a, b)| a != b)
                    .map(|(a, b)| if pos[a] < pos[b] { (a, b) } else { (b, a) })
                    .collect();
                edges.dedup();
                let enemies: Vec<(usize, usize)> = en.into_iter().filter(|(a, b)| a != b).collect();
                // attempts: half of them along edges (adjacent pairs), the rest arbitrary
                let attempts = at
                    .into_iter()
                    .map(|(a, b, adj)| {
                        if adj && !edges.is_empty() {
                            edges[(a * n + b) % edges.len()]
                        } else {
                            (a, b)
                        }
                    })
                    .collect();
                MergeCase { n, edges, enemies, attempts, key_perm: perm_from_keys(&kp) }
            })
    })
}

// ------------------------------------------------------------------------------------------------
// UnionFind

#[derive(Clone, Debug, Serialize, Deserialize)]
pub enum UfOp {
    Union(u8, u8),
    Find(u8),
    Same(u8, u8),
}

fn uf_ops(n: u8, max: usize) -> impl Strategy<Value = Vec<UfOp>> {
    vcommon::proptest::collection::vec(
        prop_oneof![
            3 => (0..n, 0..n).prop_map(|(a, b)| UfOp::Union(a, b)),
            1 => (0..n).prop_map(UfOp::Find),
            3 => (0..n, 0..n).prop_map(|(a, b)| UfOp::Same(a, b)),
        ],
        1..=max,
    )
}

fn run_uf(n: usize, ops: &[UfOp], obs: &mut Obs) -> Result<(), Fail> {
    let mut sm: SlotMap<DefaultKey, usize> = SlotMap::new();
    let key: Vec<DefaultKey> = (0..n).map(|i| sm.insert(i)).collect();
    let mut uf: UnionFind<DefaultKey> = UnionFind::new();
    let mut class: Vec<usize> = (0..n).collect();
    let mut unions = 0;
    for (i, op) in ops.iter().enumerate() {
        match *op {
            UfOp::Union(a, b) => {
                let (a, b) = (a as usize, b as usize);
                let before = sm[uf.find(key[a])];
                let r = sm[uf.union(key[a], key[b])];
                if class[a] != class[b] {
                    unions += 1;
                }
                let (ca, cb) = (class[a], class[b]);
                for x in class.iter_mut() {
                    if *x == cb {
                        *x = ca;
                    }
                }
                if class[r] != class[a] {
                    return Err(Fail::new("unionfind:union-returns-foreign-representative", format!("ops={ops:?} step {i}: union({a},{b}) -> {r}")));
                }
                if r != before {
                    return Err(Fail::new("unionfind:union-does-not-keep-first-representative", format!("ops={ops:?} step {i}: find({a}) was {before}, union returned {r}")));
                }
                let (fa, fb) = (sm[uf.find(key[a])], sm[uf.find(key[b])]);
                if fa != r || fb != r {
                    return Err(Fail::new("unionfind:find-after-union-disagrees", format!("ops={ops:?} step {i}: union({a},{b})={r}, find -> {fa},{fb}")));
                }
            }
            UfOp::Find(a) => {
                let r = sm[uf.find(key[a as usize])];
                if class[r] != class[a as usize] {
                    return Err(Fail::new("unionfind:find-outside-class", format!("ops={ops:?} step {i}")));
                }
            }
            UfOp::Same(a, b) => {
                let s = uf.same_set(key[a as usize], key[b as usize]);
                if s != (class[a as usize] == class[b as usize]) {
                    return Err(Fail::new("unionfind:same_set-wrong", format!("ops={ops:?} step {i}: same_set({a},{b})={s}")));
                }
            }
        }
    }
    // final full connectivity table
    for a in 0..n {
        for b in 0..n {
            if uf.same_set(key[a], key[b]) != (class[a] == class[b]) {
                return Err(Fail::new("unionfind:same_set-wrong", format!("ops={ops:?} final ({a},{b})")));
            }
        }
    }
    obs.nontrivial(unions >= 2);
    Ok(())
}

// ------------------------------------------------------------------------------------------------

pub fn run(ctx: &mut Ctx) {
    let thorough = ctx.tier() == vcommon::Tier::Thorough;
    ctx.rule = "topo_sort: every digraph on <=4 nodes (self-loops allowed) x every hand-in order of the node ids x both predecessor orders, plus random digraphs on <=12 nodes; \
SubgraphMerge: every labelled DAG on <=3 nodes x every enemy set x every sequence of 3 ordered try_merge attempts, every DAG on 4 nodes x enemy sets of <=1 pair x sequences of 3 attempts (quick: unordered pairs with alternating argument order; thorough: ordered pairs, plus all enemy sets of 2 pairs with unordered pairs), plus random DAGs on <=10 nodes with random enemies and <=20 attempts (half along edges); \
UnionFind: random union/find/same_set histories on <=8 keys. Oracles are from-scratch models (Kahn, quotient graph, class vector). \
Non-trivial: topo_sort cases with a cycle answer; merge cases with a refused merge or a merge of non-adjacent groups (window re-sorted); union-find histories with >=2 effective unions."
        .into();
    ctx.assume("topo_sort is only called with distinct node ids and predecessors drawn from the node set (as all in-repo callers do)");
    ctx.assume("SubgraphMerge enemy pairs never contain the same node twice (documented assert)");
    ctx.floor = 500;
    ctx.extra.insert(
        "exhaustive_subspace".into(),
        vcommon::serde_json::json!("topo_sort: all 2^(n*n) digraphs for n<=4 x all n! hand-in orders x 2 predecessor orders; SubgraphMerge: all labelled DAGs n<=3 x all enemy sets x all 3-attempt sequences of ordered pairs, all 543 DAGs on 4 nodes x enemy sets of <=1 (thorough <=2) pairs x all 3-attempt sequences; SubgraphMerge::new on all cyclic digraphs n<=3"),
    );

    // --- topo_sort, exhaustive
    let mut cases: Vec<(usize, u32)> = vec![];
    for n in 0..=4usize {
        for mask in 0u32..(1u32 << (n * n)) {
            cases.push((n, mask));
        }
    }
    let perms: Vec<Vec<Vec<usize>>> = (0..=4).map(permutations).collect();
    ctx.check_all("toposort-exhaustive-le4", cases, |&(n, mask), obs| {
        let edges = mask_edges(n, mask);
        let mut cyc = false;
        for p in &perms[n] {
            for rev in [false, true] {
                cyc |= check_toposort(n, &edges, p, rev, |i| 10 + 3 * i as u32)?;
            }
        }
        obs.nontrivial(cyc);
        obs.class(if cyc { "toposort:cyclic" } else { "toposort:dag" });
        Ok(())
    });
    // --- topo_sort, random
    ctx.check("toposort-random-le12", if thorough { 60_000 } else { 6_000 }, rand_graph(12, 30), |g, obs| {
        let edges: Vec<(usize, usize)> = g.edges.iter().map(|&(a, b)| (a as usize, b as usize)).collect();
        let order = perm_from_keys(&g.perm);
        let cyc = check_toposort(g.n, &edges, &order, g.rev, |i| 1000 - 7 * i as u32)?;
        obs.nontrivial(cyc);
        obs.class(if cyc { "toposort:cyclic" } else { "toposort:dag" });
        Ok(())
    });

    // --- SubgraphMerge exhaustive (lazily enumerated: the thorough tier has ~2e7 cases)
    fn merge_space(
        n: usize,
        dags: Vec<Vec<(usize, usize)>>,
        esets: Vec<Vec<(usize, usize)>>,
        pr: Vec<(usize, usize)>,
        alternate: bool,
    ) -> impl Iterator<Item = MergeCase> {
        let k = pr.len();
        let total = dags.len() * esets.len() * k * k * k;
        (0..total).map(move |i| {
            let c = i % k;
            let b = (i / k) % k;
            let a = (i / (k * k)) % k;
            let e = (i / (k * k * k)) % esets.len();
            let d = i / (k * k * k * esets.len());
            let flip = |p: (usize, usize), j: usize| if alternate && (j + d + e) % 2 == 1 { (p.1, p.0) } else { p };
            MergeCase {
                n,
                edges: dags[d].clone(),
                enemies: esets[e].clone(),
                attempts: vec![flip(pr[a], 0), flip(pr[b], 1), flip(pr[c], 2)],
                key_perm: (0..n).collect(),
            }
        })
    }
    for n in 2..=3usize {
        let un = pairs(n, false);
        let esets: Vec<Vec<(usize, usize)>> = (0u32..(1 << un.len()))
            .map(|m| un.iter().enumerate().filter(|(i, _)| m & (1 << i) != 0).map(|(_, p)| *p).collect())
            .collect();
        ctx.check_all(&format!("merge-exhaustive-n{n}"), merge_space(n, all_dags(n), esets, pairs(n, true), false), |c, obs| run_merge_case(c, obs));
    }
    {
        let n = 4;
        let un = pairs(n, false);
        let mut esets: Vec<Vec<(usize, usize)>> = vec![vec![]];
        for i in 0..un.len() {
            esets.push(vec![un[i]]);
        }
        // quick tier: unordered pairs with alternating argument order; thorough: ordered pairs
        let pr = if thorough { pairs(n, true) } else { pairs(n, false) };
        ctx.check_all("merge-exhaustive-n4", merge_space(n, all_dags(n), esets, pr, !thorough), |c, obs| run_merge_case(c, obs));
        if thorough {
            // enemy sets of two pairs, unordered attempt pairs with alternating argument order
            let mut esets2: Vec<Vec<(usize, usize)>> = vec![];
            for i in 0..un.len() {
                for j in i + 1..un.len() {
                    esets2.push(vec![un[i], un[j]]);
                }
            }
            ctx.check_all("merge-exhaustive-n4-two-enemy-pairs", merge_space(n, all_dags(n), esets2, pairs(n, false), true), |c, obs| run_merge_case(c, obs));
        }
    }
    // cyclic inputs to SubgraphMerge::new
    let mut ccases = vec![];
    for n in 1..=3usize {
        for mask in 0u32..(1 << (n * n)) {
            let e = mask_edges(n, mask);
            if !acyclic(n, &e) {
                ccases.push(MergeCase { n, edges: e, enemies: vec![], attempts: vec![], key_perm: (0..n).collect() });
            }
        }
    }
    ctx.check_all("merge-new-cyclic-le3", ccases, |c, obs| run_merge_case(c, obs));
    // --- SubgraphMerge random
    ctx.check("merge-random-le10", if thorough { 40_000 } else { 4_000 }, merge_rand(10, 20), |c, obs| run_merge_case(c, obs));

    // --- UnionFind
    ctx.check("unionfind-histories", if thorough { 50_000 } else { 5_000 }, uf_ops(8, 30), |ops, obs| run_uf(8, ops, obs));
}
