//! C20: eliminate_extra_unions_tees, merge_modules and the JSON round trip of the partitioned meta
//! graph preserve the dataflow.

use std::collections::{BTreeMap, BTreeSet};

use dfir_lang::diagnostic::Diagnostics;
use dfir_lang::graph::{eliminate_extra_unions_tees, DfirGraph, GraphNode, PortIndexValue};
use dfir_lang::parse::IndexInt;
use serde::{Deserialize, Serialize};
use vcommon::{Fail, Obs};

use crate::gen::{self, Tape};
use crate::model::{snap, NKind, Snap};
use crate::pipeline::{self, Flat};

/// Canonical, id-free form of a graph whose nodes all carry a distinct variable name.
#[derive(Clone, Debug, PartialEq, Eq, Serialize)]
pub struct Canon {
    /// varname -> (kind, operator text, loop key, references, op-inst summary); a loop is
    /// identified by the names of the generator-made (`v..`) operators directly inside it and
    /// of its ancestors, because loop ids depend on statement order
    pub nodes: BTreeMap<String, (String, String, Option<String>, Vec<(String, bool, Option<u32>)>, String)>,
    /// multiset of (src, src port, dst, dst port)
    pub edges: BTreeMap<(String, String, String, String), usize>,
}

pub fn canon(s: &Snap) -> Result<Canon, String> {
    let mut key: BTreeMap<u64, String> = BTreeMap::new();
    let mut c = Canon { nodes: BTreeMap::new(), edges: BTreeMap::new() };
    for (id, n) in &s.nodes {
        let k = match &n.varname {
            Some(v) => v.clone(),
            None => format!("<anon {} {}>", n.name, n.text),
        };
        if key.values().any(|x| x == &k) {
            return Err(format!("two nodes share the name {k}"));
        }
        key.insert(*id, k);
    }
    // loop key: member names (existing `v..` nodes only: removed nodes linger in `loop_nodes`;
    // unions and tees are left out because elimination may remove them)
    let mut lkey: BTreeMap<u64, String> = BTreeMap::new();
    for (lid, l) in &s.loops {
        let mut m: Vec<&str> = l
            .nodes
            .iter()
            .filter(|n| s.nodes.get(*n).map(|x| x.name != "union" && x.name != "tee").unwrap_or(false))
            .filter_map(|n| key.get(n))
            .map(|k| k.as_str())
            .filter(|k| k.starts_with('v'))
            .collect();
        m.sort();
        lkey.insert(*lid, format!("depth{}:{}", s.loop_depth(Some(*lid)), m.join(",")));
    }
    for (id, n) in &s.nodes {
        let refs = n
            .refs
            .iter()
            .map(|r| (r.target.map(|t| key[&t].clone()).unwrap_or_default(), r.is_mut, r.group))
            .collect();
        let kind = match &n.kind {
            NKind::Op => "op".to_string(),
            NKind::Hoff(k) => format!("hoff:{k}"),
            NKind::ModB(i) => format!("modb:{i}"),
        };
        let oi = n
            .opinst
            .as_ref()
            .map(|o| format!("{}|{:?}|{:?}|{:?}|{:?}|{}", o.name, o.input_ports, o.output_ports, o.persistence, o.type_args, o.args))
            .unwrap_or_default();
        c.nodes.insert(key[id].clone(), (kind, n.text.clone(), n.lp.map(|l| lkey[&l].clone()), refs, oi));
    }
    for e in s.edges.values() {
        *c.edges
            .entry((key[&e.src].clone(), e.sport.clone(), key[&e.dst].clone(), e.dport.clone()))
            .or_default() += 1;
    }
    Ok(c)
}

/// Reference model of `eliminate_extra_unions_tees` on a canonical form: drop every union/tee with
/// exactly one input and one output, joining its edges (source port of the incoming edge,
/// destination port of the outgoing edge).
pub fn model_eliminate(c: &Canon) -> Canon {
    let mut c = c.clone();
    let unary: Vec<String> = c
        .nodes
        .iter()
        .filter(|(_, v)| v.0 == "op" && (v.4.starts_with("union|") || v.4.starts_with("tee|")))
        .map(|(k, _)| k.clone())
        .filter(|k| {
            let i: usize = c.edges.iter().filter(|(e, _)| &e.2 == k).map(|(_, n)| *n).sum();
            let o: usize = c.edges.iter().filter(|(e, _)| &e.0 == k).map(|(_, n)| *n).sum();
            i == 1 && o == 1
        })
        .collect();
    // the set is fixed up front (as in the implementation: candidates are collected first)
    for k in unary {
        let ie = c.edges.keys().find(|e| e.2 == k).cloned();
        let oe = c.edges.keys().find(|e| e.0 == k).cloned();
        let (Some(ie), Some(oe)) = (ie, oe) else { continue };
        if ie == oe {
            continue; // self loop through a unary op: cannot be spliced out
        }
        c.edges.remove(&ie);
        c.edges.remove(&oe);
        *c.edges.entry((ie.0.clone(), ie.1.clone(), oe.2.clone(), oe.3.clone())).or_default() += 1;
        c.nodes.remove(&k);
    }
    c
}

#[derive(Clone, Debug, Serialize, Deserialize)]
pub struct ElimCase {
    pub tape: Tape,
    pub splices: Vec<(u16, bool, u8)>,
}

fn diff(a: &Canon, b: &Canon) -> String {
    let mut out = String::new();
    for (k, v) in &a.nodes {
        match b.nodes.get(k) {
            None => out.push_str(&format!("  node {k} only on the left: {v:?}\n")),
            Some(w) if w != v => out.push_str(&format!("  node {k} differs:\n    {v:?}\n    {w:?}\n")),
            _ => {}
        }
    }
    for (k, v) in &b.nodes {
        if !a.nodes.contains_key(k) {
            out.push_str(&format!("  node {k} only on the right: {v:?}\n"));
        }
    }
    for (k, v) in &a.edges {
        if b.edges.get(k) != Some(v) {
            out.push_str(&format!("  edge {k:?} x{v} on the left, x{} on the right\n", b.edges.get(k).copied().unwrap_or(0)));
        }
    }
    for (k, v) in &b.edges {
        if !a.edges.contains_key(k) {
            out.push_str(&format!("  edge {k:?} x{v} only on the right\n"));
        }
    }
    out
}

pub fn run_elim(case: &ElimCase, obs: &mut Obs) -> Result<(), Fail> {
    let mut tape = case.tape.clone();
    tape.chain = false; // every node named
    let p0 = gen::decode(&tape);
    let p1 = gen::splice(&p0, &case.splices);
    let (t0, t1) = (gen::print(&p0), gen::print(&p1));
    let g0 = match pipeline::build_flat(&t0, None) {
        Flat::Ok { graph, .. } => graph,
        Flat::BuilderErr(e) => {
            obs.excluded(format!("builder:{}", pipeline::err_label(e.first().map(|s| s.as_str()).unwrap_or(""))));
            return Ok(());
        }
        Flat::ParseErr(e) => return Err(Fail::new("generator:unparsable-program", format!("{e}\n{t0}"))),
    };
    let g1 = match pipeline::build_flat(&t1, None) {
        Flat::Ok { graph, .. } => graph,
        Flat::BuilderErr(e) => {
            obs.excluded(format!("splice-builder:{}", pipeline::err_label(e.first().map(|s| s.as_str()).unwrap_or(""))));
            return Ok(());
        }
        Flat::ParseErr(e) => return Err(Fail::new("generator:unparsable-program", format!("{e}\n{t1}"))),
    };
    let (mut g0, mut g1) = (g0, g1);
    let c0 = canon(&snap(&g0)).map_err(|e| Fail::new("harness:canon", e))?;
    let c1 = canon(&snap(&g1)).map_err(|e| Fail::new("harness:canon", e))?;
    let (m0, m1) = (model_eliminate(&c0), model_eliminate(&c1));
    if m0 != m1 {
        // the harness' own splice/model pair must agree, otherwise the comparison is meaningless
        return Err(Fail::new("harness:model-splice-mismatch", format!("{}\n--- base\n{t0}\n--- spliced\n{t1}", diff(&m0, &m1))));
    }
    eliminate_extra_unions_tees(&mut g0);
    eliminate_extra_unions_tees(&mut g1);
    let (s0, s1) = (snap(&g0), snap(&g1));
    if !s0.adjacency_consistent() || !s1.adjacency_consistent() {
        return Err(Fail::new("eliminate:adjacency-lists-corrupted", format!("{t1}")));
    }
    let r0 = canon(&s0).map_err(|e| Fail::new("harness:canon", e))?;
    let r1 = canon(&s1).map_err(|e| Fail::new("harness:canon", e))?;
    if r0 != m0 {
        let untouched = c0 == m0;
        return Err(Fail::new(
            if untouched { "eliminate:changed-a-graph-without-unary-unions-tees" } else { "eliminate:result-differs-from-model" },
            format!("eliminate_extra_unions_tees(base) differs from the reference model:\n{}--- program\n{t0}", diff(&r0, &m0)),
        ));
    }
    if r1 != m1 {
        let ported = diff(&r1, &m1).contains("edge");
        return Err(Fail::new(
            if ported { "eliminate:spliced-graph-wiring-differs" } else { "eliminate:spliced-graph-nodes-differ" },
            format!("eliminate(splice(G)) != eliminate(G):\n{}--- spliced program\n{t1}", diff(&r1, &m1)),
        ));
    }
    // (b) the same kind of splice made through the public graph API, with integer indices on
    // the spliced node's own side of both edges
    if let Flat::Ok { graph: mut g2, .. } = pipeline::build_flat(&t0, None) {
        let mut n_api = 0;
        for (j, &(ec, is_tee, count)) in case.splices.iter().enumerate() {
            let ids: Vec<_> = g2.edge_ids().collect();
            if ids.is_empty() {
                break;
            }
            let ported: Vec<_> = ids
                .iter()
                .copied()
                .filter(|&e| {
                    let (a, b) = g2.edge_ports(e);
                    a.is_specified() || b.is_specified()
                })
                .collect();
            let eid = if (count / 16) % 2 == 0 && !ported.is_empty() { ported[ec as usize % ported.len()] } else { ids[ec as usize % ids.len()] };
            let (src, dst) = g2.edge(eid);
            let (sp, dp) = {
                let (a, b) = g2.edge_ports(eid);
                (a.clone(), b.clone())
            };
            let op: dfir_lang::parse::Operator = syn::parse_str(if is_tee { "tee()" } else { "union()" }).unwrap();
            let lp = g2.node_loop(src);
            let sn = g2.insert_node(GraphNode::Operator(op), Some(syn::Ident::new(&format!("a{j}"), proc_macro2::Span::call_site())), lp);
            let own = |k: u8| -> PortIndexValue {
                if (count / 2) % 4 == 0 {
                    PortIndexValue::Elided(None)
                } else {
                    PortIndexValue::Int(IndexInt { value: ((count / 8 + k) % 2) as isize, span: proc_macro2::Span::call_site() })
                }
            };
            g2.remove_edge(eid);
            g2.insert_edge(src, sp, sn, own(0));
            g2.insert_edge(sn, own(1), dst, dp);
            n_api += 1;
        }
        let mut d = Diagnostics::new();
        g2.insert_node_op_insts_all(&mut d);
        eliminate_extra_unions_tees(&mut g2);
        let s2 = snap(&g2);
        if !s2.adjacency_consistent() {
            return Err(Fail::new("eliminate:adjacency-lists-corrupted", t0.clone()));
        }
        let r2 = canon(&s2).map_err(|e| Fail::new("harness:canon", e))?;
        if r2 != m0 {
            return Err(Fail::new(
                if diff(&r2, &m0).contains("edge") { "eliminate:api-spliced-graph-wiring-differs" } else { "eliminate:api-spliced-graph-nodes-differ" },
                format!("eliminate(API-splice(G)) != eliminate(G) ({n_api} unary ops inserted with integer own-side indices, splices {:?}):\n{}--- program\n{t0}", case.splices, diff(&r2, &m0)),
            ));
        }
        obs.class("eliminate:api-splice-checked");
    }
    // non-trivial: a splice sits on a port-indexed edge
    let nb_ported = p1.edges.iter().any(|e| (p1.nodes[e.dst].spliced && !p1.nodes[e.src].spliced && e.sport.is_some()) || (p1.nodes[e.src].spliced && !p1.nodes[e.dst].spliced && e.dport.is_some()));
    let own_indexed = p1.edges.iter().any(|e| (p1.nodes[e.dst].spliced && e.dport.is_some()) || (p1.nodes[e.src].spliced && e.sport.is_some()));
    // the critical shape: the spliced node carries its own index on one side while the far end
    // of its other edge carries an explicit port (`src -> [0]u; u -> [1]join`, `unzip[1] -> t; t[0] -> ..`)
    let critical = (0..p1.nodes.len()).filter(|&i| p1.nodes[i].spliced).any(|i| {
        let own_in = p1.edges.iter().any(|e| e.dst == i && e.dport.is_some());
        let own_out = p1.edges.iter().any(|e| e.src == i && e.sport.is_some());
        let far_dst = p1.edges.iter().any(|e| e.src == i && e.dport.is_some());
        let far_src = p1.edges.iter().any(|e| e.dst == i && e.sport.is_some());
        (own_in && far_dst) || (own_out && far_src)
    });
    let ported = nb_ported;
    let n_spliced = p1.nodes.iter().filter(|n| n.spliced).count();
    obs.nontrivial(ported && n_spliced > 0);
    if ported {
        obs.class("eliminate:splice-next-to-port");
    }
    if own_indexed {
        obs.class("eliminate:own-index-on-spliced-node");
    }
    if critical {
        obs.class("eliminate:own-index-vs-explicit-far-port");
    }
    if c0 != m0 {
        obs.class("eliminate:natural-unary-op");
    }
    if n_spliced >= 2 {
        obs.class("eliminate:multi-splice");
    }
    Ok(())
}

// ------------------------------------------------------------------------------------------------
// merge_modules

#[derive(Clone, Debug, Serialize, Deserialize)]
pub struct ModCase {
    pub tape: Tape,
    /// (edge choice, port style, boundary index)
    pub cuts: Vec<(u16, u8, u8)>,
    pub mismatch: bool,
}

fn port_key(style: u8, i: usize) -> PortIndexValue {
    match style % 3 {
        0 => PortIndexValue::Path(syn::parse_str(&format!("m{i}")).unwrap()),
        1 => PortIndexValue::Int(IndexInt { value: i as isize, span: proc_macro2::Span::call_site() }),
        _ => PortIndexValue::Path(syn::parse_str(&format!("port_{i}")).unwrap()),
    }
}

pub fn run_modules(case: &ModCase, obs: &mut Obs) -> Result<(), Fail> {
    let mut tape = case.tape.clone();
    tape.chain = false;
    let p = gen::decode(&tape);
    let text = gen::print(&p);
    let build = || match pipeline::build_flat(&text, None) {
        Flat::Ok { graph, .. } => Some(graph),
        _ => None,
    };
    let (Some(ga), Some(mut gb)) = (build(), build()) else {
        obs.excluded("builder");
        return Ok(());
    };
    let sa = snap(&ga);
    let ca = canon(&sa).map_err(|e| Fail::new("harness:canon", e))?;
    if snap(&gb) != sa {
        return Err(Fail::new("harness:two-builds-differ", text));
    }
    // choose distinct edges
    let edge_ids: Vec<_> = gb.edge_ids().collect();
    if edge_ids.is_empty() {
        obs.excluded("no-edges");
        return Ok(());
    }
    let mut chosen = BTreeSet::new();
    let mut bounds: BTreeMap<u8, dfir_lang::graph::GraphNodeId> = BTreeMap::new();
    let mut per_bound: BTreeMap<u8, usize> = BTreeMap::new();
    let mut elided_used: BTreeSet<u8> = BTreeSet::new();
    let mut ported = false;
    let mut first = true;
    for &(ec, style, b) in &case.cuts {
        let ei = (ec as usize) % edge_ids.len();
        if !chosen.insert(ei) {
            continue;
        }
        let b = b % 2;
        let eid = edge_ids[ei];
        let (src, dst) = gb.edge(eid);
        let (sp, dp) = {
            let (a, b) = gb.edge_ports(eid);
            (a.clone(), b.clone())
        };
        ported |= sp.is_specified() || dp.is_specified();
        let m = *bounds.entry(b).or_insert_with(|| {
            gb.insert_node(
                GraphNode::ModuleBoundary { input: b == 0, import_expr: proc_macro2::Span::call_site() },
                None,
                None,
            )
        });
        let i = *per_bound.entry(b).and_modify(|x| *x += 1).or_insert(0);
        // at most one elided key per boundary (the "output boundary has elided ports" case)
        let key = if style % 4 == 3 && elided_used.insert(b) { PortIndexValue::Elided(None) } else { port_key(style, i) };
        let key2 = if case.mismatch && first { port_key(style, i + 100) } else { key.clone() };
        first = false;
        gb.remove_edge(eid);
        gb.insert_edge(src, sp, m, key);
        gb.insert_edge(m, key2, dst, dp);
    }
    if chosen.is_empty() {
        obs.excluded("no-cut");
        return Ok(());
    }
    let res = gb.merge_modules();
    if case.mismatch {
        obs.class("modules:mismatch");
        obs.nontrivial(true);
        return match res {
            Err(_) => Ok(()),
            Ok(()) => Err(Fail::new("modules:mismatched-ports-accepted", format!("cuts {:?}\n{text}", case.cuts))),
        };
    }
    if let Err(d) = res {
        return Err(Fail::new("modules:matching-ports-rejected", format!("{}\ncuts {:?}\n{text}", d.message, case.cuts)));
    }
    let sb = snap(&gb);
    if !sb.adjacency_consistent() {
        return Err(Fail::new("modules:adjacency-lists-corrupted", text));
    }
    let cb = canon(&sb).map_err(|e| Fail::new("harness:canon", e))?;
    if cb != ca {
        return Err(Fail::new("modules:merged-graph-differs", format!("{}cuts {:?}\n{text}", diff(&cb, &ca), case.cuts)));
    }
    obs.nontrivial(chosen.len() >= 2 || ported);
    if ported {
        obs.class("modules:cut-on-ported-edge");
    }
    if bounds.len() == 2 {
        obs.class("modules:two-boundaries");
    }
    Ok(())
}

// ------------------------------------------------------------------------------------------------
// JSON round trip

pub fn reload(json: &str) -> Result<(DfirGraph, usize), String> {
    let mut g: DfirGraph = serde_json::from_str(json).map_err(|e| e.to_string())?;
    let mut d = Diagnostics::new();
    g.insert_node_op_insts_all(&mut d);
    Ok((g, d.len()))
}

/// Blank the fields that `Operator`'s own token printing does not carry (the `#`/`#mut`/`#{n}`
/// markers of singleton references are stripped by `ToTokens` already before serialization).
fn mask_singletons(mut s: Snap) -> Snap {
    // the per-node adjacency lists are rebuilt from the edge list on deserialization, so their
    // order is representation, not wiring (as_code orders inputs by (port, edge id))
    for v in s.preds.values_mut() {
        v.sort();
    }
    for v in s.succs.values_mut() {
        v.sort();
    }
    for n in s.nodes.values_mut() {
        if let Some(o) = n.opinst.as_mut() {
            o.n_singletons = 0;
        }
    }
    s
}

pub fn run_json(tape: &Tape, obs: &mut Obs) -> Result<(), Fail> {
    let p = gen::decode(tape);
    let text = gen::print(&p);
    let g = match pipeline::full(&text, Some("t")) {
        pipeline::Full::Ok(g) => g,
        pipeline::Full::Excluded(e) => {
            obs.excluded(if e.starts_with("builder: ") { format!("builder:{}", pipeline::err_label(&e)) } else { e.chars().take(24).collect() });
            return Ok(());
        }
        pipeline::Full::Rejected(_) => {
            obs.excluded("rejected-by-partitioner");
            return Ok(());
        }
    };
    let s = snap(&g);
    let json = serde_json::to_string(&g).map_err(|e| Fail::new("json:serialize-failed", e.to_string()))?;
    let (g2, ndiag) = reload(&json).map_err(|e| Fail::new("json:deserialize-failed", format!("{e}\n{text}")))?;
    if ndiag != 0 {
        return Err(Fail::new("json:op-insts-rederived-with-diagnostics", format!("{ndiag} diagnostics\n{text}")));
    }
    let s2 = snap(&g2);
    let has_refs = s.nodes.values().any(|n| !n.refs.is_empty());
    let (ms, ms2) = (mask_singletons(s.clone()), mask_singletons(s2.clone()));
    if ms != ms2 {
        // find the first differing component for a stable signature
        let what = if ms.nodes.keys().ne(ms2.nodes.keys()) {
            "node-ids"
        } else if ms.edges != ms2.edges {
            "edges"
        } else if ms.subgraphs != ms2.subgraphs || ms.toposort != ms2.toposort {
            "subgraphs-or-order"
        } else if ms.loops != ms2.loops || ms.root_loops != ms2.root_loops {
            "loops"
        } else if ms.preds != ms2.preds || ms.succs != ms2.succs {
            "adjacency-sets"
        } else {
            let mut w = "node-attributes";
            for (k, a) in &ms.nodes {
                let b = &ms2.nodes[k];
                if a.delay != b.delay {
                    w = "handoff-delay-type";
                    break;
                }
                if a.refs != b.refs {
                    w = "references";
                    break;
                }
                if a.kind != b.kind || a.text != b.text {
                    w = "operator-text";
                    break;
                }
                if a.opinst != b.opinst {
                    w = "op-inst";
                    break;
                }
            }
            w
        };
        let detail = ms
            .nodes
            .iter()
            .filter(|(k, a)| ms2.nodes.get(*k) != Some(*a))
            .map(|(k, a)| format!("  {k}: {a:?}\n   vs {:?}", ms2.nodes.get(k)))
            .take(3)
            .collect::<Vec<_>>()
            .join("\n");
        return Err(Fail::new(format!("json:reloaded-graph-differs:{what}"), format!("{detail}\n{text}")));
    }
    let json2 = serde_json::to_string(&g2).unwrap();
    if json2 != json {
        return Err(Fail::new("json:reserialization-not-a-fixpoint", text));
    }
    if s.nodes.iter().any(|(k, a)| a.opinst.as_ref().map(|o| o.n_singletons) != s2.nodes[k].opinst.as_ref().map(|o| o.n_singletons)) {
        // only the singleton-marker count differs (see mask_singletons)
        obs.class("json:reload-drops-reference-markers");
    }
    if s.preds != s2.preds || s.succs != s2.succs {
        obs.class("json:adjacency-list-order-changed");
    }
    if !has_refs {
        match (pipeline::code(&g), pipeline::code(&g2)) {
            (Ok(a), Ok(b)) => {
                if a != b {
                    return Err(Fail::new("json:as_code-of-reloaded-graph-differs", text));
                }
                obs.class("json:as_code-compared");
            }
            (Err(_), Err(_)) => obs.class("json:as_code-errors-both"),
            (a, b) => {
                return Err(Fail::new(
                    "json:as_code-verdict-differs-after-reload",
                    format!("before {:?} after {:?}\n{text}", a.err(), b.err()),
                ))
            }
        }
    }
    let delayed = s.nodes.values().any(|n| n.delay.is_some());
    obs.nontrivial(delayed || has_refs);
    if delayed {
        obs.class("json:delayed-handoffs");
    }
    if has_refs {
        obs.class("json:references");
    }
    if !s.loops.is_empty() {
        obs.class("json:loops");
    }
    Ok(())
}
