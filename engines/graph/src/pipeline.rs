//! Drives dfir_lang as a library the way `dfir_macro` / `build_dfir_code` do:
//! parse -> FlatGraphBuilder -> merge_modules -> eliminate_extra_unions_tees -> (adjacent handoff
//! check) -> partition_graph -> as_code.

use dfir_lang::diagnostic::{Diagnostics, Level};
use dfir_lang::graph::{
    eliminate_extra_unions_tees, partition_graph, DfirGraph, FlatGraphBuilder, FlatGraphBuilderOutput, GraphNode,
};
use dfir_lang::parse::DfirCode;

pub enum Flat {
    ParseErr(String),
    BuilderErr(Vec<String>),
    Ok { graph: DfirGraph, warnings: Vec<String> },
}

/// parse + FlatGraphBuilder::build. `tag`: operator tag given to every operator (replaces the
/// span-derived location in generated identifiers).
pub fn build_flat(text: &str, tag: Option<&str>) -> Flat {
    let code: DfirCode = match syn::parse_str(text) {
        Ok(c) => c,
        Err(e) => return Flat::ParseErr(e.to_string()),
    };
    let mut b = FlatGraphBuilder::new();
    b.add_dfir(code, None, tag);
    match b.build() {
        Ok(FlatGraphBuilderOutput { flat_graph, diagnostics, .. }) => Flat::Ok {
            graph: flat_graph,
            warnings: diagnostics.iter().map(|d| d.message.clone()).collect(),
        },
        Err(d) => Flat::BuilderErr(
            d.iter()
                .filter(|d| d.level == Level::Error)
                .map(|d| d.message.clone())
                .collect(),
        ),
    }
}

pub fn has_adjacent_handoffs(g: &DfirGraph) -> bool {
    g.edges().any(|(_, (s, d))| {
        matches!(g.node(s), GraphNode::Handoff { .. }) && matches!(g.node(d), GraphNode::Handoff { .. })
    })
}

pub enum Prep {
    MergeErr(String),
    AdjacentHandoffs,
    Ok(DfirGraph),
}

/// merge_modules + eliminate_extra_unions_tees + the adjacent-handoff rejection of
/// `build_dfir_code`.
pub fn prepare(mut g: DfirGraph) -> Prep {
    if let Err(d) = g.merge_modules() {
        return Prep::MergeErr(d.message);
    }
    eliminate_extra_unions_tees(&mut g);
    if has_adjacent_handoffs(&g) {
        return Prep::AdjacentHandoffs;
    }
    Prep::Ok(g)
}

pub enum Part {
    Ok(DfirGraph),
    Err { flat: Box<DfirGraph>, message: String },
}

pub fn partition(g: DfirGraph) -> Part {
    match partition_graph(g) {
        Ok(p) => Part::Ok(p),
        Err(e) => Part::Err { message: e.diagnostic.message.clone(), flat: e.flat_graph },
    }
}

pub fn root() -> proc_macro2::TokenStream {
    quote::quote! { ::dfir_rs }
}

/// `as_code` token text, or the error messages.
pub fn code(p: &DfirGraph) -> Result<String, Vec<String>> {
    let mut d = Diagnostics::new();
    match p.as_code(&root(), true, quote::quote! {}, &mut d) {
        Ok(ts) => Ok(ts.to_string()),
        Err(ds) => Err(ds.iter().map(|d| d.message.clone()).collect()),
    }
}

/// Full pipeline up to the partitioned graph; Err(reason) for anything rejected on the way.
pub enum Full {
    Excluded(String),
    Rejected(String),
    Ok(DfirGraph),
}

pub fn full(text: &str, tag: Option<&str>) -> Full {
    let g = match build_flat(text, tag) {
        Flat::ParseErr(e) => return Full::Excluded(format!("parse: {e}")),
        Flat::BuilderErr(e) => return Full::Excluded(format!("builder: {}", e.first().cloned().unwrap_or_default())),
        Flat::Ok { graph, .. } => graph,
    };
    let g = match prepare(g) {
        Prep::MergeErr(e) => return Full::Excluded(format!("merge: {e}")),
        Prep::AdjacentHandoffs => return Full::Excluded("adjacent-handoffs".into()),
        Prep::Ok(g) => g,
    };
    match partition(g) {
        Part::Ok(p) => Full::Ok(p),
        Part::Err { message, .. } => Full::Rejected(message),
    }
}

/// Classify a builder error message into a short stable label (for the exclusion histogram).
pub fn err_label(msg: &str) -> String {
    let m = msg;
    let key = if m.contains("illegal cycle within a `loop") {
        "loop-internal-cycle"
    } else if m.contains("must have") || m.contains("should have") {
        "arity"
    } else if m.contains("windowing operator") || m.contains("Windowing operator") {
        "windowing"
    } else if m.contains("Un-windowing") || m.contains("un-windowing") {
        "unwindowing"
    } else if m.contains("cross multiple loop") {
        "multi-loop-edge"
    } else if m.contains("Mutable singleton references") {
        "mut-ref-group"
    } else if m.contains("explicit group") {
        "mixed-groups"
    } else if m.contains("Cannot reference operator") {
        "ref-non-handoff"
    } else if m.contains("Source operator") {
        "source-in-loop"
    } else if m.contains("port") {
        "ports"
    } else if m.contains("self-referential") {
        "name-cycle"
    } else {
        "other"
    };
    key.to_string()
}
