//! C19: independent same-tick dependency digraph of a *flat* graph and the cycle oracle.

use std::collections::{BTreeMap, BTreeSet};

use crate::model::{has_cycle, Snap};

#[derive(Clone, Copy, Debug, PartialEq, Eq, PartialOrd, Ord)]
pub enum DepKind {
    Pipe,
    RefProducer,
    RefBeforeConsumer,
    GroupOrder,
    LoopIngress,
}

pub struct Deps {
    pub nodes: BTreeSet<u64>,
    pub edges: BTreeMap<(u64, u64), BTreeSet<DepKind>>,
    /// pipe edges including the delayed ones (for the "delayed cycle" non-trivial rule)
    pub all_pipe: Vec<(u64, u64)>,
    pub self_group_conflict: bool,
}

/// Build the dependency digraph from the property text:
/// * pipe edges whose destination input declares no delay,
/// * referenced handoff -> reference holder (so transitively producer -> holder),
/// * reference holder -> pipe consumer of the referenced handoff,
/// * holders of access group g -> holders of the next access group of the same target,
/// * loop ingress: for a same-tick edge src -> dst entering loop L from outside, src precedes
///   every node directly inside L (documented at `find_subgraph_unionfind`, issue 3048).
pub fn deps(f: &Snap) -> Deps {
    let mut d = Deps {
        nodes: f.nodes.keys().copied().collect(),
        edges: BTreeMap::new(),
        all_pipe: vec![],
        self_group_conflict: false,
    };
    let mut add = |d: &mut Deps, a: u64, b: u64, k: DepKind| {
        d.edges.entry((a, b)).or_default().insert(k);
    };
    for e in f.edges.values() {
        d.all_pipe.push((e.src, e.dst));
        if e.dst_delay.is_some() {
            continue;
        }
        add(&mut d, e.src, e.dst, DepKind::Pipe);
        if let Some(l) = f.nodes[&e.dst].lp {
            if !f.loop_within(f.nodes[&e.src].lp, l) {
                for m in &f.loops[&l].nodes {
                    if !f.nodes.contains_key(m) {
                        continue; // ids of eliminated unary unions/tees linger in loop_nodes
                    }
                    add(&mut d, e.src, *m, DepKind::LoopIngress);
                }
            }
        }
    }
    let mut by_target: BTreeMap<u64, BTreeMap<Option<u32>, Vec<u64>>> = BTreeMap::new();
    for (id, n) in &f.nodes {
        for r in &n.refs {
            let Some(t) = r.target else { continue };
            add(&mut d, t, *id, DepKind::RefProducer);
            for se in f.succ_edges(t) {
                add(&mut d, *id, se.dst, DepKind::RefBeforeConsumer);
            }
            by_target.entry(t).or_default().entry(r.group).or_default().push(*id);
        }
    }
    for groups in by_target.values() {
        let gs: Vec<&Vec<u64>> = groups.values().collect();
        for w in gs.windows(2) {
            for &a in w[0] {
                for &b in w[1] {
                    if a == b {
                        d.self_group_conflict = true;
                    }
                    add(&mut d, a, b, DepKind::GroupOrder);
                }
            }
        }
    }
    d
}

impl Deps {
    pub fn cyclic(&self) -> bool {
        let es: Vec<(u64, u64)> = self.edges.keys().copied().collect();
        has_cycle(&self.nodes, &es)
    }
    pub fn delayed_cycle(&self) -> bool {
        has_cycle(&self.nodes, &self.all_pipe)
    }
}

/// Parse the `Cycle: ["a", "b"]` tail of the partitioner's diagnostic (a `{:?}` of `Vec<String>`).
pub fn parse_cycle(msg: &str) -> Option<Vec<String>> {
    let i = msg.find("Cycle: [")?;
    let s = &msg[i + "Cycle: [".len()..];
    let mut out = vec![];
    let mut chars = s.chars().peekable();
    loop {
        // skip separators
        while matches!(chars.peek(), Some(' ') | Some(',')) {
            chars.next();
        }
        match chars.next()? {
            ']' => return Some(out),
            '"' => {
                let mut cur = String::new();
                loop {
                    match chars.next()? {
                        '"' => break,
                        '\\' => match chars.next()? {
                            'n' => cur.push('\n'),
                            't' => cur.push('\t'),
                            'r' => cur.push('\r'),
                            '0' => cur.push('\0'),
                            '\\' => cur.push('\\'),
                            '"' => cur.push('"'),
                            '\'' => cur.push('\''),
                            'u' => {
                                // \u{XXXX}
                                if chars.next()? != '{' {
                                    return None;
                                }
                                let mut hex = String::new();
                                loop {
                                    let c = chars.next()?;
                                    if c == '}' {
                                        break;
                                    }
                                    hex.push(c);
                                }
                                cur.push(char::from_u32(u32::from_str_radix(&hex, 16).ok()?)?);
                            }
                            _ => return None,
                        },
                        c => cur.push(c),
                    }
                }
                out.push(cur);
            }
            _ => return None,
        }
    }
}

/// Is there an assignment of distinct graph nodes to the reported labels that forms a closed walk
/// of the dependency digraph (each consecutive pair and last -> first an edge)? Returns the kinds
/// of dependency used by one such assignment.
pub fn cycle_is_real(f: &Snap, d: &Deps, labels: &[String]) -> Option<Vec<BTreeSet<DepKind>>> {
    if labels.is_empty() {
        return None;
    }
    let cands: Vec<Vec<u64>> = labels
        .iter()
        .map(|l| f.nodes.values().filter(|n| &n.pretty == l).map(|n| n.id).collect())
        .collect();
    if cands.iter().any(|c| c.is_empty()) {
        return None;
    }
    fn rec(
        d: &Deps,
        cands: &[Vec<u64>],
        chosen: &mut Vec<u64>,
        budget: &mut u64,
    ) -> bool {
        if *budget == 0 {
            return false;
        }
        *budget -= 1;
        let i = chosen.len();
        if i == cands.len() {
            return d.edges.contains_key(&(chosen[i - 1], chosen[0]));
        }
        for &c in &cands[i] {
            if chosen.contains(&c) {
                continue;
            }
            if i > 0 && !d.edges.contains_key(&(chosen[i - 1], c)) {
                continue;
            }
            chosen.push(c);
            if rec(d, cands, chosen, budget) {
                return true;
            }
            chosen.pop();
        }
        false
    }
    let mut chosen = vec![];
    let mut budget = 2_000_000u64;
    if rec(d, &cands, &mut chosen, &mut budget) {
        let n = chosen.len();
        Some((0..n).map(|i| d.edges[&(chosen[i], chosen[(i + 1) % n])].clone()).collect())
    } else {
        None
    }
}
