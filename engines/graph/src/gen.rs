//! Random DFIR program generator (DESIGN §3.3, graph level only: rustc never sees these programs).
//!
//! A case is a `Tape` of raw numbers; `decode` interprets it into a well-formed `Prog` (explicit
//! IR: operators, loop contexts, edges with ports, references) and `print` renders the surface
//! syntax text. Shrinking the tape (dropping raw nodes, lowering numbers) always decodes to
//! another well-formed program, which is what makes proptest shrinking usable here.

use serde::{Deserialize, Serialize};
use vcommon::proptest::prelude::*;

#[derive(Clone, Debug, Serialize, Deserialize, PartialEq, Eq, Hash)]
pub struct RawNode {
    pub op: u16,
    pub ctx: u8,
    pub a: u16,
    pub b: u16,
    pub c: u16,
}

/// How often cycles are closed without a delay.
#[derive(Clone, Copy, Debug, Serialize, Deserialize, PartialEq, Eq, Hash)]
pub enum Profile {
    /// Back edges are (almost) always closed through `defer_tick`/`defer_tick_lazy`.
    Accept,
    /// Cycle injector: back edges closed by plain edges / references / group orders as well.
    Mixed,
}

#[derive(Clone, Debug, Serialize, Deserialize, PartialEq, Eq, Hash)]
pub struct Tape {
    pub profile: Profile,
    pub nodes: Vec<RawNode>,
    /// statement order selector (0 = declaration order)
    pub order: u16,
    /// print maximal linear runs as anonymous inline pipelines
    pub chain: bool,
}

#[derive(Clone, Debug, Serialize, Deserialize, PartialEq, Eq)]
pub struct PRef {
    pub target: usize,
    pub is_mut: bool,
    pub group: Option<u32>,
}

#[derive(Clone, Debug, Serialize, Deserialize, PartialEq, Eq)]
pub struct PNode {
    pub op: String,
    pub text: String,
    pub ctx: Option<usize>,
    pub refs: Vec<PRef>,
    pub hoff: bool,
    /// a spliced unary union/tee (C20)
    pub spliced: bool,
}

#[derive(Clone, Debug, Serialize, Deserialize, PartialEq, Eq)]
pub struct PEdge {
    pub src: usize,
    pub sport: Option<String>,
    pub dst: usize,
    pub dport: Option<String>,
}

#[derive(Clone, Debug, Serialize, Deserialize, PartialEq, Eq, Default)]
pub struct Prog {
    /// parent of each loop context
    pub loops: Vec<Option<usize>>,
    pub nodes: Vec<PNode>,
    pub edges: Vec<PEdge>,
    pub order: u16,
    pub chain: bool,
}

impl Prog {
    pub fn name(&self, i: usize) -> String {
        if self.nodes[i].spliced {
            format!("s{i}")
        } else {
            format!("v{i}")
        }
    }
    pub fn depth(&self, ctx: Option<usize>) -> usize {
        let mut d = 0;
        let mut c = ctx;
        while let Some(l) = c {
            d += 1;
            c = self.loops[l];
        }
        d
    }
    pub fn in_deg(&self, n: usize) -> usize {
        self.edges.iter().filter(|e| e.dst == n).count()
    }
    pub fn out_deg(&self, n: usize) -> usize {
        self.edges.iter().filter(|e| e.src == n).count()
    }
    pub fn features(&self) -> Features {
        let mut f = Features::default();
        f.ops = self.nodes.len();
        f.loops = self.loops.len();
        f.nested = self.loops.iter().any(|p| p.is_some());
        for n in &self.nodes {
            f.refs += n.refs.len();
            if n.refs.iter().any(|r| r.group.is_some()) {
                f.grouped = true;
            }
            if n.refs.iter().any(|r| r.is_mut) {
                f.mut_refs = true;
            }
            if n.op == "defer_tick" || n.op == "defer_tick_lazy" {
                f.defers += 1;
            }
            if n.hoff {
                f.hoffs += 1;
            }
            if n.op == "tee" {
                f.tees += 1;
            }
            if n.op == "union" {
                f.unions += 1;
            }
        }
        let mut targets: Vec<usize> = self
            .nodes
            .iter()
            .flat_map(|n| n.refs.iter().map(|r| r.target))
            .collect();
        targets.sort();
        targets.dedup();
        f.ref_targets = targets.len();
        f
    }
}

#[derive(Clone, Debug, Default)]
pub struct Features {
    pub ops: usize,
    pub loops: usize,
    pub nested: bool,
    pub refs: usize,
    pub ref_targets: usize,
    pub grouped: bool,
    pub mut_refs: bool,
    pub defers: usize,
    pub hoffs: usize,
    pub tees: usize,
    pub unions: usize,
}

// ---------------------------------------------------------------------------------------------
// catalogue

#[derive(Clone, Copy, Debug, PartialEq, Eq)]
enum K {
    // 1 -> 1
    Map,
    Filter,
    FilterMap,
    FlatMap,
    Flatten,
    Inspect,
    Identity,
    Enumerate,
    Sort,
    SortByKey,
    Unique,
    Persist,
    MultisetDelta,
    Fold,
    FoldNoReplay,
    Reduce,
    ReduceNoReplay,
    FoldKeyed,
    ReduceKeyed,
    Scan,
    LatticeFold,
    LatticeReduce,
    DeferTick,
    DeferTickLazy,
    Assert,
    AssertEq,
    NullPass,
    // sinks
    ForEach,
    DestSink,
    NullSink,
    // 2 -> 1
    Join,
    JoinMultiset,
    JoinFused,
    JoinFusedLhs,
    JoinFusedRhs,
    JoinMultisetHalf,
    CrossJoin,
    CrossJoinMultiset,
    CrossSingleton,
    AntiJoin,
    Difference,
    Zip,
    ZipLongest,
    Chain,
    ChainFirstN,
    DeferSignal,
    // n-ary
    Union,
    Tee,
    // 1 -> 2+
    Unzip,
    State,
    StateBy,
    PartitionNamed,
    PartitionIdx,
    DemuxEnum,
    // handoffs
    Handoff,
    Singleton,
    Optional,
    // reference holders
    RefMap,
    RefFilter,
    RefInspect,
    RefForEach,
    IterRef,
    RefTwoGroups,
    // cycles
    CycleOpen,
    CycleClose,
    // extra source
    Source,
    // unary union / tee written by the user (what eliminate_extra_unions_tees removes)
    UnaryUnion,
    UnaryTee,
    // resolve_futures family (the two `_blocking` forms are hard-wired to the push colour)
    ResolveFutures,
    ResolveFuturesBlocking,
}

const TABLE: &[(K, u32)] = &[
    (K::Map, 10),
    (K::Filter, 5),
    (K::Union, 9),
    (K::Tee, 8),
    (K::Join, 5),
    (K::Fold, 4),
    (K::DeferTick, 4),
    (K::CycleOpen, 7),
    (K::CycleClose, 7),
    (K::Singleton, 5),
    (K::Handoff, 4),
    (K::RefMap, 7),
    (K::RefFilter, 3),
    (K::AntiJoin, 3),
    (K::Difference, 2),
    (K::FilterMap, 2),
    (K::FlatMap, 2),
    (K::Flatten, 1),
    (K::Inspect, 2),
    (K::Identity, 2),
    (K::Enumerate, 1),
    (K::Sort, 2),
    (K::SortByKey, 1),
    (K::Unique, 2),
    (K::Persist, 2),
    (K::MultisetDelta, 1),
    (K::FoldNoReplay, 1),
    (K::Reduce, 2),
    (K::ReduceNoReplay, 1),
    (K::FoldKeyed, 2),
    (K::ReduceKeyed, 1),
    (K::Scan, 1),
    (K::LatticeFold, 1),
    (K::LatticeReduce, 1),
    (K::DeferTickLazy, 3),
    (K::Assert, 1),
    (K::AssertEq, 1),
    (K::NullPass, 1),
    (K::ForEach, 3),
    (K::DestSink, 1),
    (K::NullSink, 1),
    (K::JoinMultiset, 1),
    (K::JoinFused, 1),
    (K::JoinFusedLhs, 1),
    (K::JoinFusedRhs, 1),
    (K::JoinMultisetHalf, 1),
    (K::CrossJoin, 2),
    (K::CrossJoinMultiset, 1),
    (K::CrossSingleton, 2),
    (K::Zip, 1),
    (K::ZipLongest, 1),
    (K::Chain, 1),
    (K::ChainFirstN, 1),
    (K::DeferSignal, 1),
    (K::Unzip, 2),
    (K::State, 1),
    (K::StateBy, 1),
    (K::PartitionNamed, 1),
    (K::PartitionIdx, 1),
    (K::DemuxEnum, 1),
    (K::Optional, 2),
    (K::RefInspect, 2),
    (K::RefForEach, 2),
    (K::IterRef, 2),
    (K::RefTwoGroups, 1),
    (K::Source, 2),
    (K::UnaryUnion, 2),
    (K::UnaryTee, 2),
    (K::ResolveFutures, 1),
    (K::ResolveFuturesBlocking, 2),
];

fn pick_kind(x: u16) -> K {
    let total: u32 = TABLE.iter().map(|t| t.1).sum();
    let mut r = (x as u32) % total;
    for &(k, w) in TABLE {
        if r < w {
            return k;
        }
        r -= w;
    }
    K::Map
}

fn pers(choice: u16, max: usize) -> String {
    // 0 .. max lifetime arguments out of {'tick, 'static}
    let n = (choice as usize) % (max + 1);
    if n == 0 {
        return String::new();
    }
    let mut parts = vec![];
    let mut c = choice / 3;
    for _ in 0..n {
        parts.push(if c % 2 == 0 { "'tick" } else { "'static" });
        c /= 2;
    }
    format!("::<{}>", parts.join(", "))
}

// ---------------------------------------------------------------------------------------------
// decoder

struct Pending {
    dst: usize,
    ctx: Option<usize>,
}

#[derive(Clone, Debug, Default)]
struct RefState {
    grouped: Option<bool>,
    /// group -> (count, has_mut)
    groups: std::collections::BTreeMap<Option<u32>, (usize, bool)>,
}

struct Dec {
    p: Prog,
    open: Vec<(usize, Option<String>)>,
    pend: Vec<Pending>,
    lit: u32,
    cur: Option<usize>,
    profile: Profile,
    refstate: std::collections::BTreeMap<usize, RefState>,
    max_depth: usize,
    /// nodes whose descendants must not be offered as input streams (set around one `take`)
    avoid: Vec<usize>,
}

#[derive(Clone, Copy)]
enum Cand {
    Same(usize),
    Ingress(usize),
    Egress(usize),
    New,
}

impl Dec {
    fn lit(&mut self) -> u32 {
        self.lit += 1;
        1000 + self.lit
    }
    fn node(&mut self, op: &str, text: String, ctx: Option<usize>) -> usize {
        self.p.nodes.push(PNode {
            op: op.to_string(),
            text,
            ctx,
            refs: vec![],
            hoff: matches!(op, "handoff" | "singleton" | "optional"),
            spliced: false,
        });
        self.p.nodes.len() - 1
    }
    fn edge(&mut self, s: (usize, Option<String>), dst: usize, dport: Option<&str>) {
        self.p.edges.push(PEdge {
            src: s.0,
            sport: s.1,
            dst,
            dport: dport.map(|s| s.to_string()),
        });
    }
    fn reach_from(&self, from: usize) -> Vec<bool> {
        let n = self.p.nodes.len();
        let mut seen = vec![false; n];
        let mut st = vec![from];
        seen[from] = true;
        while let Some(x) = st.pop() {
            for e in &self.p.edges {
                if e.src == x && !seen[e.dst] {
                    seen[e.dst] = true;
                    st.push(e.dst);
                }
            }
        }
        seen
    }
    fn new_source(&mut self, choice: u16) -> usize {
        let l = self.lit();
        let text = match choice % 4 {
            0 => format!("source_iter([{l}])"),
            1 => format!("source_iter(0..{l})"),
            2 => format!("source_stream(rx_{l})"),
            _ => format!("source_iter(vec![{l}, {l}])"),
        };
        let op = if choice % 4 == 2 { "source_stream" } else { "source_iter" };
        self.node(op, text, None)
    }

    /// Take an unconsumed output usable in loop context `ctx` (creating batch/all_iterations/
    /// source nodes as needed).
    fn take(
        &mut self,
        ctx: Option<usize>,
        choice: u16,
        avoid_hoff: bool,
        prefer_reach: Option<usize>,
    ) -> (usize, Option<String>) {
        let mut cands: Vec<(Cand, u32, usize)> = vec![];
        let parent = ctx.and_then(|l| self.p.loops[l]);
        for (i, (n, _)) in self.open.iter().enumerate() {
            let nctx = self.p.nodes[*n].ctx;
            let h = self.p.nodes[*n].hoff;
            if nctx == ctx {
                if !(avoid_hoff && h) {
                    cands.push((Cand::Same(i), 4, *n));
                }
            } else if ctx.is_some() && nctx == parent {
                cands.push((Cand::Ingress(i), 2, *n));
            } else if let Some(c) = nctx {
                if self.p.loops[c] == ctx {
                    cands.push((Cand::Egress(i), 3, *n));
                }
            }
        }
        // Re-entering a loop with data that (transitively) came out of that same loop is a
        // same-tick cycle through the loop boundary; the accepting profile avoids it, the cycle
        // injector keeps it as one of its cycle classes.
        if let Some(l) = ctx {
            let strict = self.profile == Profile::Accept || choice % 5 != 0;
            if strict {
                let members: Vec<usize> = (0..self.p.nodes.len()).filter(|&i| self.p.nodes[i].ctx == Some(l)).collect();
                let mut bad = vec![false; self.p.nodes.len()];
                for m in members {
                    for (i, b) in self.reach_from(m).into_iter().enumerate() {
                        bad[i] |= b;
                    }
                }
                cands.retain(|c| !matches!(c.0, Cand::Ingress(_)) || !bad[c.2]);
            }
        }
        if !self.avoid.is_empty() {
            let mut bad = vec![false; self.p.nodes.len()];
            for &m in &self.avoid.clone() {
                for (i, b) in self.reach_from(m).into_iter().enumerate() {
                    bad[i] |= b;
                }
            }
            cands.retain(|c| !bad[c.2]);
        }
        if let Some(u) = prefer_reach {
            let r = self.reach_from(u);
            let f: Vec<_> = cands.iter().copied().filter(|c| r[c.2]).collect();
            if !f.is_empty() {
                cands = f;
            }
        }
        cands.push((Cand::New, 1, usize::MAX));
        let total: u32 = cands.iter().map(|c| c.1).sum();
        let mut r = (choice as u32) % total;
        let mut pick = Cand::New;
        for c in &cands {
            if r < c.1 {
                pick = c.0;
                break;
            }
            r -= c.1;
        }
        match pick {
            Cand::Same(i) => {
                let s = self.open.remove(i);
                // optional fan-out through a tee
                if (choice / 89) % 6 == 0 && !self.p.nodes[s.0].hoff {
                    let sctx = self.p.nodes[s.0].ctx;
                    let t = self.node("tee", "tee()".into(), sctx);
                    self.edge(s, t, None);
                    self.open.push((t, None));
                    if (choice / 7) % 3 == 0 {
                        self.open.push((t, None));
                    }
                    (t, None)
                } else {
                    s
                }
            }
            Cand::Ingress(i) => {
                let s = self.open.remove(i);
                let (op, text) = if (choice / 13) % 4 == 0 {
                    ("batch_lazy", "batch_lazy()")
                } else {
                    ("batch", "batch()")
                };
                let b = self.node(op, text.into(), ctx);
                self.edge(s, b, None);
                (b, None)
            }
            Cand::Egress(i) => {
                let s = self.open.remove(i);
                let a = self.node("all_iterations", "all_iterations()".into(), ctx);
                self.edge(s, a, None);
                (a, None)
            }
            Cand::New => match ctx {
                None => (self.new_source(choice / 5), None),
                Some(l) => {
                    let strict = self.profile == Profile::Accept || choice % 5 != 0;
                    let saved = self.avoid.clone();
                    if strict {
                        // the new ingress must not carry data that came out of this loop
                        let members: Vec<usize> =
                            (0..self.p.nodes.len()).filter(|&i| self.p.nodes[i].ctx == Some(l)).collect();
                        self.avoid.extend(members);
                    }
                    let s = self.take(parent, choice / 3, false, None);
                    self.avoid = saved;
                    let b = self.node("batch", "batch()".into(), ctx);
                    self.edge(s, b, None);
                    (b, None)
                }
            },
        }
    }

    fn pick_ctx(&mut self, c: u8) -> Option<usize> {
        let c = c as usize;
        match c % 16 {
            0..=8 => self.cur,
            9 => None,
            10 | 11 => {
                // an existing loop
                if self.p.loops.is_empty() {
                    self.cur
                } else {
                    Some((c / 16) % self.p.loops.len())
                }
            }
            12 | 13 => {
                // new child loop of the current context
                if self.p.depth(self.cur) < self.max_depth && self.p.loops.len() < 6 {
                    self.p.loops.push(self.cur);
                    Some(self.p.loops.len() - 1)
                } else {
                    self.cur
                }
            }
            14 => {
                if self.p.loops.len() < 6 {
                    self.p.loops.push(None);
                    Some(self.p.loops.len() - 1)
                } else {
                    self.cur
                }
            }
            _ => self.cur.and_then(|l| self.p.loops[l]),
        }
    }

    /// Choose (or create) a reference target and a legal reference form for it.
    fn make_ref(&mut self, ctx: Option<usize>, choice: u16, forbid_self_group: Option<u32>) -> (usize, String, PRef) {
        let hoffs: Vec<usize> = (0..self.p.nodes.len()).filter(|&i| self.p.nodes[i].hoff).collect();
        let target = if hoffs.is_empty() || choice % 5 == 0 {
            // create a fresh target in some context (mostly root or the holder's)
            let tctx = if choice % 3 == 0 { None } else { ctx };
            let s = self.take(tctx, choice / 11, true, None);
            let (op, text) = match (choice / 5) % 4 {
                0 => ("handoff", "handoff()"),
                1 => ("optional", "optional()"),
                _ => ("singleton", "singleton()"),
            };
            let h = self.node(op, text.into(), tctx);
            self.edge(s, h, None);
            if (choice / 2) % 3 == 0 {
                self.open.push((h, None));
            }
            h
        } else {
            hoffs[(choice as usize / 5) % hoffs.len()]
        };
        let st = self.refstate.entry(target).or_default();
        let want_mut = (choice / 17) % 4 == 0;
        let want_grouped = match st.grouped {
            Some(g) => g,
            None => (choice / 19) % 2 == 0,
        };
        let (group, is_mut) = if want_grouped {
            let mut g = Some(((choice / 23) % 4) as u32);
            if g == forbid_self_group {
                g = Some(((choice / 23) % 4) as u32 + 1);
            }
            // find a group that can take this reference
            let mut tries = 0;
            loop {
                let e = st.groups.get(&g).copied().unwrap_or((0, false));
                if e.1 {
                    g = Some(g.unwrap() + 4);
                    tries += 1;
                    if tries > 8 {
                        break;
                    }
                    continue;
                }
                break;
            }
            let e = st.groups.get(&g).copied().unwrap_or((0, false));
            (g, want_mut && e.0 == 0)
        } else {
            let e = st.groups.get(&None).copied().unwrap_or((0, false));
            if e.1 {
                // an ungrouped `#mut` must stay alone: switch this target to a fresh one next time;
                // here fall back to a grouped scheme is illegal, so read through a new target
                (None, false)
            } else {
                (None, want_mut && e.0 == 0)
            }
        };
        // ungrouped mut already present -> we cannot add any reference: mark and let caller cope
        let blocked = !want_grouped && st.groups.get(&None).map(|e| e.1).unwrap_or(false);
        if !blocked {
            st.grouped = Some(want_grouped);
            let e = st.groups.entry(group).or_insert((0, false));
            e.0 += 1;
            e.1 |= is_mut;
        }
        let name = format!("v{target}");
        let tok = match (group, is_mut) {
            (None, false) => format!("#{name}"),
            (None, true) => format!("#mut {name}"),
            (Some(g), false) => format!("#{{{g}}} {name}"),
            (Some(g), true) => format!("#{{{g}}} mut {name}"),
        };
        if blocked {
            // produce no reference at all (plain literal instead)
            return (usize::MAX, "0".to_string(), PRef { target, is_mut: false, group: None });
        }
        (target, tok, PRef { target, is_mut, group })
    }

    fn step(&mut self, r: &RawNode) {
        if self.p.nodes.len() >= 40 {
            return;
        }
        let kind = pick_kind(r.op);
        let mut ctx = self.pick_ctx(r.ctx);
        let pa = r.a;
        let pb = r.b;
        let pc = r.c;
        macro_rules! unary {
            ($op:expr, $text:expr, $outs:expr) => {{
                let s = self.take(ctx, pa, false, None);
                let t: String = $text;
                let n = self.node($op, t, ctx);
                self.edge(s, n, None);
                if $outs {
                    self.open.push((n, None));
                }
                n
            }};
        }
        macro_rules! binary {
            ($op:expr, $text:expr, $p0:expr, $p1:expr) => {{
                let s0 = self.take(ctx, pa, false, None);
                let s1 = self.take(ctx, pb, false, None);
                let t: String = $text;
                let n = self.node($op, t, ctx);
                self.edge(s0, n, $p0);
                self.edge(s1, n, $p1);
                self.open.push((n, None));
                n
            }};
        }
        let l = self.lit();
        // optional-output operators are sometimes left without a consumer
        let keep = pc % 4 != 0;
        match kind {
            K::Map => {
                unary!("map", format!("map(|x| x + {l})"), true);
            }
            K::Filter => {
                unary!("filter", format!("filter(|x| *x != {l})"), true);
            }
            K::FilterMap => {
                unary!("filter_map", format!("filter_map(|x| if x > {l} {{ Some(x) }} else {{ None }})"), true);
            }
            K::FlatMap => {
                unary!("flat_map", format!("flat_map(|x| [x, {l}])"), true);
            }
            K::Flatten => {
                unary!("flatten", "flatten()".to_string(), true);
            }
            K::Inspect => {
                unary!("inspect", format!("inspect(|x| println!(\"{l} {{:?}}\", x))"), keep);
            }
            K::Identity => {
                unary!("identity", "identity()".to_string(), true);
            }
            K::Enumerate => {
                unary!("enumerate", format!("enumerate{}()", pers(pc, 1)), true);
            }
            K::Sort => {
                unary!("sort", "sort()".to_string(), true);
            }
            K::SortByKey => {
                unary!("sort_by_key", format!("sort_by_key(|x| x ^ {l})"), true);
            }
            K::Unique => {
                unary!("unique", format!("unique{}()", pers(pc, 1)), true);
            }
            K::Persist => {
                unary!("persist", "persist::<'static>()".to_string(), true);
            }
            K::MultisetDelta => {
                unary!("multiset_delta", "multiset_delta()".to_string(), true);
            }
            K::Fold => {
                unary!("fold", format!("fold{}(|| {l}, |a, x| *a += x)", pers(pc, 1)), keep);
            }
            K::FoldNoReplay => {
                unary!("fold_no_replay", format!("fold_no_replay{}(|| {l}, |a, x| *a += x)", pers(pc, 1)), keep);
            }
            K::Reduce => {
                unary!("reduce", format!("reduce{}(|a, x| *a += x + {l})", pers(pc, 1)), keep);
            }
            K::ReduceNoReplay => {
                unary!("reduce_no_replay", format!("reduce_no_replay{}(|a, x| *a += x + {l})", pers(pc, 1)), keep);
            }
            K::FoldKeyed => {
                unary!("fold_keyed", format!("fold_keyed{}(|| {l}, |a, v| *a += v)", pers(pc, 1)), true);
            }
            K::ReduceKeyed => {
                unary!("reduce_keyed", format!("reduce_keyed{}(|a, v| *a += v + {l})", pers(pc, 1)), true);
            }
            K::Scan => {
                unary!("scan", format!("scan{}(|| {l}, |a, x| {{ *a += x; Some(*a) }})", pers(pc, 1)), true);
            }
            K::LatticeFold => {
                unary!("lattice_fold", format!("lattice_fold{}(|| Max::new({l}))", pers(pc, 1)), true);
            }
            K::LatticeReduce => {
                unary!("lattice_reduce", format!("lattice_reduce{}()", pers(pc, 1)), true);
            }
            K::DeferTick => {
                unary!("defer_tick", "defer_tick()".to_string(), true);
            }
            K::DeferTickLazy => {
                unary!("defer_tick_lazy", "defer_tick_lazy()".to_string(), true);
            }
            K::Assert => {
                unary!("assert", format!("assert(|x| *x != {l})"), keep);
            }
            K::AssertEq => {
                unary!("assert_eq", format!("assert_eq([{l}])"), keep);
            }
            K::NullPass => {
                unary!("null", "null()".to_string(), keep);
            }
            K::ForEach => {
                unary!("for_each", format!("for_each(|x| println!(\"{l} {{:?}}\", x))"), false);
            }
            K::DestSink => {
                unary!("dest_sink", format!("dest_sink(sink_{l})"), false);
            }
            K::NullSink => {
                unary!("null", "null()".to_string(), false);
            }
            K::Join => {
                binary!("join", format!("join{}()", pers(pc, 2)), Some("0"), Some("1"));
            }
            K::JoinMultiset => {
                binary!("join_multiset", format!("join_multiset{}()", pers(pc, 2)), Some("0"), Some("1"));
            }
            K::JoinFused => {
                binary!(
                    "join_fused",
                    format!("join_fused{}(Fold::new(|| {l}, |a, b| *a += b), Reduce::new(|a, b| *a += b))", pers(pc, 2)),
                    Some("0"),
                    Some("1")
                );
            }
            K::JoinFusedLhs => {
                binary!(
                    "join_fused_lhs",
                    format!("join_fused_lhs{}(Fold::new(|| {l}, |a, b| *a += b))", pers(pc, 2)),
                    Some("0"),
                    Some("1")
                );
            }
            K::JoinFusedRhs => {
                binary!(
                    "join_fused_rhs",
                    format!("join_fused_rhs{}(Reduce::new(|a, b| *a += b + {l}))", pers(pc, 2)),
                    Some("0"),
                    Some("1")
                );
            }
            K::JoinMultisetHalf => {
                binary!("join_multiset_half", format!("join_multiset_half{}()", pers(pc, 2)), Some("build"), Some("probe"));
            }
            K::CrossJoin => {
                binary!("cross_join", format!("cross_join{}()", pers(pc, 2)), Some("0"), Some("1"));
            }
            K::CrossJoinMultiset => {
                binary!("cross_join_multiset", format!("cross_join_multiset{}()", pers(pc, 2)), Some("0"), Some("1"));
            }
            K::CrossSingleton => {
                binary!("cross_singleton", format!("cross_singleton{}()", pers(pc, 1)), Some("input"), Some("single"));
            }
            K::AntiJoin => {
                binary!("anti_join", format!("anti_join{}()", pers(pc, 2)), Some("pos"), Some("neg"));
            }
            K::Difference => {
                binary!("difference", format!("difference{}()", pers(pc, 2)), Some("pos"), Some("neg"));
            }
            K::Zip => {
                binary!("zip", format!("zip{}()", pers(pc, 2)), Some("0"), Some("1"));
            }
            K::ZipLongest => {
                let p = if pc % 2 == 0 { "" } else { "::<'tick>" };
                binary!("zip_longest", format!("zip_longest{p}()"), Some("0"), Some("1"));
            }
            K::Chain => {
                binary!("chain", "chain()".to_string(), Some("0"), Some("1"));
            }
            K::ChainFirstN => {
                let n = binary!("chain_first_n", format!("chain_first_n({l})"), Some("0"), Some("1"));
                if pc % 3 == 0 {
                    let s2 = self.take(ctx, pc / 3, false, None);
                    self.edge(s2, n, Some("2"));
                }
            }
            K::DeferSignal => {
                binary!("defer_signal", "defer_signal()".to_string(), Some("input"), Some("signal"));
            }
            K::Union => {
                let k = 2 + (pc as usize % 3);
                let n = self.node("union", "union()".into(), ctx);
                for i in 0..k {
                    let s = self.take(ctx, pa.wrapping_add((i as u16).wrapping_mul(pb | 1)), false, None);
                    self.edge(s, n, None);
                }
                self.open.push((n, None));
            }
            K::Tee => {
                let n = unary!("tee", "tee()".to_string(), true);
                self.open.push((n, None));
                if pc % 3 == 0 {
                    self.open.push((n, None));
                }
            }
            K::Unzip => {
                let n = unary!("unzip", "unzip()".to_string(), false);
                self.open.push((n, Some("0".into())));
                self.open.push((n, Some("1".into())));
            }
            K::State => {
                let n = unary!("state", format!("state{}()", pers(pc, 1)), false);
                self.open.push((n, Some("items".into())));
                self.open.push((n, Some("state".into())));
            }
            K::StateBy => {
                let n = unary!("state_by", format!("state_by{}(|x| x + {l}, Default::default)", pers(pc, 1)), false);
                self.open.push((n, Some("items".into())));
                self.open.push((n, Some("state".into())));
            }
            K::PartitionNamed => {
                let n = unary!(
                    "partition",
                    format!("partition(|x, [pa, pb]| if *x > {l} {{ pa }} else {{ pb }})"),
                    false
                );
                self.open.push((n, Some("pa".into())));
                self.open.push((n, Some("pb".into())));
            }
            K::PartitionIdx => {
                let n = unary!("partition", format!("partition(|x, n| (*x + {l}) % n)"), false);
                let k = 2 + (pc as usize % 2);
                for i in 0..k {
                    self.open.push((n, Some(i.to_string())));
                }
            }
            K::DemuxEnum => {
                let n = unary!("demux_enum", format!("demux_enum::<E{l}>()"), false);
                self.open.push((n, Some("Aa".into())));
                self.open.push((n, Some("Bb".into())));
            }
            K::Handoff | K::Singleton | K::Optional => {
                let (op, text) = match kind {
                    K::Handoff => ("handoff", "handoff()"),
                    K::Singleton => ("singleton", "singleton()"),
                    _ => ("optional", "optional()"),
                };
                let s = self.take(ctx, pa, true, None);
                let n = self.node(op, text.into(), ctx);
                self.edge(s, n, None);
                if keep {
                    self.open.push((n, None));
                }
            }
            K::RefMap | K::RefFilter | K::RefInspect | K::RefForEach => {
                let (t, tok, pr) = self.make_ref(ctx, pb, None);
                // cycle injector (d): read the reference downstream of the target's consumer
                let prefer = if self.profile == Profile::Mixed && pc % 3 == 0 && t != usize::MAX {
                    Some(t)
                } else {
                    None
                };
                if prefer.is_none() && t != usize::MAX && (self.profile == Profile::Accept || pc % 3 != 1) {
                    // keep the holder upstream-independent of its target and of later groups
                    let mut av = vec![t];
                    for (i, nd) in self.p.nodes.iter().enumerate() {
                        if nd.refs.iter().any(|r| r.target == t && r.group > pr.group) {
                            av.push(i);
                        }
                    }
                    self.avoid = av;
                }
                let s = self.take(ctx, pa, false, prefer);
                self.avoid.clear();
                let (op, text, out) = match kind {
                    K::RefMap => ("map", format!("map(|x| x + {l} + *{tok})"), true),
                    K::RefFilter => ("filter", format!("filter(|x| *x != {l} + *{tok})"), true),
                    K::RefInspect => ("inspect", format!("inspect(|x| println!(\"{l} {{:?}} {{:?}}\", x, {tok}))"), keep),
                    _ => ("for_each", format!("for_each(|x| println!(\"{l} {{:?}} {{:?}}\", x, {tok}))"), false),
                };
                let n = self.node(op, text, ctx);
                self.edge(s, n, None);
                if t != usize::MAX {
                    self.p.nodes[n].refs.push(pr);
                }
                if out {
                    self.open.push((n, None));
                }
            }
            K::IterRef => {
                let (t, tok, pr) = self.make_ref(None, pb, None);
                if t == usize::MAX {
                    let _ = unary!("map", format!("map(|x| x + {l})"), true);
                } else {
                    ctx = None;
                    let n = self.node("iter_ref", format!("iter_ref({tok})"), ctx);
                    self.p.nodes[n].refs.push(pr);
                    self.open.push((n, None));
                }
            }
            K::RefTwoGroups => {
                // one holder reading the same target in two access groups: contradictory order.
                // Only produced by the cycle injector profile.
                if self.profile != Profile::Mixed || pc % 4 != 0 {
                    let _ = unary!("map", format!("map(|x| x + {l})"), true);
                } else {
                    let s0 = self.take(None, pb, true, None);
                    let h = self.node("singleton", "singleton()".into(), None);
                    self.edge(s0, h, None);
                    let s = self.take(ctx, pa, false, None);
                    let name = format!("v{h}");
                    let n = self.node("map", format!("map(|x| x + {l} + *#{{0}} {name} + *#{{1}} {name})"), ctx);
                    self.edge(s, n, None);
                    self.p.nodes[n].refs.push(PRef { target: h, is_mut: false, group: Some(0) });
                    self.p.nodes[n].refs.push(PRef { target: h, is_mut: false, group: Some(1) });
                    let st = self.refstate.entry(h).or_default();
                    st.grouped = Some(true);
                    st.groups.insert(Some(0), (1, false));
                    st.groups.insert(Some(1), (1, false));
                    self.open.push((n, None));
                }
            }
            K::CycleOpen => {
                let s = self.take(ctx, pa, false, None);
                let n = self.node("union", "union()".into(), ctx);
                self.edge(s, n, None);
                self.pend.push(Pending { dst: n, ctx });
                self.open.push((n, None));
            }
            K::CycleClose => {
                if self.pend.is_empty() {
                    let _ = unary!("map", format!("map(|x| x + {l})"), true);
                } else {
                    let i = (pb as usize) % self.pend.len();
                    let pd = self.pend.remove(i);
                    self.close(pd, pa, pc);
                }
            }
            K::ResolveFutures => {
                let t = if pc % 2 == 0 { "resolve_futures" } else { "resolve_futures_ordered" };
                unary!(t, format!("{t}()"), true);
            }
            K::ResolveFuturesBlocking => {
                let t = if pc % 2 == 0 { "resolve_futures_blocking" } else { "resolve_futures_blocking_ordered" };
                unary!(t, format!("{t}()"), true);
            }
            K::UnaryUnion => {
                unary!("union", "union()".to_string(), true);
            }
            K::UnaryTee => {
                unary!("tee", "tee()".to_string(), true);
            }
            K::Source => {
                if ctx.is_none() {
                    let s = self.new_source(pa);
                    self.open.push((s, None));
                } else {
                    let s = self.take(ctx, pa | 0x8000, false, None);
                    self.open.push(s);
                }
            }
        }
        self.cur = ctx;
    }

    fn close(&mut self, pd: Pending, pa: u16, pc: u16) {
        let ctx = pd.ctx;
        // which kind of closure
        let plain = match self.profile {
            Profile::Accept => pc % 16 == 0,
            Profile::Mixed => pc % 3 == 0,
        };
        let s = self.take(ctx, pa, false, Some(pd.dst));
        if plain {
            if (pc / 16) % 2 == 0 {
                self.edge(s, pd.dst, None);
            } else {
                let l = self.lit();
                let m = self.node("map", format!("map(|x| x + {l})"), ctx);
                self.edge(s, m, None);
                self.edge((m, None), pd.dst, None);
            }
        } else {
            let (op, text) = if (pc / 3) % 3 == 0 {
                ("defer_tick_lazy", "defer_tick_lazy()")
            } else {
                ("defer_tick", "defer_tick()")
            };
            let d = self.node(op, text.into(), ctx);
            self.edge(s, d, None);
            if (pc / 9) % 2 == 0 {
                self.edge((d, None), pd.dst, None);
            } else {
                let l = self.lit();
                let m = self.node("map", format!("map(|x| x + {l})"), ctx);
                self.edge((d, None), m, None);
                self.edge((m, None), pd.dst, None);
            }
        }
    }

    fn finish(&mut self, seed: u16) {
        let mut k = seed;
        while let Some(pd) = self.pend.pop() {
            k = k.wrapping_mul(31).wrapping_add(7);
            self.close(pd, k, k / 5);
        }
        // terminate every open output
        let mut guard = 0;
        while !self.open.is_empty() && guard < 200 {
            guard += 1;
            k = k.wrapping_mul(31).wrapping_add(11);
            let (n, port) = self.open.remove(0);
            let node = &self.p.nodes[n];
            let optional_out = port.is_none()
                && matches!(
                    node.op.as_str(),
                    "fold" | "fold_no_replay" | "reduce" | "reduce_no_replay" | "inspect" | "assert" | "assert_eq" | "handoff" | "singleton" | "optional"
                )
                && self.p.out_deg(n) == 0;
            if optional_out && k % 3 == 0 {
                continue;
            }
            let ctx = node.ctx;
            let l = self.lit();
            let (op, text) = match k % 4 {
                0 => ("null", "null()".to_string()),
                _ => ("for_each", format!("for_each(|x| println!(\"{l} {{:?}}\", x))")),
            };
            let s = self.node(op, text, ctx);
            self.edge((n, port), s, None);
        }
    }
}

pub fn decode(t: &Tape) -> Prog {
    decode_with(t, 3)
}

pub fn decode_with(t: &Tape, max_depth: usize) -> Prog {
    let mut d = Dec {
        p: Prog { order: t.order, chain: t.chain, ..Prog::default() },
        open: vec![],
        pend: vec![],
        lit: 0,
        cur: None,
        profile: t.profile,
        refstate: Default::default(),
        max_depth,
        avoid: vec![],
    };
    for r in &t.nodes {
        d.step(r);
    }
    let seed = t.nodes.iter().fold(17u16, |a, r| a.wrapping_mul(131).wrapping_add(r.c ^ r.a));
    d.finish(seed);
    d.p
}

// ---------------------------------------------------------------------------------------------
// printing

fn shuffle<T>(v: &mut [T], seed: u64) {
    if seed == 0 {
        return;
    }
    let mut s = seed.wrapping_mul(0x9E3779B97F4A7C15) | 1;
    for i in (1..v.len()).rev() {
        s ^= s << 13;
        s ^= s >> 7;
        s ^= s << 17;
        let j = (s % (i as u64 + 1)) as usize;
        v.swap(i, j);
    }
}

enum Item {
    Node(usize),
    Loop(usize),
    Text(String),
}

fn port(p: &Option<String>) -> String {
    match p {
        Some(s) => format!("[{s}]"),
        None => String::new(),
    }
}

/// Render the program as DFIR surface syntax. Every operator gets its own named statement
/// `v<i> = <op>;` and every edge its own statement `v<a>[p] -> [q]v<b>;` unless `chain` is set,
/// in which case maximal linear runs are printed as anonymous inline pipelines.
pub fn print(p: &Prog) -> String {
    let n = p.nodes.len();
    let mut inline = vec![false; n];
    let mut edge_done = vec![false; p.edges.len()];
    let mut chains: Vec<(Option<usize>, String)> = vec![];
    if p.chain {
        let referenced: Vec<bool> = (0..n)
            .map(|i| p.nodes.iter().any(|m| m.refs.iter().any(|r| r.target == i)))
            .collect();
        let ind: Vec<usize> = (0..n).map(|i| p.in_deg(i)).collect();
        let outd: Vec<usize> = (0..n).map(|i| p.out_deg(i)).collect();
        let elided_in = |i: usize| p.edges.iter().filter(|e| e.dst == i).all(|e| e.dport.is_none() && e.sport.is_none());
        let elided_out = |i: usize| p.edges.iter().filter(|e| e.src == i).all(|e| e.dport.is_none() && e.sport.is_none());
        // interior candidates: exactly one in, one out, not referenced, no port on their own side
        // of the two edges (the neighbours' sides may carry ports: those are printed on the names)
        let _ = (&elided_in, &elided_out);
        let interior: Vec<bool> = (0..n)
            .map(|i| {
                ind[i] == 1
                    && outd[i] == 1
                    && !referenced[i]
                    && p.edges.iter().filter(|e| e.dst == i).all(|e| e.dport.is_none())
                    && p.edges.iter().filter(|e| e.src == i).all(|e| e.sport.is_none())
                    && p.edges.iter().all(|e| !(e.src == i && e.dst == i))
            })
            .collect();
        let mut interior = interior;
        // a run must start after a *named* node: if the predecessor of an interior node is itself
        // interior but lives in another loop context (so it belongs to another run), keep this
        // node named
        for i in 0..n {
            if interior[i] {
                let pe = p.edges.iter().position(|e| e.dst == i).unwrap();
                let pred = p.edges[pe].src;
                if interior[pred] && p.nodes[pred].ctx != p.nodes[i].ctx {
                    interior[i] = false;
                }
            }
        }
        for start in 0..n {
            if !interior[start] || inline[start] {
                continue;
            }
            // only start at the head of a run
            let pe = p.edges.iter().position(|e| e.dst == start).unwrap();
            let pred = p.edges[pe].src;
            if interior[pred] && p.nodes[pred].ctx == p.nodes[start].ctx && pred != start {
                continue;
            }
            let ctx = p.nodes[start].ctx;
            let mut run = vec![start];
            let mut cur = start;
            loop {
                let se = p.edges.iter().position(|e| e.src == cur).unwrap();
                let nx = p.edges[se].dst;
                if interior[nx] && p.nodes[nx].ctx == ctx && !run.contains(&nx) && nx != pred {
                    run.push(nx);
                    cur = nx;
                } else {
                    break;
                }
            }
            if run.len() < 2 {
                continue;
            }
            let last = *run.last().unwrap();
            let se = p.edges.iter().position(|e| e.src == last).unwrap();
            let succ = p.edges[se].dst;
            let mut text = format!("{}{}", p.name(pred), port(&p.edges[pe].sport));
            edge_done[pe] = true;
            for (k, &r) in run.iter().enumerate() {
                text.push_str(" -> ");
                text.push_str(&p.nodes[r].text);
                inline[r] = true;
                if k + 1 < run.len() {
                    let ei = p.edges.iter().position(|e| e.src == r).unwrap();
                    edge_done[ei] = true;
                }
            }
            text.push_str(&format!(" -> {}{};", port(&p.edges[se].dport), p.name(succ)));
            edge_done[se] = true;
            chains.push((ctx, text));
        }
    }
    fn block(p: &Prog, ctx: Option<usize>, inline: &[bool], extra: &mut Vec<(Option<usize>, String)>, depth: usize, out: &mut String) {
        let mut items: Vec<Item> = vec![];
        for (i, nd) in p.nodes.iter().enumerate() {
            if nd.ctx == ctx && !inline[i] {
                items.push(Item::Node(i));
            }
        }
        for (l, par) in p.loops.iter().enumerate() {
            if *par == ctx {
                items.push(Item::Loop(l));
            }
        }
        let mut k = 0;
        while k < extra.len() {
            if extra[k].0 == ctx {
                let (_, t) = extra.remove(k);
                items.push(Item::Text(t));
            } else {
                k += 1;
            }
        }
        shuffle(&mut items, (p.order as u64).wrapping_mul(1 + depth as u64 + ctx.map(|c| c as u64 + 1).unwrap_or(0) * 7));
        let pad = "    ".repeat(depth);
        for it in items {
            match it {
                Item::Node(i) => {
                    out.push_str(&format!("{pad}{} = {};\n", p.name(i), p.nodes[i].text));
                }
                Item::Loop(l) => {
                    out.push_str(&format!("{pad}loop {{\n"));
                    block(p, Some(l), inline, extra, depth + 1, out);
                    out.push_str(&format!("{pad}}};\n"));
                }
                Item::Text(t) => {
                    out.push_str(&format!("{pad}{t}\n"));
                }
            }
        }
    }
    let mut extra: Vec<(Option<usize>, String)> = chains;
    for (i, e) in p.edges.iter().enumerate() {
        if edge_done[i] {
            continue;
        }
        // edge statements carry no operators, so their position is immaterial; put them at the
        // root, or (order-dependent) into the context of their destination
        let ctx = if p.order % 3 == 1 { p.nodes[e.dst].ctx } else { None };
        extra.push((
            ctx,
            format!("{}{} -> {}{};", p.name(e.src), port(&e.sport), port(&e.dport), p.name(e.dst)),
        ));
    }
    let mut out = String::new();
    block(p, None, &inline, &mut extra, 0, &mut out);
    out
}

// ---------------------------------------------------------------------------------------------
// splicing of unary unions/tees (C20)

/// Insert `count` unary `union()`/`tee()` operators into the edge selected by `edge`.
pub fn splice(p: &Prog, splices: &[(u16, bool, u8)]) -> Prog {
    let mut q = p.clone();
    for &(ei, is_tee, count) in splices {
        if q.edges.is_empty() {
            break;
        }
        // half of the splices go onto an edge that carries an explicit port ([1]join, [neg]..,
        // unzip[0], partition outputs ...) when there is one
        let ported: Vec<usize> = (0..q.edges.len()).filter(|&i| q.edges[i].sport.is_some() || q.edges[i].dport.is_some()).collect();
        let ei = if (count / 16) % 2 == 0 && !ported.is_empty() {
            ported[(ei as usize) % ported.len()]
        } else {
            (ei as usize) % q.edges.len()
        };
        // own-index variant of the spliced node: `src -> [0]u; u[..] -> dst`
        //   0: no index on the spliced node, 1: explicit input index, 2: explicit output index, 3: both
        let own = (count / 2) % 4;
        for _ in 0..(1 + count % 2) {
            let e = q.edges[ei].clone();
            let ctx = q.nodes[e.src].ctx;
            let (op, text) = if is_tee { ("tee", "tee()") } else { ("union", "union()") };
            q.nodes.push(PNode {
                op: op.into(),
                text: text.into(),
                ctx,
                refs: vec![],
                hoff: false,
                spliced: true,
            });
            let s = q.nodes.len() - 1;
            let idx = ((count / 8) % 2).to_string();
            let own_in = if own == 1 || own == 3 { Some(idx.clone()) } else { None };
            let own_out = if own == 2 || own == 3 { Some(idx.clone()) } else { None };
            q.edges[ei] = PEdge { src: e.src, sport: e.sport.clone(), dst: s, dport: own_in };
            q.edges.push(PEdge { src: s, sport: own_out, dst: e.dst, dport: e.dport.clone() });
        }
    }
    q
}

// ---------------------------------------------------------------------------------------------
// strategies

pub fn raw_node() -> impl Strategy<Value = RawNode> {
    (any::<u16>(), any::<u8>(), any::<u16>(), any::<u16>(), any::<u16>())
        .prop_map(|(op, ctx, a, b, c)| RawNode { op, ctx, a, b, c })
}

pub fn tape(profile: Profile, max_nodes: usize) -> impl Strategy<Value = Tape> {
    (
        vcommon::proptest::collection::vec(raw_node(), 1..=max_nodes),
        prop_oneof![Just(0u16), any::<u16>()],
        any::<bool>(),
    )
        .prop_map(move |(nodes, order, chain)| Tape { profile, nodes, order, chain })
}

// ---------------------------------------------------------------------------------------------
// bounded-exhaustive tiny programs from a reduced catalogue

/// Reduced catalogue for the exhaustive enumeration: every program is a sequence of at most
/// `max` "steps", each step one of a small set of raw nodes with fixed choices.
pub fn tiny_alphabet() -> Vec<RawNode> {
    // op values chosen so that pick_kind hits the wanted kind; choices fixed to 0/1
    let mut out = vec![];
    let want = [
        K::Map,
        K::Union,
        K::Tee,
        K::Join,
        K::Fold,
        K::DeferTick,
        K::CycleOpen,
        K::CycleClose,
        K::Singleton,
        K::RefMap,
        K::AntiJoin,
        K::Handoff,
    ];
    for w in want {
        let mut acc = 0u32;
        for &(k, wt) in TABLE {
            if k == w {
                break;
            }
            acc += wt;
        }
        // same context
        out.push(RawNode { op: acc as u16, ctx: 0, a: 0, b: 1, c: 1 });
    }
    // loop-entering variants of map
    out.push(RawNode { op: 0, ctx: 12, a: 0, b: 0, c: 1 });
    out.push(RawNode { op: 0, ctx: 15, a: 1, b: 0, c: 1 });
    out
}

pub fn tiny_tapes(max: usize, profile: Profile) -> Vec<Tape> {
    let alpha = tiny_alphabet();
    let mut out = vec![];
    let mut cur: Vec<Vec<usize>> = vec![vec![]];
    for _ in 0..max {
        let mut next = vec![];
        for c in &cur {
            for i in 0..alpha.len() {
                let mut d = c.clone();
                d.push(i);
                next.push(d);
            }
        }
        for seq in &next {
            out.push(Tape {
                profile,
                nodes: seq.iter().map(|&i| alpha[i].clone()).collect(),
                order: 0,
                chain: false,
            });
        }
        cur = next;
    }
    out
}
