//! C18: independent well-formedness validator for a partitioned graph (DESIGN §4 C18, clauses 1-5).
//! Written from the property text and the documented invariants; works on the `Snap` only.

use std::collections::{BTreeMap, BTreeSet};

use vcommon::Fail;

use crate::model::{NKind, Snap};

#[derive(Default, Debug, Clone)]
pub struct Info {
    pub subgraphs: usize,
    pub delayed_hoffs: usize,
    pub refs: usize,
    pub grouped_targets: usize,
    pub nested_loops: bool,
    pub loops: usize,
    pub diamond: bool,
    pub hoffs: usize,
    pub loop_remapped: usize,
}

impl Info {
    pub fn nontrivial(&self) -> bool {
        self.subgraphs >= 3 && (self.delayed_hoffs > 0 || self.refs > 0 || self.nested_loops || self.diamond)
    }
}

fn remap(t: &str, nested: bool) -> String {
    if nested {
        match t {
            "Tick" => "Loop".to_string(),
            "TickLazy" => "LoopLazy".to_string(),
            o => o.to_string(),
        }
    } else {
        t.to_string()
    }
}

/// Do the two operators of an ordering constraint live in different loop contexts?
fn loop_class(p: &Snap, a: u64, b: u64) -> &'static str {
    if p.nodes[&a].lp != p.nodes[&b].lp {
        "across-loop-contexts"
    } else {
        "same-loop-context"
    }
}

/// All violations found (empty = well formed).
pub fn validate(p: &Snap) -> (Vec<Fail>, Info) {
    let mut v: Vec<Fail> = vec![];
    let mut info = Info::default();
    macro_rules! bad {
        ($sig:expr, $($arg:tt)*) => {
            v.push(Fail::new($sig, format!($($arg)*)))
        };
    }
    if !p.adjacency_consistent() {
        bad!("c18.0:adjacency-lists-inconsistent", "successor/predecessor lists disagree with the edge table");
        return (v, info);
    }
    info.subgraphs = p.subgraphs.len();
    info.loops = p.loops.len();
    info.nested_loops = p.loops.values().any(|l| l.parent.is_some());

    // ---- clause 1: membership
    let mut member_of: BTreeMap<u64, Vec<u64>> = BTreeMap::new();
    for (sg, nodes) in &p.subgraphs {
        if nodes.is_empty() {
            bad!("c18.1:empty-subgraph", "subgraph {sg} has no nodes");
        }
        let set: BTreeSet<u64> = nodes.iter().copied().collect();
        if set.len() != nodes.len() {
            bad!("c18.1:duplicate-node-in-subgraph", "subgraph {sg} lists a node twice: {nodes:?}");
        }
        for n in nodes {
            member_of.entry(*n).or_default().push(*sg);
            if !p.nodes.contains_key(n) {
                bad!("c18.1:subgraph-lists-unknown-node", "subgraph {sg} lists unknown node {n}");
                return (v, info);
            }
        }
        let loops: BTreeSet<Option<u64>> = nodes.iter().map(|n| p.nodes[n].lp).collect();
        if loops.len() > 1 {
            bad!("c18.1:subgraph-spans-loop-contexts", "subgraph {sg} nodes {nodes:?} are in loop contexts {loops:?}");
        }
    }
    for (id, n) in &p.nodes {
        let m = member_of.get(id).cloned().unwrap_or_default();
        match n.kind {
            NKind::Op => {
                if m.len() != 1 {
                    bad!("c18.1:operator-not-in-exactly-one-subgraph", "operator {id} `{}` is in subgraphs {m:?}", n.pretty);
                } else if n.sg != Some(m[0]) {
                    bad!("c18.1:node-subgraph-index-disagrees", "operator {id}: node_subgraph={:?} but listed in {m:?}", n.sg);
                }
            }
            NKind::Hoff(_) => {
                info.hoffs += 1;
                if !m.is_empty() || n.sg.is_some() {
                    bad!("c18.1:handoff-inside-subgraph", "handoff {id} is a member of subgraph(s) {m:?}/{:?}", n.sg);
                }
            }
            NKind::ModB(_) => {
                bad!("c18.1:module-boundary-survived", "module boundary node {id} in partitioned graph");
            }
        }
    }
    if !v.is_empty() {
        return (v, info);
    }
    let sg_of = |n: u64| -> Option<u64> { p.nodes[&n].sg };

    // ---- clause 3: handoffs on crossing edges, none adjacent
    for e in p.edges.values() {
        let (sh, dh) = (p.is_hoff(e.src), p.is_hoff(e.dst));
        if sh && dh {
            bad!("c18.3:adjacent-handoffs", "edge {} connects two handoffs {} -> {}", e.id, e.src, e.dst);
        }
        if !sh && !dh {
            if sg_of(e.src) != sg_of(e.dst) {
                bad!(
                    "c18.3:direct-edge-between-subgraphs",
                    "edge `{}` -> `{}` joins subgraphs {:?} and {:?} without a handoff",
                    p.nodes[&e.src].pretty,
                    p.nodes[&e.dst].pretty,
                    sg_of(e.src),
                    sg_of(e.dst)
                );
            }
            if p.nodes[&e.src].lp != p.nodes[&e.dst].lp {
                bad!(
                    "c18.3:direct-edge-between-loop-contexts",
                    "edge `{}` -> `{}` crosses loop contexts without a handoff",
                    p.nodes[&e.src].pretty,
                    p.nodes[&e.dst].pretty
                );
            }
        }
    }
    for (id, n) in &p.nodes {
        if let NKind::Hoff(_) = n.kind {
            let (i, o) = (p.preds[id].len(), p.succs[id].len());
            if i != 1 || o > 1 {
                bad!("c18.3:handoff-degree", "handoff {id} has {i} producers and {o} consumers (expected 1 and at most 1)");
            }
        }
    }

    // ---- clause 2: every subgraph is one pull-then-push pipeline
    for (sg, nodes) in &p.subgraphs {
        let idx: BTreeMap<u64, usize> = nodes.iter().enumerate().map(|(i, n)| (*n, i)).collect();
        let is_pull = |n: u64| p.nodes[&n].color.as_deref() == Some("Pull");
        let k = nodes.iter().take_while(|n| is_pull(**n)).count();
        if nodes.iter().skip(k).any(|n| is_pull(*n)) {
            bad!("c18.2:pull-node-after-push-node", "subgraph {sg}: colours {:?}", nodes.iter().map(|n| p.nodes[n].color.clone()).collect::<Vec<_>>());
            continue;
        }
        let len = nodes.len();
        for (i, &n) in nodes.iter().enumerate() {
            let preds = p.pred_edges(n);
            let succs = p.succ_edges(n);
            let name = &p.nodes[&n].pretty;
            if i < k {
                for e in &preds {
                    if p.is_hoff(e.src) {
                        continue;
                    }
                    match idx.get(&e.src) {
                        Some(&j) if j < i => {}
                        Some(_) => bad!("c18.2:pull-input-not-earlier-in-subgraph", "subgraph {sg}: pull `{name}` reads `{}` which is listed later", p.nodes[&e.src].pretty),
                        None => {} // clause 3 reports it
                    }
                }
                if succs.len() != 1 {
                    bad!("c18.2:pull-node-needs-exactly-one-consumer", "subgraph {sg}: pull-side `{name}` has {} consumers", succs.len());
                    continue;
                }
                let e = succs[0];
                if p.is_hoff(e.dst) {
                    if !(k == len && i + 1 == len) {
                        bad!("c18.2:pull-node-feeds-handoff-before-pivot", "subgraph {sg}: pull-side `{name}` (index {i}, split {k}/{len}) sends into a handoff");
                    }
                } else if let Some(&j) = idx.get(&e.dst) {
                    if j <= i {
                        bad!("c18.2:pull-output-not-later-in-subgraph", "subgraph {sg}: `{name}` feeds an earlier node");
                    } else if j >= k && !(i + 1 == k && j == k) {
                        bad!("c18.2:pull-feeds-push-side-off-pivot", "subgraph {sg}: pull `{name}` (index {i}) feeds push node index {j}, split at {k}");
                    }
                }
            } else {
                for e in &succs {
                    if p.is_hoff(e.dst) {
                        continue;
                    }
                    match idx.get(&e.dst) {
                        Some(&j) if j > i => {}
                        Some(_) => bad!("c18.2:push-output-not-later-in-subgraph", "subgraph {sg}: push `{name}` sends to `{}` which is listed earlier", p.nodes[&e.dst].pretty),
                        None => {}
                    }
                }
                if preds.len() != 1 {
                    bad!("c18.2:push-node-needs-exactly-one-producer", "subgraph {sg}: push-side `{name}` has {} producers", preds.len());
                    continue;
                }
                let e = preds[0];
                if p.is_hoff(e.src) {
                    if !(k == 0 && i == 0) {
                        bad!("c18.2:push-node-fed-by-handoff-after-pivot", "subgraph {sg}: push-side `{name}` (index {i}, split {k}/{len}) reads a handoff");
                    }
                } else if let Some(&j) = idx.get(&e.src) {
                    if j >= i {
                        bad!("c18.2:push-input-not-earlier-in-subgraph", "subgraph {sg}: `{name}` is fed by a later node");
                    } else if j < k && !(i == k && j + 1 == k) {
                        bad!("c18.2:push-fed-by-pull-side-off-pivot", "subgraph {sg}: push `{name}` (index {i}) fed by pull node index {j}, split at {k}");
                    }
                }
            }
        }
    }

    // ---- clause 4: delay types
    for e in p.edges.values() {
        let dname = &p.nodes[&e.dst].name;
        if p.is_op(e.dst) {
            let want = match dname.as_str() {
                "defer_tick" => Some("Tick"),
                "defer_tick_lazy" => Some("TickLazy"),
                _ => None,
            };
            if let Some(w) = want {
                if e.dst_delay.as_deref() != Some(w) {
                    bad!("c18.4:defer-operator-not-declared-delayed", "`{dname}` input declares {:?}, documentation says {w}", e.dst_delay);
                }
            }
        }
        if let Some(t) = &e.dst_delay {
            if !p.is_hoff(e.src) {
                bad!("c18.4:delayed-input-without-handoff", "input of `{}` must be delayed ({t}) but is fed directly by `{}`", p.nodes[&e.dst].pretty, p.nodes[&e.src].pretty);
                continue;
            }
            let nested = p.nodes[&e.dst].lp.and_then(|l| p.loops.get(&l)).map(|l| l.parent.is_some()).unwrap_or(false);
            let want = remap(t, nested);
            if nested {
                info.loop_remapped += 1;
            }
            let got = p.nodes[&e.src].delay.clone();
            if got.as_deref() != Some(want.as_str()) {
                bad!(
                    format!("c18.4:handoff-delay-mark:want-{want}:got-{}", got.clone().unwrap_or_else(|| "none".into())),
                    "handoff {} in front of `{}` (nested loop: {nested}) is marked {:?}, expected {want}",
                    e.src,
                    p.nodes[&e.dst].pretty,
                    got
                );
            }
        }
    }
    for (id, n) in &p.nodes {
        if n.delay.is_some() {
            info.delayed_hoffs += 1;
            if !p.is_hoff(*id) {
                bad!("c18.4:delay-mark-on-non-handoff", "node {id} carries a delay type but is no handoff");
                continue;
            }
            let ok = p.succ_edges(*id).iter().any(|e| e.dst_delay.is_some());
            if !ok {
                bad!("c18.4:spurious-delay-mark", "handoff {id} is marked {:?} but its consumer declares no delay", n.delay);
            }
        }
    }

    // ---- clause 5: execution order
    let mut pos: BTreeMap<u64, usize> = BTreeMap::new();
    for (i, sg) in p.toposort.iter().enumerate() {
        if pos.insert(*sg, i).is_some() {
            bad!("c18.5:toposort-lists-subgraph-twice", "subgraph {sg} twice in {:?}", p.toposort);
        }
    }
    let all: BTreeSet<u64> = p.subgraphs.keys().copied().collect();
    let listed: BTreeSet<u64> = p.toposort.iter().copied().collect();
    if all != listed {
        bad!("c18.5:toposort-not-a-permutation-of-subgraphs", "subgraphs {all:?} vs toposort {:?}", p.toposort);
        return (v, info);
    }
    let sgpos = |n: u64| -> Option<usize> { sg_of(n).and_then(|s| pos.get(&s).copied()) };
    // pipe order through non-delayed handoffs
    for (id, n) in &p.nodes {
        if !p.is_hoff(*id) || n.delay.is_some() {
            continue;
        }
        let (pe, se) = (p.pred_edges(*id), p.succ_edges(*id));
        if pe.len() != 1 || se.len() != 1 {
            continue;
        }
        let (a, b) = (pe[0].src, se[0].dst);
        if let (Some(pa), Some(pb)) = (sgpos(a), sgpos(b)) {
            if pa >= pb {
                bad!(
                    if pa == pb { "c18.5:same-tick-handoff-loops-into-own-subgraph" } else { "c18.5:producer-subgraph-after-consumer" },
                    "handoff {id}: producer `{}` runs at position {pa}, consumer `{}` at {pb}; order {:?}",
                    p.nodes[&a].pretty,
                    p.nodes[&b].pretty,
                    p.toposort
                );
            }
        }
    }
    // references
    let mut by_target: BTreeMap<u64, BTreeMap<Option<u32>, Vec<u64>>> = BTreeMap::new();
    for (id, n) in &p.nodes {
        for r in &n.refs {
            info.refs += 1;
            let Some(t) = r.target else {
                bad!("c18.5:unresolved-reference", "`{}` holds an unresolved reference", n.pretty);
                continue;
            };
            if !p.nodes.contains_key(&t) || !p.is_hoff(t) {
                bad!("c18.5:reference-target-not-a-handoff", "`{}` references node {t} which is not a handoff", n.pretty);
                continue;
            }
            by_target.entry(t).or_default().entry(r.group).or_default().push(*id);
            let Some(ph) = sgpos(*id) else { continue };
            for pe in p.pred_edges(t) {
                let prod = pe.src;
                let Some(pp) = sgpos(prod) else { continue };
                if sg_of(prod) == sg_of(*id) {
                    bad!("c18.5:reference-holder-in-producer-subgraph", "`{}` reads `#{}` inside the subgraph that produces it", n.pretty, p.nodes[&t].varname.clone().unwrap_or_default());
                } else if pp > ph {
                    let class = loop_class(p, prod, *id);
                    bad!(
                        format!("c18.5:reference-order:producer-after-holder:{class}"),
                        "holder `{}` (subgraph position {ph}) runs before `{}` (position {pp}), the producer of the {} it references; order {:?}",
                        n.pretty,
                        p.nodes[&prod].pretty,
                        p.nodes[&t].name,
                        p.toposort
                    );
                }
            }
            for se in p.succ_edges(t) {
                if se.dst == *id {
                    bad!("c18.5:holder-is-pipe-consumer-of-target", "`{}` both references and drains the same handoff", n.pretty);
                    continue;
                }
                let Some(pc) = sgpos(se.dst) else { continue };
                if pc < ph {
                    bad!(
                        format!("c18.5:reference-order:holder-after-pipe-consumer:{}", loop_class(p, *id, se.dst)),
                        "holder `{}` (position {ph}) runs after `{}` (position {pc}) has drained the referenced handoff",
                        n.pretty,
                        p.nodes[&se.dst].pretty
                    );
                }
            }
        }
    }
    for (t, groups) in &by_target {
        if groups.keys().any(|g| g.is_some()) {
            info.grouped_targets += 1;
        }
        let gs: Vec<(&Option<u32>, &Vec<u64>)> = groups.iter().collect();
        for i in 0..gs.len() {
            for j in i + 1..gs.len() {
                for &a in gs[i].1 {
                    for &b in gs[j].1 {
                        if a == b {
                            bad!("c18.5:holder-in-two-groups", "`{}` is in groups {:?} and {:?} of target {t}", p.nodes[&a].pretty, gs[i].0, gs[j].0);
                            continue;
                        }
                        if let (Some(pa), Some(pb)) = (sgpos(a), sgpos(b)) {
                            if pa >= pb {
                                bad!(
                                    format!("c18.5:reference-order:access-group-order:{}", loop_class(p, a, b)),
                                    "group {:?} holder `{}` (position {pa}) must run before group {:?} holder `{}` (position {pb})",
                                    gs[i].0,
                                    p.nodes[&a].pretty,
                                    gs[j].0,
                                    p.nodes[&b].pretty
                                );
                            }
                        }
                    }
                }
            }
        }
    }
    // loop contiguity
    for l in p.loops.keys() {
        let ps: Vec<usize> = p
            .toposort
            .iter()
            .enumerate()
            .filter(|(_, sg)| {
                let first = p.subgraphs[*sg].first().copied();
                first.map(|n| p.loop_within(p.nodes[&n].lp, *l)).unwrap_or(false)
            })
            .map(|(i, _)| i)
            .collect();
        if let (Some(&lo), Some(&hi)) = (ps.first(), ps.last()) {
            if hi - lo + 1 != ps.len() {
                bad!("c18.5:loop-subgraphs-not-contiguous", "loop {l}: its subgraphs sit at positions {ps:?} of {:?}", p.toposort);
            }
        }
    }

    // diamond detection (tee feeding a union over two branches) for the non-trivial rule
    'outer: for (id, n) in &p.nodes {
        if n.name != "tee" {
            continue;
        }
        let mut reach: Vec<BTreeSet<u64>> = vec![];
        for e in p.succ_edges(*id) {
            let mut seen = BTreeSet::new();
            let mut st = vec![e.dst];
            while let Some(x) = st.pop() {
                if seen.insert(x) && seen.len() < 64 {
                    for s in p.succ_edges(x) {
                        st.push(s.dst);
                    }
                }
            }
            reach.push(seen);
        }
        for i in 0..reach.len() {
            for j in i + 1..reach.len() {
                if reach[i].iter().any(|x| reach[j].contains(x) && p.nodes[x].name == "union") {
                    info.diamond = true;
                    break 'outer;
                }
            }
        }
    }
    (v, info)
}
