//! Plain-data snapshot of a `DfirGraph`, taken through its public API only, so that the oracles
//! work on their own data structures.

use std::collections::{BTreeMap, BTreeSet};

use dfir_lang::graph::{DfirGraph, GraphNode, HandoffKind};
use quote::ToTokens;
use serde::Serialize;
use slotmap::Key;

#[derive(Clone, Debug, PartialEq, Eq, Serialize)]
pub enum NKind {
    Op,
    Hoff(String),
    ModB(bool),
}

#[derive(Clone, Debug, PartialEq, Eq, Serialize)]
pub struct SRef {
    pub target: Option<u64>,
    pub is_mut: bool,
    pub group: Option<u32>,
}

#[derive(Clone, Debug, PartialEq, Eq, Serialize, Default)]
pub struct OpInst {
    pub name: String,
    pub input_ports: Vec<String>,
    pub output_ports: Vec<String>,
    pub persistence: Vec<String>,
    pub type_args: Vec<String>,
    pub args: String,
    pub n_singletons: usize,
}

#[derive(Clone, Debug, PartialEq, Eq, Serialize)]
pub struct SNode {
    pub id: u64,
    pub kind: NKind,
    /// operator name (`map`), or handoff kind string
    pub name: String,
    /// token text of the operator (`map (| x | x + 1)`)
    pub text: String,
    /// pretty text as used in diagnostics
    pub pretty: String,
    pub lp: Option<u64>,
    pub sg: Option<u64>,
    pub delay: Option<String>,
    pub refs: Vec<SRef>,
    pub varname: Option<String>,
    pub opinst: Option<OpInst>,
    /// pull/push colour as `node_color_map()` reports it (what `as_code` will use)
    pub color: Option<String>,
    pub tag_present: bool,
}

#[derive(Clone, Debug, PartialEq, Eq, Serialize)]
pub struct SEdge {
    pub id: u64,
    pub src: u64,
    pub dst: u64,
    pub sport: String,
    pub dport: String,
    /// delay type declared by the destination operator for this input port
    pub dst_delay: Option<String>,
}

#[derive(Clone, Debug, PartialEq, Eq, Serialize)]
pub struct SLoop {
    pub parent: Option<u64>,
    pub nodes: Vec<u64>,
    pub children: Vec<u64>,
}

#[derive(Clone, Debug, PartialEq, Eq, Serialize, Default)]
pub struct Snap {
    pub nodes: BTreeMap<u64, SNode>,
    pub edges: BTreeMap<u64, SEdge>,
    pub loops: BTreeMap<u64, SLoop>,
    pub root_loops: Vec<u64>,
    pub subgraphs: BTreeMap<u64, Vec<u64>>,
    pub toposort: Vec<u64>,
    /// predecessor / successor edge ids per node in the graph's own iteration order
    pub preds: BTreeMap<u64, Vec<u64>>,
    pub succs: BTreeMap<u64, Vec<u64>>,
}

fn hk(k: HandoffKind) -> &'static str {
    match k {
        HandoffKind::Vec => "handoff",
        HandoffKind::Singleton => "singleton",
        HandoffKind::Optional => "optional",
    }
}

pub fn snap(g: &DfirGraph) -> Snap {
    let mut s = Snap::default();
    let colors = g.node_color_map();
    for (nid, node) in g.nodes() {
        let id = nid.data().as_ffi();
        let (kind, name, text) = match node {
            GraphNode::Operator(op) => (NKind::Op, op.name_string(), op.to_token_stream().to_string()),
            GraphNode::Handoff { kind, .. } => (NKind::Hoff(hk(*kind).to_string()), hk(*kind).to_string(), String::new()),
            GraphNode::ModuleBoundary { input, .. } => (NKind::ModB(*input), "module_boundary".to_string(), String::new()),
        };
        let opinst = g.node_op_inst(nid).map(|oi| OpInst {
            name: oi.op_constraints.name.to_string(),
            input_ports: oi.input_ports.iter().map(|p| p.to_string()).collect(),
            output_ports: oi.output_ports.iter().map(|p| p.to_string()).collect(),
            persistence: oi.generics.persistence_args.iter().map(|p| format!("{p:?}")).collect(),
            type_args: oi.generics.type_args.iter().map(|t| t.to_token_stream().to_string()).collect(),
            args: oi.arguments_pre.to_token_stream().to_string(),
            n_singletons: oi.singletons_referenced.len(),
        });
        s.nodes.insert(
            id,
            SNode {
                id,
                kind,
                name,
                text,
                pretty: node.to_pretty_string().to_string(),
                lp: g.node_loop(nid).map(|l| l.data().as_ffi()),
                sg: g.node_subgraph(nid).map(|l| l.data().as_ffi()),
                delay: g.handoff_delay_type(nid).map(|d| format!("{d:?}")),
                refs: g
                    .node_handoff_references(nid)
                    .iter()
                    .map(|r| SRef {
                        target: r.node_id.map(|t| t.data().as_ffi()),
                        is_mut: r.is_mut,
                        group: r.access_group,
                    })
                    .collect(),
                varname: g.node_varname(nid).map(|v| v.0.to_string()),
                opinst,
                color: colors.get(nid).map(|c| format!("{c:?}")),
                tag_present: false,
            },
        );
        s.preds.insert(id, g.node_predecessor_edges(nid).map(|e| e.data().as_ffi()).collect());
        s.succs.insert(id, g.node_successor_edges(nid).map(|e| e.data().as_ffi()).collect());
    }
    for (eid, (src, dst)) in g.edges() {
        let (sp, dp) = g.edge_ports(eid);
        let dst_delay = g
            .node_op_inst(dst)
            .and_then(|oi| (oi.op_constraints.input_delaytype_fn)(dp))
            .map(|d| format!("{d:?}"));
        s.edges.insert(
            eid.data().as_ffi(),
            SEdge {
                id: eid.data().as_ffi(),
                src: src.data().as_ffi(),
                dst: dst.data().as_ffi(),
                sport: sp.to_string(),
                dport: dp.to_string(),
                dst_delay,
            },
        );
    }
    for (lid, nodes) in g.loops() {
        s.loops.insert(
            lid.data().as_ffi(),
            SLoop {
                parent: g.loop_parent(lid).map(|l| l.data().as_ffi()),
                nodes: nodes.iter().map(|n| n.data().as_ffi()).collect(),
                children: g.loop_children(lid).iter().map(|n| n.data().as_ffi()).collect(),
            },
        );
    }
    s.root_loops = g.root_loops().iter().map(|l| l.data().as_ffi()).collect();
    for (sid, nodes) in g.subgraphs() {
        s.subgraphs.insert(sid.data().as_ffi(), nodes.iter().map(|n| n.data().as_ffi()).collect());
    }
    s.toposort = g.subgraph_toposort().iter().map(|l| l.data().as_ffi()).collect();
    s
}

impl Snap {
    pub fn is_hoff(&self, n: u64) -> bool {
        matches!(self.nodes[&n].kind, NKind::Hoff(_))
    }
    pub fn is_op(&self, n: u64) -> bool {
        matches!(self.nodes[&n].kind, NKind::Op)
    }
    pub fn pred_edges(&self, n: u64) -> Vec<&SEdge> {
        self.preds[&n].iter().map(|e| &self.edges[e]).collect()
    }
    pub fn succ_edges(&self, n: u64) -> Vec<&SEdge> {
        self.succs[&n].iter().map(|e| &self.edges[e]).collect()
    }
    pub fn loop_depth(&self, l: Option<u64>) -> usize {
        let mut d = 0;
        let mut c = l;
        while let Some(x) = c {
            d += 1;
            c = self.loops.get(&x).and_then(|l| l.parent);
            if d > 64 {
                break;
            }
        }
        d
    }
    /// `l` is `anc` or nested (transitively) inside `anc`.
    pub fn loop_within(&self, l: Option<u64>, anc: u64) -> bool {
        let mut c = l;
        let mut guard = 0;
        while let Some(x) = c {
            if x == anc {
                return true;
            }
            c = self.loops.get(&x).and_then(|l| l.parent);
            guard += 1;
            if guard > 64 {
                break;
            }
        }
        false
    }
    /// Internal consistency of adjacency lists vs. edge table (sanity for the harness itself).
    pub fn adjacency_consistent(&self) -> bool {
        let mut p: BTreeMap<u64, BTreeSet<u64>> = BTreeMap::new();
        let mut q: BTreeMap<u64, BTreeSet<u64>> = BTreeMap::new();
        for e in self.edges.values() {
            p.entry(e.dst).or_default().insert(e.id);
            q.entry(e.src).or_default().insert(e.id);
        }
        for (n, _) in &self.nodes {
            let a: BTreeSet<u64> = self.preds[n].iter().copied().collect();
            let b: BTreeSet<u64> = self.succs[n].iter().copied().collect();
            if a != p.get(n).cloned().unwrap_or_default() || b != q.get(n).cloned().unwrap_or_default() {
                return false;
            }
            if a.len() != self.preds[n].len() || b.len() != self.succs[n].len() {
                return false;
            }
        }
        true
    }
}

/// Simple cycle detection / Kahn on a digraph given as adjacency over arbitrary u64 ids.
pub fn has_cycle(nodes: &BTreeSet<u64>, edges: &[(u64, u64)]) -> bool {
    let mut indeg: BTreeMap<u64, usize> = nodes.iter().map(|&n| (n, 0)).collect();
    let mut adj: BTreeMap<u64, Vec<u64>> = BTreeMap::new();
    for &(a, b) in edges {
        *indeg.get_mut(&b).unwrap() += 1;
        adj.entry(a).or_default().push(b);
    }
    let mut ready: Vec<u64> = indeg.iter().filter(|(_, &d)| d == 0).map(|(&n, _)| n).collect();
    let mut seen = 0;
    while let Some(n) = ready.pop() {
        seen += 1;
        if let Some(v) = adj.get(&n) {
            for &m in v {
                let d = indeg.get_mut(&m).unwrap();
                *d -= 1;
                if *d == 0 {
                    ready.push(m);
                }
            }
        }
    }
    seen != nodes.len()
}
