//! Engine E3 `graph`: dfir_lang used as a plain library. Serves C17, C18, C19, C20 and the DFIR
//! half of C42. See /verif/DESIGN.md §4.

mod c17;
mod c18;
mod c19;
mod c20;
mod c42;
mod gen;
mod model;
mod pipeline;

use std::collections::BTreeSet;

use vcommon::proptest::prelude::*;
use vcommon::{Args, Ctx, Fail, Obs, Tier};

use gen::{Profile, Tape};

fn known_sigs(ctx: &Ctx) -> BTreeSet<String> {
    ctx.known
        .known
        .keys()
        .filter(|(p, _)| p == ctx.prop())
        .map(|(_, s)| s.clone())
        .collect()
}

/// Report the first violation that is not a listed known finding (so the search continues behind
/// known ones); if only known ones fired, report the first of them (it is recorded as a hit).
fn first_unlisted(v: Vec<Fail>, known: &BTreeSet<String>) -> Result<(), Fail> {
    if let Some(f) = v.iter().find(|f| !known.contains(&f.sig)) {
        return Err(f.clone());
    }
    match v.into_iter().next() {
        Some(f) => Err(f),
        None => Ok(()),
    }
}

/// Generator noise (programs FlatGraphBuilder rejects etc.) must stay below 20 % of the cases,
/// otherwise the run says little about the property: inconclusive, never a pass.
fn noise_guard(ctx: &mut Ctx) {
    if ctx.is_replay() {
        return;
    }
    let (ex, ev) = (ctx.excluded_count(), ctx.evaluations());
    if ev >= 50 && ex * 5 > ev {
        ctx.inconclusive(format!("{ex} of {ev} generated programs were excluded as generator noise (limit 20 %)"));
    }
}

fn exclude_label(e: &str) -> String {
    if e.starts_with("builder: ") {
        format!("builder:{}", pipeline::err_label(e))
    } else {
        e.split(':').next().unwrap_or("other").to_string()
    }
}

// ------------------------------------------------------------------------------------------------
// C18

fn c18_body(tape: &Tape, obs: &mut Obs, known: &BTreeSet<String>) -> Result<(), Fail> {
    let p = gen::decode(tape);
    let text = gen::print(&p);
    let g = match pipeline::full(&text, None) {
        pipeline::Full::Ok(g) => g,
        pipeline::Full::Excluded(e) => {
            if e.starts_with("parse") {
                return Err(Fail::new("generator:unparsable-program", format!("{e}\n{text}")));
            }
            obs.excluded(exclude_label(&e));
            return Ok(());
        }
        pipeline::Full::Rejected(_) => {
            obs.class("rejected-by-partitioner(C19 decides)");
            return Ok(());
        }
    };
    let s = model::snap(&g);
    let (fails, info) = c18::validate(&s);
    let fails: Vec<Fail> = fails
        .into_iter()
        .map(|f| Fail::new(f.sig, format!("{}\n--- program\n{text}", f.msg)))
        .collect();
    obs.nontrivial(info.nontrivial());
    obs.class("accepted");
    // what the validator promises is what `as_code` relies on: it must not panic on an accepted,
    // well-formed graph (operator-level diagnostics are fine)
    if fails.is_empty() {
        match std::panic::catch_unwind(std::panic::AssertUnwindSafe(|| pipeline::code(&g))) {
            Ok(Ok(_)) => obs.class("as_code:ok"),
            Ok(Err(_)) => obs.class("as_code:operator-diagnostics"),
            Err(pn) => {
                return Err(Fail::new(
                    format!("as_code:panic-on-accepted-graph:{}", vcommon::panic_sig(&pn)),
                    format!("as_code panicked on a graph the validator found well formed: {}\n{text}", vcommon::panic_msg(&pn)),
                ))
            }
        }
    }
    if info.delayed_hoffs > 0 {
        obs.class("delayed-handoff");
    }
    if info.loop_remapped > 0 {
        obs.class("tick->loop-remapped-handoff");
    }
    if info.refs > 0 {
        obs.class("references");
    }
    if info.grouped_targets > 0 {
        obs.class("access-groups");
    }
    if info.nested_loops {
        obs.class("nested-loops");
    } else if info.loops > 0 {
        obs.class("root-loops");
    }
    if info.diamond {
        obs.class("tee-union-diamond");
    }
    first_unlisted(fails, known)
}

fn run_c18(ctx: &mut Ctx) {
    let thorough = ctx.tier() == Tier::Thorough;
    ctx.rule = "Programs are decoded from a random tape by the E3 generator (sources, ~55 operator kinds with every accepted persistence-argument count, unions, tees, join family, anti_join/difference, fold/reduce/sort, persist, defer_tick(_lazy), handoff()/singleton()/optional(), #x / #mut x / #{n} x references, iter_ref, root and nested loop blocks with batch/batch_lazy/all_iterations, delayed cycles), printed with permuted statement order and optionally inline chains, and run through parse -> FlatGraphBuilder -> merge_modules -> eliminate_extra_unions_tees -> adjacent-handoff check -> partition_graph. Plus every program of <=3 (thorough: <=4) steps over a 14-letter reduced alphabet (bounded-exhaustive). Accepted programs are checked by the independent validator (clauses 1-5 of DESIGN C18). Non-trivial: >=3 subgraphs and at least one of delayed handoff / reference / nested loop / tee-union diamond; distinct by tape."
        .into();
    ctx.assume("'blocking input crosses a handoff' is read as DESIGN C18 clauses 3-5 (delay types and reference/access-group barriers); blocking operators are drained in place by the generated code");
    ctx.assume("programs rejected by FlatGraphBuilder diagnostics or by the adjacent-handoff check of build_dfir_code are generator noise (counted under `excluded`)");
    ctx.floor = 100;
    ctx.extra.insert(
        "exhaustive_subspace".into(),
        vcommon::serde_json::json!("sub-check tiny-exhaustive: all step sequences of length <=3 (quick) / <=4 (thorough) over the 14-step reduced alphabet of gen::tiny_alphabet (map, union, tee, join, fold, defer_tick, cycle-open, cycle-close, singleton, #ref map, anti_join, handoff, enter-new-loop, leave-loop)"),
    );
    let known = known_sigs(ctx);
    let k2 = known.clone();
    let tiny = gen::tiny_tapes(if thorough { 4 } else { 3 }, Profile::Accept);
    ctx.check_all("tiny-exhaustive", tiny, move |t, obs| c18_body(t, obs, &k2));
    let k3 = known.clone();
    ctx.check("random-programs", if thorough { 100_000 } else { 8_000 }, gen::tape(Profile::Accept, 12), move |t, obs| c18_body(t, obs, &k3));
    let k4 = known.clone();
    ctx.check("random-large-programs", if thorough { 15_000 } else { 1_000 }, gen::tape(Profile::Accept, 28), move |t, obs| c18_body(t, obs, &k4));
}

// ------------------------------------------------------------------------------------------------
// C19

fn c19_body(tape: &Tape, obs: &mut Obs) -> Result<(), Fail> {
    let p = gen::decode(tape);
    let text = gen::print(&p);
    let flat = match pipeline::build_flat(&text, None) {
        pipeline::Flat::Ok { graph, .. } => graph,
        pipeline::Flat::BuilderErr(e) => {
            obs.excluded(format!("builder:{}", pipeline::err_label(e.first().map(|s| s.as_str()).unwrap_or(""))));
            return Ok(());
        }
        pipeline::Flat::ParseErr(e) => return Err(Fail::new("generator:unparsable-program", format!("{e}\n{text}"))),
    };
    let flat = match pipeline::prepare(flat) {
        pipeline::Prep::Ok(g) => g,
        pipeline::Prep::AdjacentHandoffs => {
            obs.excluded("adjacent-handoffs");
            return Ok(());
        }
        pipeline::Prep::MergeErr(e) => return Err(Fail::new("harness:merge-modules-error", e)),
    };
    let f = model::snap(&flat);
    let d = c19::deps(&f);
    let expect_cycle = d.cyclic();
    let res = std::panic::catch_unwind(std::panic::AssertUnwindSafe(|| pipeline::partition(flat)));
    let res = match res {
        Ok(r) => r,
        Err(pn) => {
            let msg = vcommon::panic_msg(&pn);
            let first = msg.lines().next().unwrap_or("").to_string();
            if d.self_group_conflict && first.contains("conflicted or cyclical handoff references") {
                obs.class("holder-in-two-groups");
                return Err(Fail::new(
                    "partition:panic-instead-of-diagnostic:one-holder-in-two-access-groups-of-a-target",
                    format!("partition_graph panicked ({first}) on a program whose access-group order is contradictory (one operator holds `#{{0}} x` and `#{{1}} x`); the dependency graph has a cycle, so an Err diagnostic is expected\n{text}"),
                ));
            }
            return Err(Fail::new(
                format!("partition:panic:{}", vcommon::panic_sig(&pn)),
                format!("partition_graph panicked: {msg}\n(dependency graph cyclic: {expect_cycle})\n{text}"),
            ));
        }
    };
    match res {
        pipeline::Part::Ok(_) => {
            if expect_cycle {
                let kinds: BTreeSet<String> = d.edges.values().flatten().map(|k| format!("{k:?}")).collect();
                return Err(Fail::new(
                    "partition:accepted-a-same-tick-cycle",
                    format!("the same-tick dependency graph (edge kinds present: {kinds:?}) has a cycle but partition_graph returned Ok\n{text}"),
                ));
            }
            obs.class("accepted");
            let delayed = d.delayed_cycle();
            obs.nontrivial(delayed);
            if delayed {
                obs.class("accepted:delayed-cycle");
            }
        }
        pipeline::Part::Err { message, flat } => {
            if !expect_cycle {
                return Err(Fail::new(
                    "partition:rejected-an-acyclic-graph",
                    format!("no cycle in the same-tick dependency graph, but partition_graph failed: {message}\n{text}"),
                ));
            }
            if model::snap(&flat) != f {
                return Err(Fail::new("partition:error-does-not-return-the-pristine-flat-graph", text));
            }
            obs.class("rejected");
            let Some(labels) = c19::parse_cycle(&message) else {
                return Err(Fail::new("partition:diagnostic-has-no-cycle-list", format!("{message}\n{text}")));
            };
            let set: BTreeSet<&String> = labels.iter().collect();
            // identical operator texts may legitimately repeat (e.g. two `union()`); node-level
            // distinctness is checked by the assignment search
            let _ = set;
            match c19::cycle_is_real(&f, &d, &labels) {
                None => {
                    return Err(Fail::new(
                        "partition:reported-cycle-is-not-a-cycle-of-the-dependency-graph",
                        format!("{message}\nno assignment of distinct operators to these labels forms a closed walk\n{text}"),
                    ))
                }
                Some(kinds) => {
                    let non_pipe = kinds.iter().any(|k| !k.contains(&c19::DepKind::Pipe));
                    let via_ref = kinds.iter().any(|k| k.iter().any(|x| matches!(x, c19::DepKind::RefProducer | c19::DepKind::RefBeforeConsumer | c19::DepKind::GroupOrder)) && !k.contains(&c19::DepKind::Pipe));
                    let via_loop = kinds.iter().any(|k| k.contains(&c19::DepKind::LoopIngress) && !k.contains(&c19::DepKind::Pipe));
                    let crosses_loop = labels.iter().any(|l| l.starts_with("batch") || l.starts_with("all_iterations"));
                    obs.nontrivial(non_pipe || crosses_loop);
                    if via_ref {
                        obs.class("rejected:cycle-through-reference");
                    }
                    if via_loop || crosses_loop {
                        obs.class("rejected:cycle-through-loop-boundary");
                    }
                    if !non_pipe && !crosses_loop {
                        obs.class("rejected:plain-pipe-cycle");
                    }
                }
            }
        }
    }
    Ok(())
}

fn run_c19(ctx: &mut Ctx) {
    let thorough = ctx.tier() == Tier::Thorough;
    ctx.rule = "Same generator as C18, in its cycle-injector profile: cycles opened at a union and closed by a plain edge, a map, defer_tick or defer_tick_lazy (preferring streams that really descend from the union); references read downstream of the target's consumer; access groups contradicting pipe order; one operator in two access groups; loops re-entered with data that left them; plus the accepting profile as acyclic/delayed controls and the bounded-exhaustive tiny programs. Oracle: an independently built same-tick dependency digraph of the flat graph (pipe edges without delay type, handoff->holder, holder->pipe consumer, access group i -> i+1, loop-ingress edges); partition_graph is Err <=> that digraph has a cycle; on Err the diagnostic's cycle must be realisable as a closed walk over distinct operators with those pretty-printed texts. Non-trivial: rejected with a cycle through a reference, access group or loop boundary; accepted with a cycle that is broken only by a delay."
        .into();
    ctx.assume("loop-ingress ordering edges (issue 3048, documented at find_subgraph_unionfind) are part of the same-tick dependency graph");
    ctx.assume("programs rejected by FlatGraphBuilder (e.g. a plain cycle wholly inside one loop block) are outside partition_graph's domain and counted as excluded");
    ctx.floor = 100;
    ctx.extra.insert(
        "exhaustive_subspace".into(),
        vcommon::serde_json::json!("sub-check tiny-exhaustive: all step sequences of length <=3 (quick) / <=4 (thorough) over the 14-step reduced alphabet, cycle-injector profile"),
    );
    let tiny = gen::tiny_tapes(if thorough { 4 } else { 3 }, Profile::Mixed);
    ctx.check_all("tiny-exhaustive", tiny, c19_body);
    ctx.check("cycle-injector", if thorough { 300_000 } else { 20_000 }, gen::tape(Profile::Mixed, 12), c19_body);
    ctx.check("accepting-controls", if thorough { 80_000 } else { 5_000 }, gen::tape(Profile::Accept, 14), c19_body);
}

// ------------------------------------------------------------------------------------------------
// C20

fn run_c20(ctx: &mut Ctx) {
    let thorough = ctx.tier() == Tier::Thorough;
    ctx.rule = "Flat graphs from the E3 generator (every operator named). (i) eliminate: 1-4 unary union()/tee() operators spliced into random edges of the program text (also doubled, also next to port-indexed edges such as [1]join / unzip[0]); eliminate_extra_unions_tees of base and spliced graph must both equal a reference elimination model on the name-keyed canonical form (operators, arguments, generics, loop, references, port wiring). (ii) merge_modules: 1-4 edges re-routed through 1-2 ModuleBoundary nodes with matching path/int/elided port keys via the public insert_node/insert_edge API; merged graph must equal the untouched build; a mismatching key must give Err, not a panic. (iii) JSON: partitioned graph -> serde_json -> from_str + insert_node_op_insts_all (what Dfir::new does): snapshot equal including all ids, adjacency order, subgraphs, toposort, loops, delay types, references; no diagnostics; re-serialization is a fixpoint; as_code text of the reloaded graph equal (reference-free programs). Non-trivial: (i) a splice next to a port-indexed edge, (ii) >=2 cuts or a cut on a ported edge or a mismatch case, (iii) delayed handoffs or references present."
        .into();
    ctx.assume("Operator's own ToTokens prints preprocessed arguments, i.e. `#x` already appears as `x` before serialization; the round trip is compared on that printed form, and the loss of the reference markers in a reloaded graph is recorded as class `json:reload-drops-reference-markers`, not as a violation (node_handoff_references survive the round trip and are compared)");
    ctx.floor = 100;
    let n = if thorough { 60_000 } else { 4_000 };
    let splices = vcommon::proptest::collection::vec((any::<u16>(), any::<bool>(), any::<u8>()), 1..=4);
    ctx.check(
        "eliminate-unary-unions-tees",
        n,
        (gen::tape(Profile::Accept, 10), splices).prop_map(|(tape, splices)| c20::ElimCase { tape, splices }),
        c20::run_elim,
    );
    let cuts = vcommon::proptest::collection::vec((any::<u16>(), any::<u8>(), any::<u8>()), 1..=4);
    ctx.check(
        "merge-modules",
        n,
        (gen::tape(Profile::Accept, 10), cuts, vcommon::proptest::bool::weighted(0.15))
            .prop_map(|(tape, cuts, mismatch)| c20::ModCase { tape, cuts, mismatch }),
        c20::run_modules,
    );
    ctx.check("json-round-trip", n, gen::tape(Profile::Accept, 12), c20::run_json);
}

// ------------------------------------------------------------------------------------------------
// C42

fn run_c42(ctx: &mut Ctx) {
    let thorough = ctx.tier() == Tier::Thorough;
    ctx.rule = "E3 generator programs, each compiled parse -> FlatGraphBuilder -> merge_modules -> eliminate -> partition_graph -> as_code three times in one process (two fresh threads = fresh thread-local hash seeds and span tables, each after a generated amount of junk allocation, plus the main thread) and once each in two freshly spawned processes (this binary in --child mode, different environment size and junk allocation). Oracle: serde_json::to_string(partitioned graph) and as_code(..).to_string() byte-identical; rejected/excluded programs must fail identically. Non-trivial: compiled programs with >=2 loops, >=4 handoffs or >=2 referenced handoffs."
        .into();
    ctx.assume("only the DFIR half of C42 is served here; the Hydro half belongs to engine E5");
    ctx.floor = 200;
    ctx.check("in-process-x3", if thorough { 8_000 } else { 600 }, gen::tape(Profile::Accept, 14), c42::run_inproc);
    ctx.check("cross-process-x3", if thorough { 1_500 } else { 150 }, gen::tape(Profile::Accept, 14), c42::run_xproc);
    if c42::INFRA_FAIL.load(std::sync::atomic::Ordering::SeqCst) {
        ctx.inconclusive("a --child process could not be spawned or died");
    }
}

// ------------------------------------------------------------------------------------------------

fn gen_stats(a: &[String]) {
    use vcommon::proptest::strategy::ValueTree;
    use vcommon::proptest::test_runner::{Config, RngAlgorithm, RngSeed, TestRunner};
    vcommon::quiet_panics();
    let n: usize = a[2].parse().unwrap();
    let prof = if a.get(3).map(|s| s.as_str()) == Some("mixed") { Profile::Mixed } else { Profile::Accept };
    let show: usize = a.get(4).and_then(|s| s.parse().ok()).unwrap_or(0);
    let mut runner = TestRunner::new(Config { rng_algorithm: RngAlgorithm::ChaCha, rng_seed: RngSeed::Fixed(1), ..Config::default() });
    let strat = gen::tape(prof, 12);
    let mut hist: std::collections::BTreeMap<String, usize> = Default::default();
    let mut sizes = 0usize;
    let t0 = std::time::Instant::now();
    for i in 0..n {
        let t = strat.new_tree(&mut runner).unwrap().current();
        let p = gen::decode(&t);
        sizes += p.nodes.len();
        let text = gen::print(&p);
        if i < show {
            println!("-----\n{text}");
        }
        let r = std::panic::catch_unwind(|| pipeline::full(&text, None));
        let label = match r {
            Err(_) => "panic".to_string(),
            Ok(pipeline::Full::Excluded(e)) => {
                let l = exclude_label(&e);
                if l.contains("other") || l.contains("parse") || l.contains("ports") || l.contains("arity") {
                    println!("{e}\n{text}");
                }
                l
            }
            Ok(pipeline::Full::Rejected(m)) => {
                if std::env::var("SHOWREJ").is_ok() {
                    println!("REJ {m}\n{text}");
                }
                "rejected".to_string()
            }
            Ok(pipeline::Full::Ok(g)) => match pipeline::code(&g) {
                Ok(_) => "ok".to_string(),
                Err(e) => format!("ok-codeerr:{}", e[0].chars().take(50).collect::<String>()),
            },
        };
        *hist.entry(label).or_default() += 1;
    }
    println!("{:#?}\navg nodes {:.1} time {:?}", hist, sizes as f64 / n as f64, t0.elapsed());
}

fn main() {
    let a: Vec<String> = std::env::args().collect();
    match a.get(1).map(|s| s.as_str()) {
        Some("--child") => c42::child_main(a.get(2).and_then(|s| s.parse().ok()).unwrap_or(0)),
        Some("--gen-stats") => return gen_stats(&a),
        Some("--print") => {
            // --print <replay.json>: show the program text of a replay case
            let v: serde_json::Value = serde_json::from_str(&std::fs::read_to_string(&a[2]).unwrap()).unwrap();
            let case = &v["case"];
            let tape: Tape = serde_json::from_value(if case.get("tape").is_some() { case["tape"].clone() } else { case.clone() }).unwrap();
            println!("{}", gen::print(&gen::decode(&tape)));
            return;
        }
        _ => {}
    }
    let args = Args::parse();
    let mut ctx = Ctx::new(args);
    vcommon::quiet_panics();
    match ctx.prop().to_string().as_str() {
        "C17" => c17::run(&mut ctx),
        "C18" => {
            run_c18(&mut ctx);
            noise_guard(&mut ctx)
        }
        "C19" => {
            run_c19(&mut ctx);
            noise_guard(&mut ctx)
        }
        "C20" => {
            run_c20(&mut ctx);
            noise_guard(&mut ctx)
        }
        "C42" => {
            run_c42(&mut ctx);
            noise_guard(&mut ctx)
        }
        other => {
            eprintln!("engine `graph` does not serve {other}");
            std::process::exit(2);
        }
    }
    ctx.finish();
}
