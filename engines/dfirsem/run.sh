#!/usr/bin/env bash
# Runner used by /verif/check: caps the address space of the host process (a runaway model
# evaluation must end as an inconclusive abort, not take the machine down).
here=$(cd "$(dirname "$0")" && pwd)
root=${VERIF_ROOT:-$(cd "$here/../.." && pwd)}
ulimit -v 12000000 2>/dev/null || true
exec "$root/target/dfirsem/release/dfirsem" "$@"
