//! Template generators on the general IR for C23 (blocking inputs behind random-depth same-tick
//! pipelines) and C24 (defer_tick / defer_tick_lazy chains and cycles, run_tick / run_available).

use crate::gen::{rand_item, Rng};
use crate::interp::{Run, Script, Step};
use crate::ir::*;
use crate::sem::SemCase;

pub struct B {
    pub nodes: Vec<Node>,
    pub sources: Vec<Ty>,
    pub sinks: usize,
}

impl B {
    pub fn new() -> B {
        B { nodes: vec![], sources: vec![], sinks: 0 }
    }
    pub fn push(&mut self, op: Op, ins: Vec<Edge>) -> usize {
        self.nodes.push(Node { op, ins });
        self.nodes.len() - 1
    }
    pub fn src(&mut self, ty: Ty) -> Edge {
        let s = self.sources.len();
        self.sources.push(ty.clone());
        let n = self.push(Op::SrcStream { src: s, ty }, vec![]);
        Edge { node: n, port: 0 }
    }
    pub fn un(&mut self, op: Op, e: Edge) -> Edge {
        let n = self.push(op, vec![e]);
        Edge { node: n, port: 0 }
    }
    pub fn bin(&mut self, op: Op, a: Edge, b: Edge) -> Edge {
        let n = self.push(op, vec![a, b]);
        Edge { node: n, port: 0 }
    }
    pub fn tee(&mut self, e: Edge, n: usize) -> Vec<Edge> {
        let t = self.push(Op::Tee { n }, vec![e]);
        (0..n).map(|port| Edge { node: t, port }).collect()
    }
    pub fn sink(&mut self, e: Edge) {
        let s = self.sinks;
        self.sinks += 1;
        self.push(Op::ForEach { sink: s }, vec![e]);
    }
    pub fn prog(self) -> Prog {
        Prog { nodes: self.nodes, sources: self.sources, stmt_order: None }
    }
}

fn shuffle_order(r: &mut Rng, p: &mut Prog) {
    if r.chance(1, 2) {
        let mut o: Vec<usize> = (0..p.nodes.len()).collect();
        for i in (1..o.len()).rev() {
            o.swap(i, r.below(i + 1));
        }
        p.stmt_order = Some(o);
    }
}

struct DeepInfo {
    handoffs: i64,
    /// output node of the long branch of the last diamond (-1: none)
    long_branch: i64,
    depth: i64,
}

/// A same-tick pipeline of the given depth over `i64` items: identity / map / handoff / union of
/// several sources / tee-diamond (short branch: even items, long branch: odd items through extra
/// operators and handoffs) nodes.
fn deep(r: &mut Rng, b: &mut B, inputs: Vec<Edge>, depth: usize, info: &mut DeepInfo) -> Edge {
    let mut cur = if inputs.len() > 1 {
        let n = inputs.len();
        let u = b.push(Op::Union { n }, inputs);
        Edge { node: u, port: 0 }
    } else {
        inputs[0]
    };
    let mut last_hoff = false;
    let mut d = 0;
    while d < depth {
        d += 1;
        match r.below(6) {
            0 => {
                cur = b.un(Op::Identity { typed: r.chance(1, 2) }, cur);
                last_hoff = false;
            }
            1 => {
                cur = b.un(Op::Map(MapFn::AddC(r.range(0, 1))), cur);
                last_hoff = false;
            }
            2 | 3 => {
                if last_hoff {
                    cur = b.un(Op::Identity { typed: false }, cur);
                }
                cur = b.un(Op::Handoff, cur);
                info.handoffs += 1;
                last_hoff = true;
            }
            _ => {
                // diamond
                let t = b.tee(cur, 2);
                let mut short = b.un(Op::Filter(Pred::Even), t[0]);
                if r.chance(1, 2) {
                    short = b.un(Op::Identity { typed: false }, short);
                }
                let mut long = b.un(Op::Filter(Pred::Odd), t[1]);
                let extra = 1 + r.below(3);
                for k in 0..extra {
                    if k % 2 == 0 {
                        long = b.un(Op::Handoff, long);
                        info.handoffs += 1;
                    } else {
                        long = b.un(Op::Map(MapFn::AddC(0)), long);
                    }
                }
                if matches!(b.nodes[long.node].op, Op::Handoff) {
                    long = b.un(Op::Identity { typed: true }, long);
                }
                info.long_branch = long.node as i64;
                let ins = if r.chance(1, 2) { vec![short, long] } else { vec![long, short] };
                let u = b.push(Op::Union { n: 2 }, ins);
                cur = Edge { node: u, port: 0 };
                last_hoff = false;
                d += extra;
            }
        }
    }
    info.depth = depth as i64;
    if last_hoff {
        // keep the last pseudo operator from touching a following handoff-like consumer
        cur = b.un(Op::Identity { typed: false }, cur);
    }
    cur
}

fn pers2(r: &mut Rng) -> Vec<Pers> {
    use Pers::*;
    r.pick(&[vec![], vec![Tick], vec![Static], vec![Tick, Static], vec![Static, Tick], vec![Tick, Tick], vec![Static, Static]])
        .clone()
}
fn pers1(r: &mut Rng) -> Vec<Pers> {
    r.pick(&[vec![], vec![Pers::Tick], vec![Pers::Static]]).clone()
}

pub const C23_KINDS: &[&str] = &[
    "anti_join.neg",
    "difference.neg",
    "fold",
    "reduce",
    "sort",
    "persist",
    "fold_keyed",
    "cross_singleton.single",
    "singleton#ref",
    "handoff#ref",
    "unique-after-blocking",
];

pub fn gen_c23(r: &mut Rng, kind_hint: usize) -> (SemCase, String) {
    let mut b = B::new();
    let nsrc = 1 + r.below(3);
    let ins: Vec<Edge> = (0..nsrc).map(|_| b.src(Ty::I)).collect();
    let depth = 1 + r.below(8);
    let mut info = DeepInfo { handoffs: 0, long_branch: -1, depth: 0 };
    let blocked = deep(r, &mut b, ins, depth, &mut info);
    let kind = C23_KINDS[kind_hint % C23_KINDS.len()];
    match kind {
        "anti_join.neg" => {
            let pos = b.src(Ty::p());
            let o = b.bin(Op::AntiJoin { pers: pers2(r) }, pos, blocked);
            b.sink(o);
        }
        "difference.neg" => {
            let pos = b.src(Ty::I);
            let o = b.bin(Op::Difference { pers: pers2(r) }, pos, blocked);
            b.sink(o);
        }
        "fold" => {
            let f = r.pick(&[FoldFn::Sum, FoldFn::Count, FoldFn::Max]).clone();
            let o = b.un(Op::Fold { pers: pers1(r), f, replay: r.chance(3, 4) }, blocked);
            b.sink(o);
        }
        "reduce" => {
            let f = r.pick(&[RedFn::Sum, RedFn::Max, RedFn::Min]).clone();
            let o = b.un(Op::Reduce { pers: pers1(r), f, replay: true }, blocked);
            b.sink(o);
        }
        "sort" => {
            let o = b.un(Op::Sort, blocked);
            // the sorted stream is Seq again: an order-sensitive consumer makes a partial sort visible
            let o = b.un(Op::Enumerate { pers: vec![] }, o);
            b.sink(o);
        }
        "persist" => {
            let o = b.un(Op::Persist, blocked);
            let o = b.un(Op::Fold { pers: vec![], f: FoldFn::Sum, replay: true }, o);
            b.sink(o);
        }
        "fold_keyed" => {
            let k = b.un(Op::Map(MapFn::KeyMod(3)), blocked);
            let o = b.un(Op::FoldKeyed { pers: pers1(r), f: FoldFn::Sum }, k);
            b.sink(o);
        }
        "cross_singleton.single" => {
            let single = b.un(Op::Reduce { pers: vec![], f: RedFn::Max, replay: true }, blocked);
            let input = b.src(Ty::I);
            let o = b.bin(Op::CrossSingleton { pers: vec![] }, input, single);
            b.sink(o);
        }
        "singleton#ref" => {
            let f = b.un(Op::Fold { pers: pers1(r), f: FoldFn::Sum, replay: true }, blocked);
            let s = b.un(Op::Singleton, f);
            let reader = b.src(Ty::I);
            let rf = r.pick(&[RefFn::PairWith, RefFn::Add]).clone();
            let o = b.un(Op::RefMap { target: s.node, f: rf, group: None }, reader);
            b.sink(o);
            if r.chance(1, 2) {
                b.sink(s);
            }
        }
        "handoff#ref" => {
            let h = b.un(Op::Handoff, blocked);
            info.handoffs += 1;
            let reader = b.src(Ty::I);
            let rf = r.pick(&[RefFn::Len, RefFn::SumBuf]).clone();
            let o = b.un(Op::RefMap { target: h.node, f: rf, group: None }, reader);
            b.sink(o);
            if r.chance(1, 2) {
                b.sink(h);
            }
        }
        _ => {
            // emit-then-contradict probe: a streaming operator downstream of a blocking one
            let neg = blocked;
            let pos = b.src(Ty::I);
            let o = b.bin(Op::Difference { pers: vec![] }, pos, neg);
            let o = b.un(Op::Unique { pers: pers1(r) }, o);
            b.sink(o);
        }
    }
    let mut prog = b.prog();
    shuffle_order(r, &mut prog);
    if kind.ends_with("#ref") && r.chance(1, 2) {
        // declare the reference holder (and everything downstream of the last source) before the
        // referenced value's producers: the front end has to order them by the reference alone
        let first_reader = prog
            .nodes
            .iter()
            .rposition(|n| matches!(n.op, Op::SrcStream { .. }))
            .unwrap_or(0);
        let mut o: Vec<usize> = (first_reader..prog.nodes.len()).collect();
        o.extend(0..first_reader);
        prog.stmt_order = Some(o);
    }
    // scripts: small key domain so that the blocking side really decides the output
    let nscripts = 6;
    let mut scripts = vec![];
    for _ in 0..nscripts {
        let ticks = 2 + r.below(4);
        let mut steps = vec![];
        for _ in 0..ticks {
            let send = prog
                .sources
                .iter()
                .map(|ty| {
                    let n = r.below(5);
                    (0..n)
                        .map(|_| match ty {
                            Ty::I => Val::I(r.range(0, 5)),
                            _ => Val::p(r.range(0, 6), r.range(0, 3)),
                        })
                        .collect()
                })
                .collect();
            steps.push(Step { send, run: Run::Tick });
        }
        scripts.push(Script { steps });
    }
    let tags = vec![
        ("handoffs_on_blocking_path".to_string(), info.handoffs),
        ("long_branch_node".to_string(), info.long_branch),
        ("depth".to_string(), info.depth),
    ];
    (SemCase { prog, scripts, tags }, kind.to_string())
}

pub const C24_KINDS: &[&str] = &["series", "cycle", "lazy+nonlazy", "static-join", "double-cycle"];

pub fn gen_c24(r: &mut Rng, kind_hint: usize) -> (SemCase, String) {
    let mut b = B::new();
    let kind = C24_KINDS[kind_hint % C24_KINDS.len()];
    let defer = |r: &mut Rng| Op::DeferTick { lazy: r.chance(1, 3), back: None };
    let stateful = |r: &mut Rng, b: &mut B, e: Edge| -> Edge {
        match r.below(7) {
            0 => e,
            1 => b.un(Op::Fold { pers: pers1(r), f: FoldFn::Sum, replay: r.chance(1, 2) }, e),
            2 => b.un(Op::Unique { pers: pers1(r) }, e),
            3 => b.un(Op::Reduce { pers: pers1(r), f: RedFn::Max, replay: true }, e),
            4 => b.un(Op::Enumerate { pers: pers1(r) }, e),
            5 => b.un(Op::Scan { pers: pers1(r), f: ScanFn::RunSum }, e),
            _ => {
                let k = b.un(Op::Map(MapFn::KeyMod(2)), e);
                b.un(Op::FoldKeyed { pers: pers1(r), f: FoldFn::Sum }, k)
            }
        }
    };
    match kind {
        "series" => {
            let s = b.src(Ty::I);
            let t = b.tee(s, 2);
            b.sink(t[0]);
            let mut cur = t[1];
            if r.chance(1, 2) {
                cur = b.un(Op::Map(MapFn::AddC(1)), cur);
            }
            let k = 1 + r.below(4);
            for _ in 0..k {
                cur = b.un(defer(r), cur);
                if r.chance(1, 3) {
                    cur = b.un(Op::Identity { typed: false }, cur);
                }
            }
            let cur = stateful(r, &mut b, cur);
            b.sink(cur);
        }
        "cycle" | "double-cycle" => {
            // counter loop: items below the bound are incremented and fed back through a tick delay
            let s = b.src(Ty::I);
            let bound = r.range(2, 6);
            let step = r.range(1, 2);
            let lazy = r.chance(1, 4);
            // node indices: union (needs the back edge) comes first, the defer closes the cycle
            let u = b.push(Op::Union { n: 2 }, vec![s, Edge { node: usize::MAX, port: 0 }]);
            let t = b.tee(Edge { node: u, port: 0 }, 2);
            b.sink(t[0]);
            let f = b.un(Op::Filter(Pred::Lt(bound)), t[1]);
            let mut m = b.un(Op::Map(MapFn::AddC(step)), f);
            if kind == "double-cycle" {
                m = b.un(Op::DeferTick { lazy: false, back: None }, m);
            }
            let d = b.un(Op::DeferTick { lazy, back: Some(Ty::I) }, m);
            // move the defer in front of the union in index order: rebuild with the defer first
            let mut prog = b.prog();
            let d_idx = d.node;
            // rotate: place the back-edge defer at index 1 (after the source)
            let node = prog.nodes.remove(d_idx);
            prog.nodes.insert(1, node);
            let remap = |i: usize| -> usize {
                if i == d_idx {
                    1
                } else if i >= 1 && i < d_idx {
                    i + 1
                } else {
                    i
                }
            };
            for n in prog.nodes.iter_mut() {
                for e in n.ins.iter_mut() {
                    if e.node == usize::MAX {
                        e.node = 1;
                    } else {
                        e.node = remap(e.node);
                    }
                }
            }
            let mut prog = prog;
            shuffle_order(r, &mut prog);
            let scripts = c24_scripts(r, &prog, bound);
            return (SemCase { prog, scripts, tags: vec![] }, kind.to_string());
        }
        "lazy+nonlazy" => {
            let s = b.src(Ty::I);
            let t = b.tee(s, 3);
            b.sink(t[0]);
            let mut a = b.un(Op::DeferTick { lazy: false, back: None }, t[1]);
            if r.chance(1, 2) {
                a = b.un(Op::DeferTick { lazy: r.chance(1, 2), back: None }, a);
            }
            let a = stateful(r, &mut b, a);
            b.sink(a);
            let mut l = b.un(Op::DeferTick { lazy: true, back: None }, t[2]);
            if r.chance(1, 2) {
                l = b.un(Op::DeferTick { lazy: r.chance(1, 2), back: None }, l);
            }
            let l = stateful(r, &mut b, l);
            b.sink(l);
        }
        _ => {
            // a deferred stream joined with a 'static / 'tick remembered one
            let s0 = b.src(Ty::I);
            let s1 = b.src(Ty::I);
            let k0 = b.un(Op::Map(MapFn::KeyMod(2)), s0);
            let d = b.un(defer(r), k0);
            let k1 = b.un(Op::Map(MapFn::KeyMod(2)), s1);
            let j = b.bin(Op::Join { pers: pers2(r), multiset: r.chance(1, 2) }, d, k1);
            b.sink(j);
        }
    }
    let mut prog = b.prog();
    shuffle_order(r, &mut prog);
    let scripts = c24_scripts(r, &prog, 6);
    (SemCase { prog, scripts, tags: vec![] }, kind.to_string())
}

fn c24_scripts(r: &mut Rng, prog: &Prog, bound: i64) -> Vec<Script> {
    let mut scripts = vec![];
    for k in 0..8 {
        let steps_n = 1 + r.below(6);
        let mode = k % 3; // 0: run_tick, 1: run_available, 2: mixed
        let mut steps = vec![];
        for _ in 0..steps_n {
            let send = prog
                .sources
                .iter()
                .map(|ty| {
                    let n = if r.chance(1, 3) { 0 } else { r.below(4) };
                    (0..n)
                        .map(|_| match ty {
                            Ty::I => Val::I(r.range(0, bound)),
                            _ => rand_item(r, ty),
                        })
                        .collect()
                })
                .collect();
            let run = match mode {
                0 => Run::Tick,
                1 => Run::Available,
                _ => {
                    if r.chance(1, 2) {
                        Run::Tick
                    } else {
                        Run::Available
                    }
                }
            };
            steps.push(Step { send, run });
        }
        scripts.push(Script { steps });
    }
    scripts
}

/// C25: one or two singleton()/handoff() targets fed by a same-tick pipeline, 2-5 reference
/// holders with access groups (readers may share a group, a writer is alone in its group), each
/// fed by its own source; optionally the pipe consumer of the target.
pub fn gen_c25(r: &mut Rng, _hint: usize) -> (SemCase, String) {
    let mut b = B::new();
    let ntargets = 1 + r.below(2);
    let mut tags = vec![];
    let mut kinds = vec![];
    for _t in 0..ntargets {
        let nfeed = 1 + r.below(2);
        let ins: Vec<Edge> = (0..nfeed).map(|_| b.src(Ty::I)).collect();
        let mut info = DeepInfo { handoffs: 0, long_branch: -1, depth: 0 };
        let depth = 1 + r.below(5);
        let fed = deep(r, &mut b, ins, depth, &mut info);
        let singleton = r.chance(1, 2);
        let target = if singleton {
            let f = b.un(Op::Fold { pers: pers1(r), f: FoldFn::Sum, replay: true }, fed);
            b.un(Op::Singleton, f)
        } else {
            b.un(Op::Handoff, fed)
        };
        kinds.push(if singleton { "singleton" } else { "handoff" });
        let nh = 2 + r.below(4);
        let grouped = r.chance(6, 7);
        // holder kinds
        let mut holders: Vec<(RefFn, Option<u32>)> = vec![];
        if grouped {
            let mut g = r.below(2) as u32;
            let mut prev_write = false;
            for k in 0..nh {
                let write = r.chance(2, 5);
                let f = if singleton {
                    if write {
                        RefFn::MulAdd(r.range(2, 3))
                    } else {
                        r.pick(&[RefFn::PairWith, RefFn::Add]).clone()
                    }
                } else if write {
                    r.pick(&[RefFn::Push, RefFn::Retain]).clone()
                } else {
                    r.pick(&[RefFn::Len, RefFn::SumBuf]).clone()
                };
                // a writer is alone in its group; readers may share the previous reader's group
                if k > 0 && (write || prev_write || r.chance(2, 3)) {
                    g += 1 + r.below(3) as u32;
                }
                holders.push((f, Some(g)));
                prev_write = write;
            }
        } else if r.chance(1, 2) {
            // ungrouped: readers only
            for _ in 0..nh {
                let f = if singleton {
                    r.pick(&[RefFn::PairWith, RefFn::Add]).clone()
                } else {
                    r.pick(&[RefFn::Len, RefFn::SumBuf]).clone()
                };
                holders.push((f, None));
            }
        } else {
            // ungrouped: a single writer
            let f = if singleton { RefFn::MulAdd(3) } else { r.pick(&[RefFn::Push, RefFn::Retain]).clone() };
            holders.push((f, None));
        }
        // non-triviality: >= 3 groups with a writer between two readers
        let mut groups: Vec<(u32, bool)> = vec![];
        for (f, g) in &holders {
            if let Some(g) = g {
                if groups.last().map(|x| x.0) != Some(*g) {
                    groups.push((*g, f.is_write()));
                }
            }
        }
        let mut sandwiched = false;
        for i in 1..groups.len().saturating_sub(1) {
            if groups[i].1 && groups[..i].iter().any(|x| !x.1) && groups[i + 1..].iter().any(|x| !x.1) {
                sandwiched = true;
            }
        }
        tags.push(("writer_between_readers".to_string(), sandwiched as i64));
        tags.push(("groups".to_string(), groups.len() as i64));
        for (f, g) in holders {
            let s = b.src(Ty::I);
            let o = b.un(Op::RefMap { target: target.node, f, group: g }, s);
            b.sink(o);
        }
        if r.chance(2, 3) {
            b.sink(target);
        }
    }
    let mut prog = b.prog();
    // declaration order of the statements is irrelevant: groups are numbered
    let mut o: Vec<usize> = (0..prog.nodes.len()).collect();
    for i in (1..o.len()).rev() {
        o.swap(i, r.below(i + 1));
    }
    prog.stmt_order = Some(o);
    let mut scripts = vec![];
    for _ in 0..8 {
        let ticks = 2 + r.below(4);
        let mut steps = vec![];
        for _ in 0..ticks {
            let send = prog
                .sources
                .iter()
                .map(|_| {
                    let n = r.below(5);
                    (0..n).map(|_| Val::I(r.range(0, 5))).collect()
                })
                .collect();
            steps.push(Step { send, run: Run::Tick });
        }
        scripts.push(Script { steps });
    }
    (SemCase { prog, scripts, tags }, kinds.join("+"))
}
