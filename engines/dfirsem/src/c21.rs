//! C21 — operators compute their documented per-tick results (random programs x random per-tick
//! input histories vs. the reference interpreter).

use crate::gen::{gen_history, gen_prog, script_of_history, Coverage, GenCfg, Rng};
use crate::interp::Run;
use crate::reduce::reduce;
use crate::sem::*;
use serde_json::json;
use std::collections::BTreeSet;
use vcommon::{hash64, Ctx, Fail, Obs, Tier};

pub const SUB: &str = "interp-vs-compiled";
pub const SUB_CELLS: &str = "operator-cells";

fn filler_prog() -> crate::ir::Prog {
    use crate::ir::*;
    Prog {
        nodes: vec![
            Node { op: Op::SrcStream { src: 0, ty: Ty::I }, ins: vec![] },
            Node { op: Op::ForEach { sink: 0 }, ins: vec![Edge { node: 0, port: 0 }] },
        ],
        sources: vec![Ty::I],
        stmt_order: None,
    }
}

pub fn nontrivial_c21(p: &Prepared, si: usize) -> bool {
    let has_static = p.case.prog.nodes.iter().any(|n| n.op.has_static_state());
    let script = &p.case.scripts[si];
    let nonempty_ticks = script.steps.iter().filter(|s| s.send.iter().any(|v| !v.is_empty())).count();
    let out_ticks: BTreeSet<u64> = p.expected[si].log.iter().map(|(t, _, _)| *t).collect();
    has_static && nonempty_ticks >= 2 && out_ticks.len() >= 2
}

pub fn run(ctx: &mut Ctx) {
    ctx.rule = "Cases are (generated DFIR program, per-tick input history) pairs, compiled by rustc through dfir_syntax!, \
run tick by tick, every (tick, sink) output group compared with a reference interpreter written from the operator \
documentation (sequence for Seq sinks, multiset for Bag sinks). Two generators: `operator-cells` - for every (operator, \
persistence) cell of the operator table a minimal program sources -> [type adapters] -> operator -> sinks, once as is and, \
for unary operators, once behind tee() (push side), on dense histories (5-8 ticks over a tiny item domain); \
`interp-vs-compiled` - random programs drawn by a seeded, coverage-table-driven generator over a typed IR (item universe \
i64 / (i64,i64) plus the transient types operators produce, fixed closure menus, order classes Seq/Bag) with 3-8 tick \
histories. A case is non-trivial iff the program contains a stateful operator with 'static persistence (or inherent \
cross-tick state) on some argument, the history has >= 2 non-empty ticks and the expected output is non-empty in >= 2 \
ticks; cases are distinct by structural hash of (program IR, history)."
        .into();
    ctx.assume("closures are taken from a fixed menu that is total and overflow-free inside the value envelope |v| <= 2^40 (cases leaving it are excluded and counted)");
    ctx.assume("order-sensitive operators are only applied to streams whose order is documented (order classes); behaviour the docs leave open is not modelled");
    ctx.assume("rustc/front-end rejections of generated programs are generator typing bugs: excluded and counted, inconclusive above 5 %");
    if ctx.is_replay() {
        ctx.check_all::<SemCase, _, _>(SUB, Vec::<SemCase>::new(), |case: &SemCase, obs: &mut Obs| {
            run_single("C21-replay", case, obs)
        });
        ctx.check_all::<SemCase, _, _>(SUB_CELLS, Vec::<SemCase>::new(), |case: &SemCase, obs: &mut Obs| {
            run_single("C21-replay", case, obs)
        });
        replay_probe(ctx, "C21-replay");
        return;
    }
    let tier = ctx.tier();
    let cfg = GenCfg { max_ops: tier.pick(8, 12), ..GenCfg::default() };
    let n_hist = tier.pick(6, 32);
    // (1) every (operator, persistence) cell in isolation, pull side and behind tee()
    {
        let mut rng0 = Rng::new(ctx.seed_for(SUB_CELLS) ^ 0x5151);
        let mut cells = crate::gen::gen_cell_progs(&mut rng0);
        cells.reverse();
        let labels: std::cell::RefCell<std::collections::BTreeMap<u64, String>> = Default::default();
        let n_cells = cells.len();
        let cell_hist = tier.pick(5, 24);
        let floor_before = ctx.floor;
        drive(
            ctx,
            Drive { extra_prefix: "cells_", sub: SUB_CELLS, batch: format!("C21-{}-cells", tier.name()), n_prog: n_cells, chunk: 320, floor: 0 },
            |rng, _cov| match cells.pop() {
                Some((prog, label)) => {
                    labels.borrow_mut().insert(hash64(&prog), label);
                    let scripts = (0..cell_hist)
                        .map(|_| script_of_history(&crate::gen::gen_history_dense(rng, &prog.sources), Run::Tick))
                        .collect();
                    SemCase { prog, scripts, tags: vec![] }
                }
                // the list is exhausted (duplicates were skipped): hand out a trivial filler that is
                // de-duplicated immediately
                None => SemCase { prog: filler_prog(), scripts: vec![], tags: vec![] },
            },
            nontrivial_c21,
            |p, _si| vec![format!("cell:{}", labels.borrow().get(&hash64(&p.case.prog)).cloned().unwrap_or_default())],
        );
        ctx.floor = floor_before;
    }
    // (2) random programs
    drive(
        ctx,
        Drive { extra_prefix: "", sub: SUB, batch: format!("C21-{}", tier.name()), n_prog: tier.pick(40, 1500), chunk: tier.pick(40, 250), floor: tier.pick(40, 1000) },
        |rng, cov| {
            let prog = gen_prog(rng, cov, &cfg);
            let scripts = (0..n_hist)
                .map(|_| script_of_history(&gen_history(rng, &prog.sources, 3, 8), Run::Tick))
                .collect();
            SemCase { prog, scripts, tags: vec![] }
        },
        nontrivial_c21,
        |p, _si| {
            let mut classes = vec![];
            for n in &p.case.prog.nodes {
                if n.op.is_stateful() {
                    classes.push(n.op.label());
                }
            }
            classes.sort();
            classes.dedup();
            classes
        },
    );
}

pub struct Drive {
    /// prefix for the keys of the evidence extras ("" for the main sub-check)
    pub extra_prefix: &'static str,
    pub sub: &'static str,
    pub batch: String,
    pub n_prog: usize,
    pub chunk: usize,
    pub floor: u64,
}

/// Generic driver for interpreter-oracle properties: generate cases, compile in chunks, compare,
/// reduce + report failures, run the known-finding probes, fill the evidence extras.
pub fn drive(
    ctx: &mut Ctx,
    d: Drive,
    mut gen_case: impl FnMut(&mut Rng, &Coverage) -> SemCase,
    nontrivial: impl Fn(&Prepared, usize) -> bool,
    classes: impl Fn(&Prepared, usize) -> Vec<String>,
) {
    let tier = ctx.tier();
    ctx.floor = d.floor;
    let mut rng = Rng::new(ctx.seed_for(d.sub));
    let mut cov = Coverage::default();
    let mut stats = SemStats::default();
    let mut seen = BTreeSet::new();
    let mut generated = 0u64;
    let mut all_failures: Vec<Failure> = vec![];
    let mut remaining = d.n_prog;
    let mut nt_by_class: std::collections::BTreeMap<String, u64> = Default::default();
    while remaining > 0 {
        let this = remaining.min(d.chunk);
        remaining -= this;
        let mut prepared = vec![];
        let mut guard = 0;
        while prepared.len() < this && guard < this * 30 {
            guard += 1;
            let case = gen_case(&mut rng, &cov);
            if !seen.insert(hash64(&case.prog)) {
                continue;
            }
            generated += 1;
            cov.note_prog(&case.prog);
            if let Some(p) = prepare(case, &mut stats) {
                note_roles(&mut cov, &p);
                prepared.push(p);
            }
        }
        let mut evals: Vec<(usize, usize, u64, bool, Vec<String>)> = vec![];
        let fails = match run_prepared(&d.batch, &prepared, &mut stats, |k, si, p, _r| {
            let h = hash64(&(&p.case.prog, &p.case.scripts[si]));
            evals.push((k, si, h, nontrivial(p, si), classes(p, si)));
        }) {
            Ok(f) => f,
            Err(e) => {
                ctx.inconclusive(format!("batch infrastructure failure: {e}"));
                break;
            }
        };
        for (k, si, h, nt, cls) in evals {
            let mut obs = Obs::default();
            obs.nontrivial(nt);
            for c in cls {
                if nt {
                    *nt_by_class.entry(c.clone()).or_default() += 1;
                }
                obs.class(c);
            }
            let p = &prepared[k];
            ctx.record(d.sub, h, &obs, || {
                json!({"program": p.dfir, "script": crate::gen::script_wire(&p.case.scripts[si])})
            });
        }
        all_failures.extend(fails);
        if !all_failures.is_empty() {
            break;
        }
    }
    report_failures(ctx, d.sub, &d.batch, all_failures, tier);
    if ctx.prop() == "C21" && d.extra_prefix.is_empty() {
        run_probes(ctx, &format!("{}-probes", d.batch), &mut stats);
    }
    let px = d.extra_prefix;
    ctx.extra.insert(format!("{px}coverage_table"), cov.to_json());
    ctx.extra.insert(format!("{px}nontrivial_by_class"), json!(nt_by_class));
    ctx.extra.insert(format!("{px}pipeline"), stats_json(&stats));
    ctx.extra.insert(format!("{px}programs_generated"), json!(generated));
    conclude(ctx, &stats, generated);
}

/// Reduce (bounded) and report failures; at most 3 distinct signatures are minimised.
pub fn report_failures(ctx: &mut Ctx, sub: &str, batch_name: &str, failures: Vec<Failure>, tier: Tier) {
    let mut done = BTreeSet::new();
    for f in failures {
        let sig0 = failure_sig(ctx.prop(), &f);
        if ctx.is_known(&sig0) {
            ctx.report(sub, &Fail::new(sig0, describe(&f.case, f.script_idx, &f.mismatch)), serde_json::Value::Null);
            continue;
        }
        if done.len() >= 2 {
            break;
        }
        // bounded delta debugging (DFIRSEM_NO_REDUCE=1 skips it, e.g. for mutation smoke runs)
        let rounds = if std::env::var("DFIRSEM_NO_REDUCE").is_ok() { 0 } else { tier.pick(4, 8) };
        let (rp, rs, compiles) = reduce(
            &format!("{batch_name}-reduce"),
            &f.case.prog,
            &f.case.scripts[f.script_idx],
            &f.mismatch.kind,
            rounds,
        );
        let reduced = SemCase { prog: rp, scripts: vec![rs], tags: vec![] };
        // re-run the reduced case to get its own message / signature
        let mut obs = Obs::default();
        let fail = match run_single(&format!("{batch_name}-reduce"), &reduced, &mut obs) {
            Err(fl) if fl.sig.starts_with("mismatch:") => (fl, reduced),
            _ => (
                Fail::new(sig0.clone(), describe(&f.case, f.script_idx, &f.mismatch)),
                SemCase { prog: f.case.prog.clone(), scripts: vec![f.case.scripts[f.script_idx].clone()], tags: vec![] },
            ),
        };
        let (mut fl, case) = fail;
        fl.msg = format!("{}\n(reduced with {compiles} recompiles)", fl.msg);
        if !done.insert(fl.sig.clone()) {
            continue;
        }
        ctx.report(sub, &fl, serde_json::to_value(&case).unwrap());
    }
}

pub const SUB_PROBE: &str = "known-probe";

/// Re-confirm every known finding on the current tree with its fixed minimal program; a probe
/// that fails is reported under the finding's exact signature (KNOWN-FINDING when listed).
pub fn run_probes(ctx: &mut Ctx, batch_name: &str, stats: &mut SemStats) {
    let probes = crate::known::probes();
    let mut prepared = vec![];
    let mut idx = vec![];
    for (k, pr) in probes.iter().enumerate() {
        if let Some(p) = prepare_opts(pr.case.clone(), stats, true) {
            prepared.push(p);
            idx.push(k);
        }
    }
    if prepared.is_empty() {
        return;
    }
    let mut evals = vec![];
    let fails = match run_prepared(batch_name, &prepared, stats, |k, si, p, r| {
        evals.push((k, hash64(&(&p.case.prog, &p.case.scripts[si])), r.is_ok()));
    }) {
        Ok(f) => f,
        Err(e) => {
            ctx.inconclusive(format!("probe batch infrastructure failure: {e}"));
            return;
        }
    };
    for (_, h, _) in &evals {
        let mut obs = Obs::default();
        obs.nontrivial(true);
        obs.class("known-finding-probe");
        ctx.record(SUB_PROBE, *h, &obs, || serde_json::Value::Null);
    }
    for f in fails {
        let Some(pi) = prepared.iter().position(|p| p.case == f.case) else { continue };
        let pr = &probes[idx[pi]];
        let msg = format!("{}\n{}", pr.what, describe(&f.case, f.script_idx, &f.mismatch));
        ctx.report(SUB_PROBE, &Fail::new(pr.sig, msg), serde_json::to_value(&f.case).unwrap());
    }
}

pub fn replay_probe(ctx: &mut Ctx, batch: &str) {
    let batch = batch.to_string();
    ctx.check_all::<SemCase, _, _>(SUB_PROBE, Vec::<SemCase>::new(), move |case: &SemCase, obs: &mut Obs| {
        match run_single(&batch, case, obs) {
            Ok(()) => Ok(()),
            Err(f) => {
                let sig = crate::known::probes()
                    .into_iter()
                    .find(|p| p.case == *case)
                    .map(|p| p.sig.to_string())
                    .unwrap_or(f.sig.clone());
                Err(Fail::new(sig, f.msg))
            }
        }
    });
}
