//! Shared driver for the properties whose oracle is the reference interpreter (C21, C23, C24):
//! a set of (program, scripts) cases is compiled in one batch crate, run, and compared.

use crate::analysis::{analyze, Analysis};
use crate::batch::{run_batch, BatchOut, RunRes, Unit};
use crate::compare::{compare, Mismatch};
use crate::emit::{dfir_text, program_module};
use crate::gen::{script_wire, Coverage};
use crate::interp::{run_script, Expected, Script};
use crate::ir::*;
use crate::shape::{inspect, Role, Shape, Verdict};
use serde::{Deserialize, Serialize};
use serde_json::json;
use vcommon::{Ctx, Fail, Obs};

#[derive(Clone, Debug, PartialEq, Eq, Hash, Serialize, Deserialize)]
pub struct SemCase {
    pub prog: Prog,
    pub scripts: Vec<Script>,
    /// generator annotations used by non-triviality rules (name, node index / count)
    #[serde(default)]
    pub tags: Vec<(String, i64)>,
}

pub struct Prepared {
    pub case: SemCase,
    pub analysis: Analysis,
    pub expected: Vec<Expected>,
    pub shape: Option<Shape>,
    pub dfir: String,
}

#[derive(Default)]
pub struct SemStats {
    pub programs: u64,
    pub frontend_rejected: Vec<(String, String)>,
    pub rustc_rejected: Vec<(String, String)>,
    pub envelope_scripts: u64,
    pub envelope_reasons: std::collections::BTreeMap<String, u64>,
    /// programs skipped because a known, separately reported limitation applies
    pub known_limit: std::collections::BTreeMap<String, u64>,
    pub hangs: u64,
    pub missing: u64,
    pub build_s: f64,
    pub run_s: f64,
    pub build_rounds: u32,
}

pub struct Failure {
    pub case: SemCase,
    pub script_idx: usize,
    pub mismatch: Mismatch,
}

/// Evaluate the model on every script; scripts that leave the model's envelope are dropped.
pub fn prepare(case: SemCase, stats: &mut SemStats) -> Option<Prepared> {
    prepare_opts(case, stats, false)
}

/// `probe = true`: do not apply the known-finding exclusions (used for the probes themselves and
/// for replay).
pub fn prepare_opts(case: SemCase, stats: &mut SemStats, probe: bool) -> Option<Prepared> {
    let analysis = match analyze(&case.prog) {
        Ok(a) => a,
        Err(e) => panic!("case outside the generated domain: {e}"),
    };
    let mut scripts = vec![];
    let mut expected = vec![];
    for s in &case.scripts {
        let ex = run_script(&case.prog, s);
        if let Some(why) = &ex.invalid {
            stats.envelope_scripts += 1;
            *stats.envelope_reasons.entry(why.clone()).or_default() += 1;
            continue;
        }
        scripts.push(s.clone());
        expected.push(ex);
    }
    if scripts.is_empty() {
        return None;
    }
    let d = dfir_text(&case.prog).expect("analysed");
    let shape = match inspect(&d) {
        Verdict::Accept(s) => Some(s),
        Verdict::Reject(msg) => {
            stats.frontend_rejected.push((d.text.clone(), msg));
            return None;
        }
    };
    // multiset_delta realised as a push operator does not type-check (its generated closure calls
    // a method on an item whose type rustc cannot know yet, and the operator takes no type
    // argument): reported under C22 (accept/reject disagreement); skipped everywhere else.
    if let (Some(sh), false) = (&shape, probe) {
        if let Some(why) = crate::known::excluded_by_known_finding(&case.prog, sh) {
            *stats.known_limit.entry(why.into()).or_default() += 1;
            return None;
        }
    }
    if let Some(sh) = &shape {
        for (idx, (role, _)) in &sh.nodes {
            if matches!(case.prog.nodes[*idx].op, Op::MultisetDelta) && *role == Role::Push {
                *stats.known_limit.entry("multiset_delta-on-push-side-does-not-typecheck".into()).or_default() += 1;
                return None;
            }
        }
    }
    Some(Prepared { case: SemCase { prog: case.prog, scripts, tags: case.tags }, analysis, expected, shape, dfir: d.text })
}

pub fn note_roles(cov: &mut Coverage, p: &Prepared) {
    if let Some(sh) = &p.shape {
        for (idx, (role, _)) in &sh.nodes {
            let label = p.case.prog.nodes[*idx].op.label();
            let e = cov.role.entry(label).or_default();
            match role {
                Role::Pull => e.0 += 1,
                Role::Push => e.1 += 1,
                Role::Unknown => {}
            }
        }
    }
}

/// Compile + run all prepared cases in one batch; returns per-case failures (first failing
/// script of each program) and calls `on_eval` for every compared (case, script).
pub fn run_prepared(
    batch_name: &str,
    prepared: &[Prepared],
    stats: &mut SemStats,
    mut on_eval: impl FnMut(usize, usize, &Prepared, &Result<(), Mismatch>),
) -> Result<Vec<Failure>, String> {
    let mut units = vec![];
    for (k, p) in prepared.iter().enumerate() {
        units.push(Unit {
            id: k as u64,
            source: program_module(&p.case.prog).expect("analysed"),
            scripts: p.case.scripts.iter().map(script_wire).collect(),
        });
    }
    let out: BatchOut = run_batch(batch_name, &units)?;
    stats.build_s += out.build_s;
    stats.run_s += out.run_s;
    stats.build_rounds += out.build_rounds;
    stats.programs += prepared.len() as u64;
    let mut failures = vec![];
    for (k, p) in prepared.iter().enumerate() {
        if let Some(msg) = out.rejected.get(&(k as u64)) {
            stats.rustc_rejected.push((p.dfir.clone(), msg.clone()));
            continue;
        }
        let mut failed = false;
        for (si, ex) in p.expected.iter().enumerate() {
            let res = out.runs.get(&(k as u64, si)).cloned().unwrap_or(RunRes::Missing);
            match res {
                RunRes::Hang => {
                    stats.hangs += 1;
                    continue;
                }
                RunRes::Missing => {
                    stats.missing += 1;
                    continue;
                }
                _ => {}
            }
            let r = compare(&p.case.prog, &p.analysis, ex, &res);
            on_eval(k, si, p, &r);
            if let Err(m) = r {
                if !failed {
                    failed = true;
                    failures.push(Failure { case: p.case.clone(), script_idx: si, mismatch: m });
                }
            }
        }
    }
    Ok(failures)
}

pub fn failure_sig(prop: &str, f: &Failure) -> String {
    let _ = prop;
    format!("mismatch:{}:{}", f.mismatch.kind, f.case.prog.stateful_sig())
}

pub fn describe(case: &SemCase, script_idx: usize, m: &Mismatch) -> String {
    let d = dfir_text(&case.prog).map(|d| d.text).unwrap_or_default();
    format!(
        "{}\nprogram:\n{}script #{script_idx}: {}",
        m.detail,
        d,
        script_wire(&case.scripts[script_idx])
    )
}

/// Replay / single-case entry: run exactly this case in a one-program crate.
pub fn run_single(batch_name: &str, case: &SemCase, obs: &mut Obs) -> Result<(), Fail> {
    let mut stats = SemStats::default();
    let Some(p) = prepare_opts(case.clone(), &mut stats, true) else {
        return Err(Fail::new("replay:not-runnable", "the replayed case is rejected by the front end or leaves the model envelope"));
    };
    let prepared = vec![p];
    let fails = run_prepared(batch_name, &prepared, &mut stats, |_, _, _, _| {})
        .map_err(|e| Fail::new("infrastructure", e))?;
    obs.nontrivial(true);
    if let Some((_, msg)) = stats.rustc_rejected.first() {
        return Err(Fail::new("replay:rustc-rejected", msg.clone()));
    }
    match fails.into_iter().next() {
        None => Ok(()),
        Some(f) => Err(Fail::new(failure_sig("", &f), describe(&f.case, f.script_idx, &f.mismatch))),
    }
}

pub fn stats_json(stats: &SemStats) -> serde_json::Value {
    json!({
        "programs_compiled": stats.programs,
        "frontend_rejected": stats.frontend_rejected.len(),
        "frontend_rejected_samples": stats.frontend_rejected.iter().take(3).map(|(p, m)| json!({"program": p, "message": m})).collect::<Vec<_>>(),
        "rustc_rejected": stats.rustc_rejected.len(),
        "rustc_rejected_samples": stats.rustc_rejected.iter().take(3).map(|(p, m)| json!({"program": p, "message": m})).collect::<Vec<_>>(),
        "scripts_outside_model_envelope": stats.envelope_scripts,
        "envelope_reasons": stats.envelope_reasons,
        "skipped_known_limitations": stats.known_limit,
        "hangs": stats.hangs,
        "missing_outputs": stats.missing,
        "build_s": stats.build_s,
        "run_s": stats.run_s,
        "build_rounds": stats.build_rounds,
    })
}

/// Common verdict bookkeeping: generator typing bugs above 5 % or infrastructure trouble make the
/// run inconclusive (never a violation).
pub fn conclude(ctx: &mut Ctx, stats: &SemStats, generated: u64) {
    let rejected = (stats.frontend_rejected.len() + stats.rustc_rejected.len()) as u64;
    ctx.count_excluded("generator-typing-bug(front end rejected)", stats.frontend_rejected.len() as u64);
    ctx.count_excluded("generator-typing-bug(rustc rejected)", stats.rustc_rejected.len() as u64);
    ctx.count_excluded("script-outside-model-envelope", stats.envelope_scripts);
    for (k, v) in &stats.known_limit {
        ctx.count_excluded(k, *v);
    }
    // template families (C23-C26) only emit program shapes that are known to compile on the
    // unchanged tree: there, any rejection makes the run inconclusive; for the random generators
    // (C21/C22) the budget is 5 %.
    let strict = !matches!(ctx.prop(), "C21" | "C22");
    if generated > 0 && (rejected * 20 > generated || (strict && rejected > 0)) {
        ctx.inconclusive(format!(
            "{rejected} of {generated} generated programs were rejected by the front end / rustc{}",
            if strict { " (template programs are expected to compile)" } else { " (> 5 %): generator typing bugs" }
        ));
    }
    if stats.hangs > 0 {
        ctx.inconclusive(format!("{} program runs hit the watchdog", stats.hangs));
    }
    if stats.missing > 0 {
        ctx.inconclusive(format!("{} program runs produced no output line", stats.missing));
    }
}
