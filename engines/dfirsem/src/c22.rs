//! C22 — results do not depend on pull/push placement or subgraph shape: a program and
//! shape-perturbed variants of it must get the same verdict from the front end and from rustc, and
//! must produce the same per-tick sink outputs on the same input histories.

use crate::analysis::{analyze, Ord_};
use crate::batch::{run_batch, RunRes, Unit};
use crate::compare::{diff_groups, group_actual, group_expected, normalise, sink_orders};
use crate::emit::{dfir_text, program_module};
use crate::gen::{gen_history, gen_prog, script_of_history, script_wire, Coverage, GenCfg, Rng};
use crate::interp::{run_script, Run, Script, Step};
use crate::ir::*;
use crate::rewrite::make_variant;
use crate::shape::{inspect, Role, Shape, Verdict};
use serde::{Deserialize, Serialize};
use serde_json::json;
use std::collections::{BTreeMap, BTreeSet};
use vcommon::{hash64, Ctx, Fail, Obs};

pub const SUB: &str = "variants-agree";
pub const SUB_PROBE: &str = "known-probe";
pub const SUB_CELLS: &str = "operator-cell-twins";

#[derive(Clone, Debug, PartialEq, Eq, Hash, Serialize, Deserialize)]
pub struct Case22 {
    /// programs[0] is the base, the rest are its variants
    pub programs: Vec<Prog>,
    pub descs: Vec<Vec<String>>,
    pub scripts: Vec<Script>,
}

pub const SIG_MSD_PUSH: &str = "multiset_delta:push-side:rejected-by-rustc-while-pull-side-compiles";
pub const SIG_SC_CROSS_SINGLETON: &str = "cross_singleton:short-circuit:upstream-lazy-state-skipped-when-single-empty";
pub const SIG_SC_CHAIN_FIRST_N: &str = "chain_first_n:short-circuit:upstream-lazy-state-skipped-beyond-n";
pub const SIG_RNR_PUSH: &str = "reduce_no_replay:push-side:single-new-item-in-a-later-tick-not-emitted";

struct Member {
    verdict: Verdict,
    dfir: String,
}

/// Known findings that make a group unusable for the random search (they have their own probes).
fn known_exclusion(progs: &[Prog], members: &[Member]) -> Option<&'static str> {
    for (p, m) in progs.iter().zip(members) {
        if let Verdict::Accept(sh) = &m.verdict {
            for (idx, (role, _)) in &sh.nodes {
                if *role == Role::Push {
                    match p.nodes[*idx].op {
                        Op::MultisetDelta => return Some("known-finding:multiset_delta-on-push-side"),
                        Op::Reduce { replay: false, .. } => return Some("known-finding:reduce_no_replay-on-push-side"),
                        _ => {}
                    }
                }
            }
        }
    }
    None
}

/// Did some stateful operator of the base change its pull/push role or its subgraph neighbourhood?
fn role_changed(base: &Prog, bs: &Shape, var: &Prog, vs: &Shape, origin: &[Option<usize>]) -> bool {
    // base node -> set of base nodes in its subgraph (through the origin map for the variant)
    let neigh = |sh: &Shape, map: &dyn Fn(usize) -> Option<usize>| -> BTreeMap<usize, (Role, BTreeSet<usize>)> {
        let mut by_sg: BTreeMap<usize, BTreeSet<usize>> = BTreeMap::new();
        for (idx, (_, sg)) in &sh.nodes {
            if let Some(b) = map(*idx) {
                by_sg.entry(*sg).or_default().insert(b);
            }
        }
        let mut out = BTreeMap::new();
        for (idx, (role, sg)) in &sh.nodes {
            if let Some(b) = map(*idx) {
                out.entry(b).or_insert((role.clone(), by_sg[sg].clone()));
            }
        }
        out
    };
    let nb = neigh(bs, &|i| Some(i));
    let nv = neigh(vs, &|i| origin.get(i).copied().flatten());
    let _ = var;
    for (i, n) in base.nodes.iter().enumerate() {
        if !n.op.is_stateful() {
            continue;
        }
        match (nb.get(&i), nv.get(&i)) {
            (Some(a), Some(b)) if a != b => return true,
            _ => {}
        }
    }
    false
}

struct GroupPlan {
    /// which sub-check the group belongs to
    sub: &'static str,
    case: Case22,
    members: Vec<Member>,
    origins: Vec<Vec<Option<usize>>>,
    nontrivial: Vec<bool>,
}

fn sink_ord_weakest(progs: &[Prog]) -> BTreeMap<usize, Ord_> {
    let mut m: BTreeMap<usize, Ord_> = BTreeMap::new();
    for p in progs {
        if let Ok(a) = analyze(p) {
            for (s, o) in sink_orders(p, &a) {
                let e = m.entry(s).or_insert(o);
                if o == Ord_::Bag {
                    *e = Ord_::Bag;
                }
            }
        }
    }
    m
}

/// Evaluate one group given the batch results. Returns Err(Fail) on disagreement.
fn judge(
    g: &GroupPlan,
    rejected: &BTreeMap<usize, String>,
    runs: &BTreeMap<(usize, usize), RunRes>,
    on_eval: &mut dyn FnMut(usize, usize),
) -> Result<(), (Fail, usize, Option<usize>)> {
    let progs = &g.case.programs;
    let stateful = progs[0].stateful_sig();
    // (i) front-end verdicts
    let accepts: Vec<bool> = g.members.iter().map(|m| matches!(m.verdict, Verdict::Accept(_))).collect();
    if accepts.iter().any(|a| *a != accepts[0]) {
        let k = accepts.iter().position(|a| *a != accepts[0]).unwrap();
        let why = |m: &Member| match &m.verdict {
            Verdict::Reject(s) => format!("rejected: {s}"),
            _ => "accepted".to_string(),
        };
        return Err((Fail::new(
            format!("variants-disagree:front-end-verdict:{stateful}"),
            format!(
                "the front end {} the base program but {} variant {k} ({:?})\nbase:\n{}variant:\n{}",
                why(&g.members[0]),
                why(&g.members[k]),
                g.case.descs[k],
                g.members[0].dfir,
                g.members[k].dfir
            ),
        ), k, None));
    }
    if !accepts[0] {
        return Ok(()); // all rejected alike
    }
    // rustc verdicts
    let rj: Vec<bool> = (0..progs.len()).map(|k| rejected.contains_key(&k)).collect();
    if rj.iter().any(|a| *a != rj[0]) {
        let k = rj.iter().position(|a| *a != rj[0]).unwrap();
        let (bad, _good) = if rj[0] { (0, k) } else { (k, 0) };
        return Err((Fail::new(
            format!("variants-disagree:rustc-verdict:{stateful}"),
            format!(
                "rustc accepts one of base/variant {k} ({:?}) and rejects the other:\n{}\nbase:\n{}variant:\n{}",
                g.case.descs[k], rejected[&bad], g.members[0].dfir, g.members[k].dfir
            ),
        ), k, None));
    }
    if rj[0] {
        return Ok(());
    }
    // (ii) outputs
    let ord = sink_ord_weakest(progs);
    for si in 0..g.case.scripts.len() {
        let mut groups = vec![];
        let mut ticks = vec![];
        for k in 0..progs.len() {
            match runs.get(&(k, si)) {
                Some(RunRes::Ok { log, ticks: t }) => {
                    let mut gr = group_actual(log).map_err(|e| (Fail::new("decode", e), k.max(1), Some(si)))?;
                    normalise(&mut gr, &ord);
                    groups.push(Ok(gr));
                    ticks.push(t.clone());
                }
                Some(RunRes::Panic(m)) => {
                    groups.push(Err(m.clone()));
                    ticks.push(vec![]);
                }
                _ => return Ok(()), // hang / missing: handled as inconclusive by the caller
            }
        }
        for k in 1..progs.len() {
            on_eval(k, si);
            let differ = match (&groups[0], &groups[k]) {
                (Ok(a), Ok(b)) => diff_groups(a, b, "base emitted", "variant emitted")
                    .or_else(|| (ticks[0] != ticks[k]).then(|| format!("tick counters differ: {:?} vs {:?}", ticks[0], ticks[k]))),
                (Err(a), Err(_)) => {
                    let _ = a;
                    None
                }
                (Ok(_), Err(m)) => Some(format!("the variant panicked ({m}) but the base did not")),
                (Err(m), Ok(_)) => Some(format!("the base panicked ({m}) but the variant did not")),
            };
            if let Some(d) = differ {
                // consult the interpreter only to say which side deviates from the documentation
                let ex = run_script(&progs[0], &g.case.scripts[si]);
                let mut ge = group_expected(&ex);
                normalise(&mut ge, &ord);
                let side = match (&groups[0], &groups[k]) {
                    (Ok(a), Ok(b)) => {
                        if ex.invalid.is_some() {
                            "model undefined here"
                        } else if *a == ge {
                            "the variant deviates from the reference interpreter"
                        } else if *b == ge {
                            "the base deviates from the reference interpreter"
                        } else {
                            "both deviate from the reference interpreter"
                        }
                    }
                    _ => "panic",
                };
                return Err((Fail::new(
                    format!("variants-disagree:outputs:{stateful}"),
                    format!(
                        "{d}\n({side})\nvariant {k}: {:?}\nbase:\n{}variant:\n{}script #{si}: {}",
                        g.case.descs[k],
                        g.members[0].dfir,
                        g.members[k].dfir,
                        script_wire(&g.case.scripts[si])
                    ),
                ), k, Some(si)));
            }
        }
    }
    Ok(())
}

/// Keep only the base and variant `k` (and one script) of a failing group.
fn shrink_group(case: &Case22, k: usize, si: Option<usize>) -> Case22 {
    Case22 {
        programs: vec![case.programs[0].clone(), case.programs[k].clone()],
        descs: vec![case.descs[0].clone(), case.descs[k].clone()],
        scripts: match si {
            Some(si) => vec![case.scripts[si].clone()],
            None => case.scripts.clone(),
        },
    }
}

fn plan_group(case: Case22, origins: Vec<Vec<Option<usize>>>) -> GroupPlan {
    let mut members = vec![];
    for p in &case.programs {
        let d = dfir_text(p).expect("analysed");
        let verdict = inspect(&d);
        members.push(Member { verdict, dfir: d.text });
    }
    let mut nontrivial = vec![false; case.programs.len()];
    if let Verdict::Accept(bs) = &members[0].verdict {
        for k in 1..case.programs.len() {
            if let Verdict::Accept(vs) = &members[k].verdict {
                let origin = origins.get(k).cloned().unwrap_or_default();
                nontrivial[k] = role_changed(&case.programs[0], bs, &case.programs[k], vs, &origin);
            }
        }
    }
    GroupPlan { sub: SUB, case, members, origins, nontrivial }
}

/// Compile and run a list of groups in one batch; returns (rejected, runs) keyed by group.
#[allow(clippy::type_complexity)]
fn run_groups(
    batch: &str,
    groups: &[GroupPlan],
) -> Result<(Vec<BTreeMap<usize, String>>, Vec<BTreeMap<(usize, usize), RunRes>>, f64, f64, u64, u64), String> {
    let mut units = vec![];
    let mut key = vec![];
    for (gi, g) in groups.iter().enumerate() {
        let all_accept = g.members.iter().all(|m| matches!(m.verdict, Verdict::Accept(_)));
        if !all_accept {
            continue;
        }
        for (k, p) in g.case.programs.iter().enumerate() {
            // the model envelope also bounds what we feed the compiled programs
            let scripts: Vec<serde_json::Value> = g.case.scripts.iter().map(script_wire).collect();
            units.push(Unit { id: units.len() as u64, source: program_module(p).expect("analysed"), scripts });
            key.push((gi, k));
        }
    }
    let mut rejected = vec![BTreeMap::new(); groups.len()];
    let mut runs = vec![BTreeMap::new(); groups.len()];
    if units.is_empty() {
        return Ok((rejected, runs, 0.0, 0.0, 0, 0));
    }
    let out = run_batch(batch, &units)?;
    let mut hangs = 0;
    let mut missing = 0;
    for (id, msg) in &out.rejected {
        let (gi, k) = key[*id as usize];
        rejected[gi].insert(k, msg.clone());
    }
    for ((id, si), res) in &out.runs {
        let (gi, k) = key[*id as usize];
        match res {
            RunRes::Hang => hangs += 1,
            RunRes::Missing => missing += 1,
            _ => {}
        }
        runs[gi].insert((k, *si), res.clone());
    }
    Ok((rejected, runs, out.build_s, out.run_s, hangs, missing))
}

fn probe_groups() -> Vec<(&'static str, &'static str, Case22)> {
    let e = |node: usize, port: usize| Edge { node, port };
    let src = || Node { op: Op::SrcStream { src: 0, ty: Ty::I }, ins: vec![] };
    let ticks = |items: Vec<Vec<i64>>| Script {
        steps: items
            .into_iter()
            .map(|v| Step { send: vec![v.into_iter().map(Val::I).collect()], run: Run::Tick })
            .collect(),
    };
    let pull = |op: Op| Prog {
        nodes: vec![src(), Node { op, ins: vec![e(0, 0)] }, Node { op: Op::ForEach { sink: 0 }, ins: vec![e(1, 0)] }],
        sources: vec![Ty::I],
        stmt_order: None,
    };
    let push = |op: Op| Prog {
        nodes: vec![
            src(),
            Node { op: Op::Tee { n: 2 }, ins: vec![e(0, 0)] },
            Node { op, ins: vec![e(1, 0)] },
            Node { op: Op::ForEach { sink: 0 }, ins: vec![e(2, 0)] },
            Node { op: Op::Null, ins: vec![e(1, 1)] },
        ],
        sources: vec![Ty::I],
        stmt_order: None,
    };
    // short-circuit probes: `unique::<'static>()` feeding a short-circuiting consumer directly
    // (same pull chain) vs. through a handoff()
    let two_src = |mid: Vec<Node>, consumer: Op, via_handoff: bool| -> Prog {
        // nodes: src0, src1, unique(src0), [handoff], consumer(unique|handoff, src1), for_each
        let mut nodes = vec![
            Node { op: Op::SrcStream { src: 0, ty: Ty::I }, ins: vec![] },
            Node { op: Op::SrcStream { src: 1, ty: Ty::I }, ins: vec![] },
            Node { op: Op::Unique { pers: vec![Pers::Static] }, ins: vec![e(0, 0)] },
        ];
        nodes.extend(mid);
        let mut last = 2;
        if via_handoff {
            nodes.push(Node { op: Op::Handoff, ins: vec![e(2, 0)] });
            last = nodes.len() - 1;
        }
        nodes.push(Node { op: consumer, ins: vec![e(last, 0), e(1, 0)] });
        let c = nodes.len() - 1;
        nodes.push(Node { op: Op::ForEach { sink: 0 }, ins: vec![e(c, 0)] });
        Prog { nodes, sources: vec![Ty::I, Ty::I], stmt_order: None }
    };
    let ticks2 = |items: Vec<(Vec<i64>, Vec<i64>)>| Script {
        steps: items
            .into_iter()
            .map(|(a, b)| Step {
                send: vec![a.into_iter().map(Val::I).collect(), b.into_iter().map(Val::I).collect()],
                run: Run::Tick,
            })
            .collect(),
    };
    let hdesc = vec![vec![], vec!["handoff() inserted between unique::<'static>() and the consumer".to_string()]];
    let desc = vec![vec![], vec!["tee() with a null() branch inserted before the operator".to_string()]];
    let rnr = Op::Reduce { pers: vec![Pers::Tick], f: RedFn::Sum, replay: false };
    vec![
        (
            SIG_SC_CROSS_SINGLETON,
            "cross_singleton does not pull its `input` when `single` is empty (documented short circuit); a lazily evaluated operator with cross-tick state upstream in the same pull chain (here unique::<'static>()) then never sees the tick's items, so the program's later outputs depend on whether a handoff separates the two (with handoff(): 1 is remembered in tick 0 and filtered in tick 1; without: (1, 9) is emitted in tick 1) - same class as hydro issue #2334",
            Case22 {
                programs: vec![
                    two_src(vec![], Op::CrossSingleton { pers: vec![] }, false),
                    two_src(vec![], Op::CrossSingleton { pers: vec![] }, true),
                ],
                descs: hdesc.clone(),
                scripts: vec![ticks2(vec![(vec![1], vec![]), (vec![1], vec![9]), (vec![1, 2], vec![9])])],
            },
        ),
        (
            SIG_SC_CHAIN_FIRST_N,
            "chain_first_n(n) stops pulling after n items; a lazily evaluated operator with cross-tick state upstream in the same pull chain (here unique::<'static>()) never sees the remaining items of the tick, so later outputs depend on whether a handoff separates the two (ticks [1,2], [2] with n = 1: with handoff() tick 1 emits nothing, without it emits 2)",
            Case22 {
                programs: vec![
                    two_src(vec![], Op::ChainFirstN { n: 1 }, false),
                    two_src(vec![], Op::ChainFirstN { n: 1 }, true),
                ],
                descs: hdesc,
                scripts: vec![ticks2(vec![(vec![1, 2], vec![]), (vec![2], vec![])])],
            },
        ),
        (
            SIG_RNR_PUSH,
            "reduce_no_replay gives different per-tick outputs as a pull operator and as a push operator (after tee()): in a tick > 0 in which exactly one item initialises the accumulator the push code path emits nothing (its was_updated flag is set inside the reduce closure, which is not called for the first item)",
            Case22 {
                programs: vec![pull(rnr.clone()), push(rnr)],
                descs: desc.clone(),
                scripts: vec![ticks(vec![vec![], vec![5], vec![1, 2]])],
            },
        ),
        (
            SIG_MSD_PUSH,
            "multiset_delta compiles as a pull operator but is rejected by rustc (E0282, type annotations needed) whenever it is realised as a push operator (e.g. after tee()): its generated filter closure calls `item.clone()` before the item type is known, and the operator accepts no type argument to pin it",
            Case22 {
                programs: vec![pull(Op::MultisetDelta), push(Op::MultisetDelta)],
                descs: desc,
                scripts: vec![ticks(vec![vec![3, 4, 3], vec![3, 5, 3, 3]])],
            },
        ),
    ]
}

pub fn run(ctx: &mut Ctx) {
    ctx.rule = "Cases are groups (base program, variants, input histories). `operator-cell-twins`: the minimal program of \
every (operator, persistence) cell with its push-side twin (the operator behind tee()) and one randomly rewritten twin, on \
dense histories. `variants-agree`: the base is drawn by the C21 random generator with 2-3 variants; \
each variant applies 1-2 random semantics-preserving shape rewrites (identity()/handoff() inserted on an edge, tee() with \
a null() branch, union() with an empty source_iter, a unary operator moved across a tee into every branch, statements \
shuffled). The front-end verdict and the rustc verdict must agree inside a group, and all members must log the same \
items per (tick, sink) (sequence or multiset by the weaker order class of the sink) and the same tick counters. One \
evaluation = one (variant, history) comparison with the base; it is non-trivial iff some stateful operator of the base \
changed its pull/push role or the set of operators sharing its subgraph in the variant's partitioned graph."
        .into();
    ctx.assume("rewrites are only applied where they preserve the documented semantics (order classes re-checked by the analysis on every variant)");
    ctx.assume("groups in which a member realises multiset_delta or reduce_no_replay as a push operator are excluded from the random search (known findings with fixed probes)");
    if ctx.is_replay() {
        let body = |case: &Case22, obs: &mut Obs| -> Result<(), Fail> {
            let g = plan_group(case.clone(), vec![]);
            let groups = vec![g];
            let (rej, runs, ..) = run_groups("C22-replay", &groups).map_err(|e| Fail::new("infrastructure", e))?;
            obs.nontrivial(true);
            let r = judge(&groups[0], &rej[0], &runs[0], &mut |_, _| {});
            // probes keep their exact signature
            match r {
                Err((f, _, _)) => {
                    let sig = probe_groups()
                        .into_iter()
                        .find(|(_, _, c)| c == case)
                        .map(|(s, _, _)| s.to_string())
                        .unwrap_or(f.sig.clone());
                    Err(Fail::new(sig, f.msg))
                }
                Ok(()) => Ok(()),
            }
        };
        ctx.check_all::<Case22, _, _>(SUB, Vec::<Case22>::new(), body);
        ctx.check_all::<Case22, _, _>(SUB_CELLS, Vec::<Case22>::new(), body);
        ctx.check_all::<Case22, _, _>(SUB_PROBE, Vec::<Case22>::new(), body);
        return;
    }
    let tier = ctx.tier();
    let n_groups = tier.pick(16, 500);
    let n_hist = tier.pick(6, 12);
    let chunk = tier.pick(16, 60);
    ctx.floor = tier.pick(20, 300);
    let mut rng = Rng::new(ctx.seed_for(SUB));
    let mut cov = Coverage::default();
    let cfg = GenCfg { min_ops: 2, max_ops: 8, ..GenCfg::default() };
    let batch = format!("C22-{}", tier.name());
    let mut generated = 0u64;
    let mut excluded_known: BTreeMap<String, u64> = BTreeMap::new();
    let mut fe_rejected_groups = 0u64;
    let mut rustc_rejected_groups = 0u64;
    let mut envelope = 0u64;
    let (mut build_s, mut run_s, mut hangs, mut missing) = (0.0, 0.0, 0u64, 0u64);
    let mut seen = BTreeSet::new();
    let mut remaining = n_groups;
    let mut failures: Vec<(&'static str, Fail, Case22)> = vec![];
    let mut rewrite_kinds: BTreeMap<String, u64> = BTreeMap::new();
    // (1) per-operator cells: the minimal program of every (operator, persistence) cell against its
    // push-side twin (behind tee()) and one randomly rewritten twin
    let mut cell_groups: Vec<GroupPlan> = vec![];
    {
        let mut rng0 = Rng::new(ctx.seed_for(SUB_CELLS) ^ 0x2222);
        let n_cell_hist = tier.pick(5, 16);
        for cell in crate::gen::gen_cells(&mut rng0) {
            let base = cell.direct;
            let Ok(a) = analyze(&base) else { continue };
            let mut programs = vec![base.clone()];
            let mut descs = vec![vec![]];
            let mut origins = vec![vec![]];
            if let Some(pp) = cell.after_tee {
                programs.push(pp);
                descs.push(vec![format!("tee() with a null() branch inserted before {}", cell.label)]);
                origins.push(vec![]);
            }
            // quick tier: one twin per cell (the push-side twin for unary operators, otherwise a
            // random rewrite); thorough: both
            let want_rewrite = programs.len() < 2 || tier == vcommon::Tier::Thorough;
            if let (true, Some(v)) = (want_rewrite, make_variant(&mut rng0, &base, &a, 1)) {
                if !programs.contains(&v.prog) {
                    programs.push(v.prog);
                    descs.push(v.desc);
                    origins.push(v.origin);
                }
            }
            if programs.len() < 2 {
                continue;
            }
            let mut scripts = vec![];
            for _ in 0..n_cell_hist {
                let s = script_of_history(&crate::gen::gen_history_dense(&mut rng0, &base.sources), Run::Tick);
                if run_script(&base, &s).invalid.is_some() {
                    envelope += 1;
                    continue;
                }
                scripts.push(s);
            }
            if scripts.is_empty() {
                continue;
            }
            let mut g = plan_group(Case22 { programs, descs, scripts }, origins);
            g.sub = SUB_CELLS;
            if let Some(why) = known_exclusion(&g.case.programs, &g.members) {
                *excluded_known.entry(why.to_string()).or_default() += 1;
                continue;
            }
            cell_groups.push(g);
        }
    }
    let mut first_round = true;
    'outer: while remaining > 0 || first_round {
        let this = remaining.min(chunk);
        remaining -= this;
        let mut groups = if first_round { std::mem::take(&mut cell_groups) } else { vec![] };
        let n_cells_here = groups.len();
        first_round = false;
        let mut guard = 0;
        while groups.len() < this + n_cells_here && guard < this * 20 {
            guard += 1;
            let base = gen_prog(&mut rng, &cov, &cfg);
            if !seen.insert(hash64(&base)) {
                continue;
            }
            let a = analyze(&base).expect("generator output is valid");
            let nvar = 2 + rng.below(2);
            let mut programs = vec![base.clone()];
            let mut descs = vec![vec![]];
            let mut origins = vec![vec![]];
            for _ in 0..nvar {
                let k = 1 + rng.below(2);
                if let Some(v) = make_variant(&mut rng, &base, &a, k) {
                    if programs.contains(&v.prog) {
                        continue;
                    }
                    programs.push(v.prog);
                    descs.push(v.desc);
                    origins.push(v.origin);
                }
            }
            if programs.len() < 2 {
                continue;
            }
            generated += 1;
            cov.note_prog(&base);
            // histories inside the model envelope (the envelope also protects the compiled programs)
            let mut scripts = vec![];
            for _ in 0..n_hist {
                let s = script_of_history(&gen_history(&mut rng, &base.sources, 3, 7), Run::Tick);
                if run_script(&base, &s).invalid.is_some() {
                    envelope += 1;
                    continue;
                }
                scripts.push(s);
            }
            if scripts.is_empty() {
                continue;
            }
            let g = plan_group(Case22 { programs, descs, scripts }, origins);
            if let Some(why) = known_exclusion(&g.case.programs, &g.members) {
                *excluded_known.entry(why.to_string()).or_default() += 1;
                continue;
            }
            for d in g.case.descs.iter().flatten() {
                let kind = d.split(" inserted").next().unwrap_or(d).split(" moved").next().unwrap_or(d).to_string();
                *rewrite_kinds.entry(kind).or_default() += 1;
            }
            if let Verdict::Accept(sh) = &g.members[0].verdict {
                for (idx, (role, _)) in &sh.nodes {
                    let label = g.case.programs[0].nodes[*idx].op.label();
                    let e = cov.role.entry(label).or_default();
                    match role {
                        Role::Pull => e.0 += 1,
                        Role::Push => e.1 += 1,
                        Role::Unknown => {}
                    }
                }
            }
            groups.push(g);
        }
        let (rej, runs, b, r, h, m) = match run_groups(&batch, &groups) {
            Ok(x) => x,
            Err(e) => {
                ctx.inconclusive(format!("batch infrastructure failure: {e}"));
                break 'outer;
            }
        };
        build_s += b;
        run_s += r;
        hangs += h;
        missing += m;
        for (gi, g) in groups.iter().enumerate() {
            if g.members.iter().all(|m| matches!(m.verdict, Verdict::Reject(_))) {
                fe_rejected_groups += 1;
            }
            if !rej[gi].is_empty() && rej[gi].len() == g.case.programs.len() {
                rustc_rejected_groups += 1;
            }
            let mut evals = vec![];
            let res = judge(g, &rej[gi], &runs[gi], &mut |k, si| evals.push((k, si)));
            for (k, si) in evals {
                let mut obs = Obs::default();
                obs.nontrivial(g.nontrivial[k]);
                for d in &g.case.descs[k] {
                    obs.class(d.split(" before").next().unwrap_or(d).split(" (node").next().unwrap_or(d).to_string());
                }
                let h = hash64(&(&g.case.programs[0], &g.case.programs[k], &g.case.scripts[si]));
                ctx.record(g.sub, h, &obs, || {
                    json!({"base": g.members[0].dfir, "variant": g.members[k].dfir, "rewrites": g.case.descs[k]})
                });
            }
            if let Err((f, k, si)) = res {
                failures.push((g.sub, f, shrink_group(&g.case, k, si)));
            }
            let _ = &g.origins;
        }
        if !failures.is_empty() {
            break;
        }
    }
    let mut reported = BTreeSet::new();
    for (sub, f, case) in failures {
        if reported.insert(f.sig.clone()) && reported.len() <= 3 {
            ctx.report(sub, &f, serde_json::to_value(&case).unwrap());
        }
    }
    // probes for the known findings
    {
        let probes = probe_groups();
        let groups: Vec<GroupPlan> = probes.iter().map(|(_, _, c)| plan_group(c.clone(), vec![])).collect();
        match run_groups(&format!("{batch}-probes"), &groups) {
            Ok((rej, runs, b, r, h, m)) => {
                build_s += b;
                run_s += r;
                hangs += h;
                missing += m;
                for (gi, g) in groups.iter().enumerate() {
                    let res = judge(g, &rej[gi], &runs[gi], &mut |_, _| {});
                    let mut obs = Obs::default();
                    obs.nontrivial(true);
                    obs.class("known-finding-probe");
                    ctx.record(SUB_PROBE, hash64(&g.case), &obs, || serde_json::Value::Null);
                    if let Err((f, _, _)) = res {
                        let (sig, what, _) = &probes[gi];
                        ctx.report(
                            SUB_PROBE,
                            &Fail::new(*sig, format!("{what}\n{}", f.msg)),
                            serde_json::to_value(&g.case).unwrap(),
                        );
                    }
                }
            }
            Err(e) => ctx.inconclusive(format!("probe batch infrastructure failure: {e}")),
        }
    }
    for (k, v) in &excluded_known {
        ctx.count_excluded(k, *v);
    }
    ctx.count_excluded("history-outside-model-envelope", envelope);
    ctx.extra.insert("coverage_table".into(), cov.to_json());
    ctx.extra.insert("rewrites_applied".into(), json!(rewrite_kinds));
    ctx.extra.insert(
        "pipeline".into(),
        json!({"groups_generated": generated, "groups_all_rejected_by_front_end": fe_rejected_groups,
               "groups_all_rejected_by_rustc": rustc_rejected_groups, "build_s": build_s, "run_s": run_s,
               "hangs": hangs, "missing_outputs": missing}),
    );
    if generated > 0 && (fe_rejected_groups + rustc_rejected_groups) * 20 > generated {
        ctx.inconclusive(format!(
            "{} of {generated} groups were rejected as a whole by the front end / rustc (> 5 %): generator typing bugs",
            fe_rejected_groups + rustc_rejected_groups
        ));
    }
    if hangs > 0 {
        ctx.inconclusive(format!("{hangs} program runs hit the watchdog"));
    }
    if missing > 0 {
        ctx.inconclusive(format!("{missing} program runs produced no output line"));
    }
}
