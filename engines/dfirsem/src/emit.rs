//! IR -> DFIR surface syntax, and IR -> Rust source of one generated program module
//! (`pub fn run(script: &Script) -> RunOut` around `dfir_rs::dfir_syntax! { ... }`).

use crate::analysis::{analyze, Analysis};
use crate::ir::*;
use std::fmt::Write;

fn c(x: i64) -> String {
    if x < 0 {
        format!("({x}i64)")
    } else {
        format!("{x}i64")
    }
}

const PT: &str = "(i64, i64)";

fn map_rust(f: &MapFn, t: &Ty) -> String {
    let tr = t.rust();
    match f {
        MapFn::AddC(k) => format!("|x: i64| x + {}", c(*k)),
        MapFn::MulMod(a, m) => format!("|x: i64| (x * {}) % {}", c(*a), c(*m)),
        MapFn::Neg => "|x: i64| -x".into(),
        MapFn::Half => "|x: i64| x / 2".into(),
        MapFn::KeyMod(m) => format!("|x: i64| (x % {}, x)", c(*m)),
        MapFn::Dup => "|x: i64| (x, x)".into(),
        MapFn::Swap => format!("|(k, v): {PT}| (v, k)"),
        MapFn::SwapMod(m) => format!("|(k, v): {PT}| (v % {}, k)", c(*m)),
        MapFn::AddV(k) => format!("|(k, v): {PT}| (k, v + {})", c(*k)),
        MapFn::KeyModP(m) => format!("|(k, v): {PT}| (k % {}, v)", c(*m)),
        MapFn::Fst => format!("|(k, _v): {PT}| k"),
        MapFn::Snd => format!("|(_k, v): {PT}| v"),
        MapFn::Comb => format!("|(k, v): {PT}| k * 7 + v"),
        MapFn::NormI => format!("|x: {tr}| gd::norm_i(&x)"),
        MapFn::NormP => format!("|x: {tr}| gd::norm_p(&x)"),
        MapFn::ToVec2 => format!("|x: {tr}| vec![x.clone(), x]"),
        MapFn::ToRangeVec => "|x: i64| (0..x.rem_euclid(3)).collect::<Vec<i64>>()".into(),
        MapFn::ToMax => "|x: i64| dfir_rs::lattices::Max::new(x)".into(),
        MapFn::FromMax => "|x: dfir_rs::lattices::Max<i64>| x.into_reveal()".into(),
        MapFn::ToSet => "|x: i64| dfir_rs::lattices::set_union::SetUnionHashSet::<i64>::new_from([x])".into(),
        MapFn::KeyMax => format!("|(k, v): {PT}| (k, dfir_rs::lattices::Max::new(v))"),
        MapFn::ToShape => "|x: i64| match x.rem_euclid(3) { 0 => gd::Sh::A(x), 1 => gd::Sh::B(x, x + 1), _ => gd::Sh::C { k: x, v: x * 2 } }".into(),
    }
}

fn pred_rust(f: &Pred) -> String {
    match f {
        Pred::Even => "|x: &i64| *x % 2 == 0".into(),
        Pred::Odd => "|x: &i64| *x % 2 != 0".into(),
        Pred::Lt(k) => format!("|x: &i64| *x < {}", c(*k)),
        Pred::Ne(k) => format!("|x: &i64| *x != {}", c(*k)),
        Pred::KeyEven => format!("|t: &{PT}| t.0 % 2 == 0"),
        Pred::ValLt(k) => format!("|t: &{PT}| t.1 < {}", c(*k)),
        Pred::KLtV => format!("|t: &{PT}| t.0 < t.1"),
    }
}

fn fm_rust(f: &FmFn) -> String {
    match f {
        FmFn::HalfEven => "|x: i64| if x % 2 == 0 { Some(x / 2) } else { None }".into(),
        FmFn::Diff => format!("|(k, v): {PT}| if k <= v {{ Some(v - k) }} else {{ None }}"),
        FmFn::HalfV => format!("|(k, v): {PT}| if v % 2 == 0 {{ Some((k, v / 2)) }} else {{ None }}"),
    }
}

fn flat_rust(f: &FlatFn) -> String {
    match f {
        FlatFn::Two => "|x: i64| [x, x + 1]".into(),
        FlatFn::Range => "|x: i64| 0..x.rem_euclid(3)".into(),
        FlatFn::Both => format!("|(k, v): {PT}| [k, v]"),
        FlatFn::Mirror => format!("|(k, v): {PT}| [(k, v), (v, k)]"),
    }
}

fn fold_rust(f: &FoldFn, item: &Ty) -> (String, String) {
    let it = item.rust();
    match f {
        FoldFn::Sum => ("|| 0i64".into(), "|acc: &mut i64, x: i64| { *acc += x; }".into()),
        FoldFn::Count => ("|| 0i64".into(), format!("|acc: &mut i64, _x: {it}| {{ *acc += 1; }}")),
        FoldFn::Max => (
            "|| -1000000i64".into(),
            "|acc: &mut i64, x: i64| { *acc = (*acc).max(x); }".into(),
        ),
        FoldFn::Poly => (
            "|| 0i64".into(),
            format!("|acc: &mut i64, x: i64| {{ *acc = (*acc * 3 + x) % {M}i64; }}"),
        ),
        FoldFn::Push => (
            format!("|| Vec::<{it}>::new()"),
            format!("|acc: &mut Vec<{it}>, x: {it}| {{ acc.push(x); }}"),
        ),
        FoldFn::SumP => (
            "|| (0i64, 0i64)".into(),
            format!("|acc: &mut {PT}, x: {PT}| {{ acc.0 += x.0; acc.1 += x.1; }}"),
        ),
        FoldFn::PolyP => (
            "|| 0i64".into(),
            format!("|acc: &mut i64, x: {PT}| {{ *acc = (*acc * 3 + x.0 * 5 + x.1) % {M}i64; }}"),
        ),
    }
}

fn red_rust(f: &RedFn, item: &Ty) -> String {
    let it = item.rust();
    match f {
        RedFn::Sum => "|acc: &mut i64, x: i64| { *acc += x; }".into(),
        RedFn::Max => format!("|acc: &mut {it}, x: {it}| {{ if x > *acc {{ *acc = x; }} }}"),
        RedFn::Min => format!("|acc: &mut {it}, x: {it}| {{ if x < *acc {{ *acc = x; }} }}"),
        RedFn::First => format!("|_acc: &mut {it}, _x: {it}| {{}}"),
        RedFn::Last => format!("|acc: &mut {it}, x: {it}| {{ *acc = x; }}"),
        RedFn::Poly => format!("|acc: &mut i64, x: i64| {{ *acc = (*acc * 3 + x) % {M}i64; }}"),
        RedFn::SumP => format!("|acc: &mut {PT}, x: {PT}| {{ acc.0 += x.0; acc.1 += x.1; }}"),
    }
}

fn fused_rust(a: &FusedAgg) -> String {
    let pre = "dfir_rs::dfir_pipes::pull";
    match a {
        FusedAgg::ReduceSum => format!("{pre}::Reduce::new(|a: &mut i64, b: i64| *a += b)"),
        FusedAgg::ReducePoly => format!("{pre}::Reduce::new(|a: &mut i64, b: i64| *a = (*a * 3 + b) % {M}i64)"),
        FusedAgg::FoldSum => format!("{pre}::Fold::new(|| 0i64, |a: &mut i64, b: i64| *a += b)"),
        FusedAgg::FoldFromSum => format!("{pre}::FoldFrom::new(|x: i64| x + 3, |a: &mut i64, b: i64| *a += b)"),
    }
}

/// Text of the operator call for node `i` (without inputs/outputs).
fn op_text(p: &Prog, a: &Analysis, i: usize) -> String {
    let node = &p.nodes[i];
    let in_ty = |k: usize| a.edge(node.ins[k]).ty.clone();
    match &node.op {
        Op::SrcStream { src, .. } => format!("source_stream(r{src})"),
        Op::SrcIter { items, ty } => {
            if items.is_empty() {
                format!("source_iter(Vec::<{}>::new())", ty.rust())
            } else {
                let v: Vec<String> = items.iter().map(|x| x.rust_lit(ty)).collect();
                format!("source_iter(vec![{}])", v.join(", "))
            }
        }
        Op::Map(f) => format!("map({})", map_rust(f, &in_ty(0))),
        Op::Filter(f) => format!("filter({})", pred_rust(f)),
        Op::FilterMap(f) => format!("filter_map({})", fm_rust(f)),
        Op::FlatMap(f) => format!("flat_map({})", flat_rust(f)),
        Op::Flatten => "flatten()".into(),
        Op::Inspect => format!("inspect(|_x: &{}| {{}})", in_ty(0).rust()),
        Op::Identity { typed } => {
            if *typed {
                format!("identity::<{}>()", in_ty(0).rust())
            } else {
                "identity()".into()
            }
        }
        Op::Enumerate { pers } => format!("enumerate{}()", pers_rust(pers)),
        Op::Sort => "sort()".into(),
        Op::SortByKey(k) => {
            let t = in_ty(0).rust();
            match k {
                KeyFn::Whole => format!("sort_by_key(|t: &{t}| t)"),
                KeyFn::K => format!("sort_by_key(|t: &{t}| &t.0)"),
                KeyFn::V => format!("sort_by_key(|t: &{t}| &t.1)"),
            }
        }
        Op::Handoff => "handoff()".into(),
        Op::Singleton => "singleton()".into(),
        Op::Optional => "optional()".into(),
        Op::RefMap { target, f, group } => {
            let g = match group {
                Some(g) => format!("{{{g}}} "),
                None => String::new(),
            };
            match f {
                RefFn::PairWith => format!("map(|x: i64| (x, *#{g}n{target}))"),
                RefFn::Add => format!("map(|x: i64| x + *#{g}n{target})"),
                RefFn::Len => format!("map(|x: i64| (x, #{g}n{target}.len() as i64))"),
                RefFn::SumBuf => format!("map(|x: i64| (x, #{g}n{target}.iter().sum::<i64>()))"),
                RefFn::MulAdd(a) => format!(
                    "map(|x: i64| {{ let r = #{g}mut n{target}; *r = (*r * {} + x) % {M}i64; x }})",
                    c(*a)
                ),
                RefFn::Push => format!("map(|x: i64| {{ #{g}mut n{target}.push(x); x }})"),
                RefFn::Retain => format!("map(|x: i64| {{ #{g}mut n{target}.retain(|y| *y != x); x }})"),
            }
        }
        Op::Tee { .. } => "tee()".into(),
        Op::Unzip => "unzip()".into(),
        Op::Partition { f, .. } => {
            let t = in_ty(0);
            let sel = if t == Ty::I {
                "*x".to_string()
            } else {
                match f {
                    PartFn::Mod => "x.0".to_string(),
                    PartFn::Lt(_) => "x.1".to_string(),
                }
            };
            match f {
                PartFn::Mod => format!(
                    "partition(|x: &{}, n: usize| ({sel}).rem_euclid(n as i64) as usize)",
                    t.rust()
                ),
                PartFn::Lt(k) => format!(
                    "partition(|x: &{}, _n: usize| if ({sel}) < {} {{ 0usize }} else {{ 1usize }})",
                    t.rust(),
                    c(*k)
                ),
            }
        }
        Op::Union { .. } => "union()".into(),
        Op::Chain => "chain()".into(),
        Op::ChainFirstN { n } => format!("chain_first_n({n})"),
        Op::Zip { pers } => format!("zip{}()", pers_rust(pers)),
        Op::ZipLongest { pers } => format!("zip_longest{}()", pers_rust(pers)),
        Op::Join { pers, multiset } => {
            format!("{}{}()", if *multiset { "join_multiset" } else { "join" }, pers_rust(pers))
        }
        Op::CrossJoin { pers, multiset } => format!(
            "{}{}()",
            if *multiset { "cross_join_multiset" } else { "cross_join" },
            pers_rust(pers)
        ),
        Op::AntiJoin { pers } => format!("anti_join{}()", pers_rust(pers)),
        Op::Difference { pers } => format!("difference{}()", pers_rust(pers)),
        Op::CrossSingleton { pers } => format!("cross_singleton{}()", pers_rust(pers)),
        Op::JoinMultisetHalf { pers } => format!("join_multiset_half{}()", pers_rust(pers)),
        Op::JoinFused { pers, lhs, rhs } => match (lhs, rhs) {
            (Some(l), Some(r)) => format!("join_fused{}({}, {})", pers_rust(pers), fused_rust(l), fused_rust(r)),
            (Some(l), None) => format!("join_fused_lhs{}({})", pers_rust(pers), fused_rust(l)),
            (None, Some(r)) => format!("join_fused_rhs{}({})", pers_rust(pers), fused_rust(r)),
            (None, None) => format!("join_multiset{}()", pers_rust(pers)),
        },
        Op::DeferSignal => "defer_signal()".into(),
        Op::Fold { pers, f, replay } => {
            let (init, step) = fold_rust(f, &in_ty(0));
            format!(
                "{}{}({init}, {step})",
                if *replay { "fold" } else { "fold_no_replay" },
                pers_rust(pers)
            )
        }
        Op::Reduce { pers, f, replay } => format!(
            "{}{}({})",
            if *replay { "reduce" } else { "reduce_no_replay" },
            pers_rust(pers),
            red_rust(f, &in_ty(0))
        ),
        Op::FoldKeyed { pers, f } => {
            let t = in_ty(0);
            let (_, v) = t.kv().unwrap();
            let (init, step) = fold_rust(f, v);
            format!("fold_keyed{}({init}, {step})", pers_rust(pers))
        }
        Op::ReduceKeyed { pers, f } => {
            let t = in_ty(0);
            let (_, v) = t.kv().unwrap();
            format!("reduce_keyed{}({})", pers_rust(pers), red_rust(f, v))
        }
        Op::Scan { pers, f } => {
            let body = match f {
                ScanFn::RunSum => "|| 0i64, |acc: &mut i64, x: i64| { *acc += x; Some(*acc) }".to_string(),
                ScanFn::SumUntil(k) => format!(
                    "|| 0i64, |acc: &mut i64, x: i64| {{ *acc += x; if *acc > {} {{ None }} else {{ Some(*acc) }} }}",
                    c(*k)
                ),
                ScanFn::RunKeyed => {
                    format!("|| 0i64, |acc: &mut i64, (k, v): {PT}| {{ *acc += v; Some((k, *acc)) }}")
                }
            };
            format!("scan{}({body})", pers_rust(pers))
        }
        Op::Unique { pers } => format!("unique{}()", pers_rust(pers)),
        Op::Persist => "persist::<'static>()".into(),
        Op::MultisetDelta => "multiset_delta()".into(),
        Op::DeferTick { lazy, .. } => {
            if *lazy {
                "defer_tick_lazy()".into()
            } else {
                "defer_tick()".into()
            }
        }
        Op::LatticeFold { pers } => {
            let t = in_ty(0).rust();
            format!("lattice_fold{}(<{t} as Default>::default)", pers_rust(pers))
        }
        Op::LatticeReduce { pers } => format!("lattice_reduce{}()", pers_rust(pers)),
        Op::State { pers } => {
            let t = in_ty(0).rust();
            if pers.is_empty() {
                format!("state::<{t}>()")
            } else {
                let ps = pers_rust(pers);
                format!("state{}, {t}>()", ps.trim_end_matches('>'))
            }
        }
        Op::StateBy { pers } => {
            let t = "dfir_rs::lattices::Max<i64>";
            let args = "(|x: i64| dfir_rs::lattices::Max::new(x), ::std::default::Default::default)";
            if pers.is_empty() {
                format!("state_by::<{t}>{args}")
            } else {
                let ps = pers_rust(pers);
                format!("state_by{}, {t}>{args}", ps.trim_end_matches('>'))
            }
        }
        Op::DemuxEnum => "demux_enum::<gd::Sh>()".into(),
        Op::LatticeFoldBatch => format!("_lattice_fold_batch::<{}>()", in_ty(0).rust()),
        Op::LatticeJoinFused { pers } => {
            let t = "dfir_rs::lattices::Max<i64>";
            let ps = pers_rust(pers);
            let generics = if pers.is_empty() { format!("::<{t}, {t}>") } else { format!("{}, {t}, {t}>", ps.trim_end_matches('>')) };
            format!(
                "_lattice_join_fused_join{generics}() -> map(|m| {{ let dfir_rs::lattices::collections::SingletonMap(k, p) = m.into_reveal(); let (a, b) = p.into_reveal(); (k, (a.into_reveal(), b.into_reveal())) }}) -> identity::<(i64, (i64, i64))>()"
            )
        }
        Op::Initialize => "initialize()".into(),
        Op::ForEach { sink } => format!(
            "for_each(|x: {}| lg{sink}.borrow_mut().push((context.current_tick().0, {sink}usize, gd::tv(&x))))",
            in_ty(0).rust()
        ),
        Op::Null => "null()".into(),
    }
}

fn in_ref(p: &Prog, e: Edge) -> String {
    match p.nodes[e.node].op.out_port(e.port) {
        Some(name) => format!("n{}[{}]", e.node, name),
        None => format!("n{}", e.node),
    }
}

pub struct Dfir {
    pub text: String,
    /// for each line of `text` (0-based), the node whose operator is written on it
    pub line_node: Vec<Option<usize>>,
    /// surface-syntax operator name of each IR node (for matching graph nodes to IR nodes)
    pub node_names: std::collections::BTreeMap<usize, String>,
}

/// Operators whose generated code contains closures over a not-yet-inferred item type: on the push
/// side of a subgraph rustc needs the item type pinned downstream of them (the `tee` documentation
/// notes "Downstream operators may need explicit type annotations"; `identity::<T>()` is the
/// documented way "for helping the compiler infer types").
fn needs_anchor(op: &Op) -> bool {
    matches!(op, Op::Unique { .. } | Op::MultisetDelta)
}

/// Does the consumer pin the item type of its input by itself (annotated closure / typed identity)?
fn anchors_input(op: &Op) -> bool {
    matches!(
        op,
        Op::Map(_)
            | Op::Filter(_)
            | Op::FilterMap(_)
            | Op::FlatMap(_)
            | Op::Inspect
            | Op::ForEach { .. }
            | Op::Fold { .. }
            | Op::Reduce { .. }
            | Op::FoldKeyed { .. }
            | Op::ReduceKeyed { .. }
            | Op::Scan { .. }
            | Op::Partition { .. }
            | Op::SortByKey(_)
            | Op::RefMap { .. }
            | Op::Identity { typed: true }
    )
}

/// DFIR surface syntax: one operator per line.
pub fn dfir_text(p: &Prog) -> Result<Dfir, String> {
    let a = analyze(p)?;
    // consumer of each (node, port 0)
    let mut consumer_anchors = vec![false; p.nodes.len()];
    for n in &p.nodes {
        for e in &n.ins {
            if e.port == 0 && anchors_input(&n.op) {
                consumer_anchors[e.node] = true;
            }
        }
    }
    let mut text = String::new();
    let mut line_node = vec![];
    for &i in &p.order() {
        let node = &p.nodes[i];
        let mut op = op_text(p, &a, i);
        if needs_anchor(&node.op) && !consumer_anchors[i] {
            op = format!("{op} -> identity::<{}>()", a.outs[i][0].ty.rust());
        }
        let nin = node.ins.len();
        let is_sink = matches!(node.op, Op::ForEach { .. } | Op::Null);
        if nin == 0 {
            writeln!(text, "n{i} = {op};").unwrap();
            line_node.push(Some(i));
        } else if nin == 1 && node.op.in_port(0).is_none() && !matches!(node.op, Op::Union { .. }) {
            let src = in_ref(p, node.ins[0]);
            if is_sink {
                writeln!(text, "{src} -> {op};").unwrap();
            } else {
                writeln!(text, "n{i} = {src} -> {op};").unwrap();
            }
            line_node.push(Some(i));
        } else {
            writeln!(text, "n{i} = {op};").unwrap();
            line_node.push(Some(i));
            for (k, e) in node.ins.iter().enumerate() {
                let src = in_ref(p, *e);
                match node.op.in_port(k) {
                    Some(port) => writeln!(text, "{src} -> [{port}]n{i};").unwrap(),
                    None => writeln!(text, "{src} -> n{i};").unwrap(),
                }
                line_node.push(None);
            }
        }
    }
    let mut node_names = std::collections::BTreeMap::new();
    for (i, n) in p.nodes.iter().enumerate() {
        let name = match &n.op {
            Op::RefMap { .. } => "map".to_string(),
            op => op.name().to_string(),
        };
        node_names.insert(i, name);
    }
    Ok(Dfir { text, line_node, node_names })
}

/// Rust source of the module for one program.
pub fn program_module(p: &Prog) -> Result<String, String> {
    let d = dfir_text(p)?;
    let mut s = String::new();
    s.push_str("#![allow(warnings)]\nuse gd::*;\n\n");
    s.push_str("pub fn run(script: &Script) -> RunOut {\n");
    s.push_str("    let log = new_log();\n");
    for (k, t) in p.sources.iter().enumerate() {
        writeln!(s, "    let (s{k}, r{k}) = dfir_rs::util::unbounded_channel::<{}>();", t.rust()).unwrap();
    }
    for node in &p.nodes {
        if let Op::ForEach { sink } = node.op {
            writeln!(s, "    let lg{sink} = log.clone();").unwrap();
        }
    }
    s.push_str("    let mut df = dfir_rs::dfir_syntax! {\n");
    for l in d.text.lines() {
        writeln!(s, "        {l}").unwrap();
    }
    s.push_str("    };\n");
    s.push_str("    let mut ticks: Vec<u64> = Vec::new();\n");
    s.push_str("    for step in &script.steps {\n");
    for (k, t) in p.sources.iter().enumerate() {
        writeln!(
            s,
            "        for v in step.send({k}) {{ s{k}.send(<{} as FromJ>::from_j(v)).unwrap(); }}",
            t.rust()
        )
        .unwrap();
    }
    s.push_str("        if step.avail { df.run_available_sync(); } else { df.run_tick_sync(); }\n");
    s.push_str("        ticks.push(df.current_tick().0);\n");
    s.push_str("    }\n");
    s.push_str("    drop(df);\n");
    s.push_str("    RunOut { log: take_log(&log), ticks }\n");
    s.push_str("}\n");
    Ok(s)
}

/// The support library of every generated crate (item <-> JSON, logs, scripts, main loop).
pub const SUPPORT_LIB: &str = r##"//! Support code shared by the generated programs (harness side; no DFIR semantics here).
#![allow(warnings)]
use std::cell::RefCell;
use std::rc::Rc;
pub use serde_json::Value as J;

pub type Log = Rc<RefCell<Vec<(u64, usize, J)>>>;
pub fn new_log() -> Log { Rc::new(RefCell::new(Vec::new())) }
pub fn take_log(l: &Log) -> Vec<(u64, usize, J)> { std::mem::take(&mut *l.borrow_mut()) }

pub struct Step { pub send: Vec<Vec<J>>, pub avail: bool }
impl Step {
    pub fn send(&self, k: usize) -> &[J] { self.send.get(k).map(|v| &v[..]).unwrap_or(&[]) }
}
pub struct Script { pub steps: Vec<Step> }
pub struct RunOut { pub log: Vec<(u64, usize, J)>, pub ticks: Vec<u64> }

pub fn parse_script(j: &J) -> Script {
    let steps = j["steps"].as_array().expect("steps").iter().map(|s| Step {
        send: s["send"].as_array().expect("send").iter().map(|v| v.as_array().expect("items").clone()).collect(),
        avail: s["run"].as_str() == Some("a"),
    }).collect();
    Script { steps }
}

/// item -> wire JSON
pub trait TV { fn tv(&self) -> J; }
pub fn tv<T: TV>(x: &T) -> J { x.tv() }
impl TV for i64 { fn tv(&self) -> J { J::from(*self) } }
impl TV for usize { fn tv(&self) -> J { J::from(*self as i64) } }
impl TV for () { fn tv(&self) -> J { J::Array(vec![]) } }
impl<A: TV> TV for (A,) { fn tv(&self) -> J { J::Array(vec![self.0.tv()]) } }
impl<A: TV, B: TV> TV for (A, B) { fn tv(&self) -> J { J::Array(vec![self.0.tv(), self.1.tv()]) } }
impl<A: TV, B: TV, C: TV> TV for (A, B, C) { fn tv(&self) -> J { J::Array(vec![self.0.tv(), self.1.tv(), self.2.tv()]) } }
impl<A: TV> TV for Vec<A> { fn tv(&self) -> J { serde_json::json!({"v": self.iter().map(|x| x.tv()).collect::<Vec<_>>()}) } }
impl<A: TV> TV for &A { fn tv(&self) -> J { (*self).tv() } }
impl<A: TV, B: TV> TV for dfir_rs::itertools::EitherOrBoth<A, B> {
    fn tv(&self) -> J {
        use dfir_rs::itertools::EitherOrBoth::*;
        match self {
            Left(a) => serde_json::json!({"l": a.tv()}),
            Right(b) => serde_json::json!({"r": b.tv()}),
            Both(a, b) => serde_json::json!({"b": [a.tv(), b.tv()]}),
        }
    }
}
impl TV for dfir_rs::lattices::Max<i64> { fn tv(&self) -> J { serde_json::json!({"m": *self.as_reveal_ref()}) } }
impl TV for dfir_rs::lattices::set_union::SetUnionHashSet<i64> {
    fn tv(&self) -> J {
        let mut v: Vec<i64> = self.as_reveal_ref().iter().copied().collect();
        v.sort();
        serde_json::json!({"s": v})
    }
}

/// enum for `demux_enum`
#[derive(Clone, Debug, dfir_rs::DemuxEnum)]
pub enum Sh { A(i64), B(i64, i64), C { k: i64, v: i64 } }
impl TV for Sh {
    fn tv(&self) -> J {
        match self {
            Sh::A(x) => serde_json::json!([0, x]),
            Sh::B(x, y) => serde_json::json!([1, x, y]),
            Sh::C { k, v } => serde_json::json!([2, k, v]),
        }
    }
}
impl NL for Sh {
    fn nl(&self, out: &mut Vec<i64>) {
        match self {
            Sh::A(x) => out.extend([0, *x]),
            Sh::B(x, y) => out.extend([1, *x, *y]),
            Sh::C { k, v } => out.extend([2, *k, *v]),
        }
    }
}

/// wire JSON -> item (inputs are plain ints / tuples only)
pub trait FromJ: Sized { fn from_j(j: &J) -> Self; }
impl FromJ for i64 { fn from_j(j: &J) -> Self { j.as_i64().expect("int") } }
impl FromJ for usize { fn from_j(j: &J) -> Self { j.as_i64().expect("int") as usize } }
impl FromJ for () { fn from_j(_j: &J) -> Self {} }
impl<A: FromJ, B: FromJ> FromJ for (A, B) { fn from_j(j: &J) -> Self { (A::from_j(&j[0]), B::from_j(&j[1])) } }

/// integer leaves for the Norm closures (Left=0 / Right=1 / Both=2 tags, lengths of Vec / Set first)
pub trait NL { fn nl(&self, out: &mut Vec<i64>); }
impl NL for i64 { fn nl(&self, out: &mut Vec<i64>) { out.push(*self) } }
impl NL for usize { fn nl(&self, out: &mut Vec<i64>) { out.push(*self as i64) } }
impl NL for () { fn nl(&self, _out: &mut Vec<i64>) {} }
impl<A: NL> NL for (A,) { fn nl(&self, out: &mut Vec<i64>) { self.0.nl(out) } }
impl<A: NL, B: NL> NL for (A, B) { fn nl(&self, out: &mut Vec<i64>) { self.0.nl(out); self.1.nl(out) } }
impl<A: NL, B: NL, C: NL> NL for (A, B, C) { fn nl(&self, out: &mut Vec<i64>) { self.0.nl(out); self.1.nl(out); self.2.nl(out) } }
impl<A: NL> NL for Vec<A> { fn nl(&self, out: &mut Vec<i64>) { out.push(self.len() as i64); for x in self { x.nl(out) } } }
impl<A: NL, B: NL> NL for dfir_rs::itertools::EitherOrBoth<A, B> {
    fn nl(&self, out: &mut Vec<i64>) {
        use dfir_rs::itertools::EitherOrBoth::*;
        match self {
            Left(a) => { out.push(0); a.nl(out) }
            Right(b) => { out.push(1); b.nl(out) }
            Both(a, b) => { out.push(2); a.nl(out); b.nl(out) }
        }
    }
}
impl NL for dfir_rs::lattices::Max<i64> { fn nl(&self, out: &mut Vec<i64>) { out.push(*self.as_reveal_ref()) } }
impl NL for dfir_rs::lattices::set_union::SetUnionHashSet<i64> {
    fn nl(&self, out: &mut Vec<i64>) {
        let mut v: Vec<i64> = self.as_reveal_ref().iter().copied().collect();
        v.sort();
        out.push(v.len() as i64);
        out.extend(v);
    }
}
const M: i64 = 1_000_003;
fn mix(l: &[i64]) -> i64 { let mut r = 0i64; for x in l { r = (r * 7 + (*x % M)) % M; } r }
fn leaves<T: NL>(x: &T) -> Vec<i64> { let mut v = Vec::new(); x.nl(&mut v); if v.is_empty() { v.push(0); } v }
pub fn norm_i<T: NL>(x: &T) -> i64 { mix(&leaves(x)) }
pub fn norm_p<T: NL>(x: &T) -> (i64, i64) { let l = leaves(x); (l[0], mix(&l[1..])) }

fn panic_text(p: Box<dyn std::any::Any + Send>) -> String {
    if let Some(s) = p.downcast_ref::<&str>() { s.to_string() }
    else if let Some(s) = p.downcast_ref::<String>() { s.clone() }
    else { "<non-string panic>".to_string() }
}

/// Main loop of a batch binary: `argv[1]` = JSON file `{"<unit id>": [script, ...], ...}`.
/// Every (unit, script) runs on its own thread with a watchdog; one JSON line per run on stdout.
pub fn main_loop(units: &[(u64, fn(&Script) -> RunOut)]) {
    use std::io::Write;
    std::panic::set_hook(Box::new(|_| {}));
    let path = std::env::args().nth(1).expect("input file");
    let txt = std::fs::read_to_string(&path).expect("read input");
    let all: J = serde_json::from_str(&txt).expect("parse input");
    let budget_ms: u64 = std::env::var("GD_RUN_TIMEOUT_MS").ok().and_then(|s| s.parse().ok()).unwrap_or(60_000);
    let mut hangs = 0;
    let stdout = std::io::stdout();
    for &(id, f) in units {
        let Some(scripts) = all.get(id.to_string()).and_then(|s| s.as_array()) else { continue };
        for (si, sj) in scripts.iter().enumerate() {
            let sj = sj.clone();
            let (tx, rx) = std::sync::mpsc::channel();
            std::thread::Builder::new().stack_size(64 << 20).spawn(move || {
                let script = parse_script(&sj);
                let r = std::panic::catch_unwind(std::panic::AssertUnwindSafe(|| f(&script)));
                let line = match r {
                    Ok(o) => serde_json::json!({"u": id, "s": si,
                        "log": o.log.iter().map(|(t, k, v)| serde_json::json!([t, k, v])).collect::<Vec<_>>(),
                        "ticks": o.ticks}),
                    Err(p) => serde_json::json!({"u": id, "s": si, "panic": panic_text(p)}),
                };
                let _ = tx.send(line);
            }).expect("spawn");
            let line = match rx.recv_timeout(std::time::Duration::from_millis(budget_ms)) {
                Ok(l) => l,
                Err(_) => { hangs += 1; serde_json::json!({"u": id, "s": si, "hang": true}) }
            };
            let mut o = stdout.lock();
            writeln!(o, "{}", line).unwrap();
            o.flush().unwrap();
            if hangs >= 3 { std::process::exit(0); }
        }
    }
    std::process::exit(0);
}
"##;
