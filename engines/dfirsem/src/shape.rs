//! The ONLY place that touches dfir_lang: asks the real front end (parse -> flat graph ->
//! partition) for its verdict on a program text and reads the pull/push colour and subgraph of
//! every operator. Used for the coverage table (operator x persistence x pull/push role), for the
//! C22 accept/reject comparison and for the C22/C23 non-triviality rules. Nothing of this feeds the
//! reference interpreter.

use crate::emit::Dfir;
use dfir_lang::graph::{build_dfir_code, GraphNode};
use dfir_lang::parse::DfirCode;
use std::collections::BTreeMap;

#[derive(Clone, Debug, PartialEq, Eq)]
pub enum Role {
    Pull,
    Push,
    Unknown,
}

#[derive(Clone, Debug)]
pub struct Shape {
    /// IR node index -> (role, subgraph ordinal)
    pub nodes: BTreeMap<usize, (Role, usize)>,
    pub n_subgraphs: usize,
    pub n_handoffs: usize,
}

#[derive(Clone, Debug)]
pub enum Verdict {
    Accept(Shape),
    Reject(String),
}

pub fn inspect(d: &Dfir) -> Verdict {
    let text = d.text.clone();
    let line_node = d.line_node.clone();
    let names = d.node_names.clone();
    let r = std::panic::catch_unwind(move || inspect_inner(&text, &line_node, &names));
    match r {
        Ok(v) => v,
        Err(p) => Verdict::Reject(format!("front end panicked: {}", vcommon::panic_msg(&p))),
    }
}

fn inspect_inner(text: &str, line_node: &[Option<usize>], names: &std::collections::BTreeMap<usize, String>) -> Verdict {
    let code: DfirCode = match syn::parse_str(text) {
        Ok(c) => c,
        Err(e) => return Verdict::Reject(format!("parse error: {e}")),
    };
    let root = quote::quote! { ::dfir_rs };
    let out = match build_dfir_code(code, &root) {
        Ok(o) => o,
        Err(diags) => {
            let msgs: Vec<String> = diags.iter().map(|d| format!("{:?}: {}", d.level, d.message)).collect();
            return Verdict::Reject(msgs.join(" | "));
        }
    };
    let g = out.partitioned_graph;
    let colors = g.node_color_map();
    let mut sg_ord = BTreeMap::new();
    for (k, sg) in g.subgraph_ids().enumerate() {
        sg_ord.insert(format!("{sg:?}"), k);
    }
    let mut nodes = BTreeMap::new();
    let mut n_handoffs = 0;
    for (nid, node) in g.nodes() {
        match node {
            GraphNode::Handoff { .. } => n_handoffs += 1,
            GraphNode::Operator(_) => {
                let span = node.span();
                let line = span.start().line; // 1-based
                if line == 0 {
                    continue;
                }
                let Some(Some(ir)) = line_node.get(line - 1) else { continue };
                // a line may carry the IR node's operator plus a type anchor (`identity::<T>()`):
                // only the operator with the IR node's own name counts
                if let Some(want) = names.get(ir) {
                    if node.to_name_string() != *want {
                        continue;
                    }
                }
                if nodes.contains_key(ir) {
                    continue;
                }
                let role = match colors.get(nid) {
                    Some(c) => {
                        let s = format!("{c:?}");
                        if s.contains("Pull") {
                            Role::Pull
                        } else if s.contains("Push") {
                            Role::Push
                        } else {
                            Role::Unknown
                        }
                    }
                    None => Role::Unknown,
                };
                let sg = g
                    .node_subgraph(nid)
                    .and_then(|s| sg_ord.get(&format!("{s:?}")).copied())
                    .unwrap_or(usize::MAX);
                nodes.insert(*ir, (role, sg));
            }
            _ => {}
        }
    }
    Verdict::Accept(Shape { nodes, n_subgraphs: sg_ord.len(), n_handoffs })
}
