//! Known findings of this engine: for each, a fixed minimal probe (run on every check so that the
//! finding is re-confirmed against the current tree and reported with its exact signature) and the
//! generator-side exclusion that keeps the random search going behind it.

use crate::interp::{Run, Script, Step};
use crate::ir::*;
use crate::sem::SemCase;
use crate::shape::{Role, Shape};

pub struct Probe {
    pub sig: &'static str,
    pub what: &'static str,
    pub case: SemCase,
}

fn e(node: usize, port: usize) -> Edge {
    Edge { node, port }
}

fn ticks(items: Vec<Vec<Val>>) -> Script {
    Script { steps: items.into_iter().map(|v| Step { send: vec![v], run: Run::Tick }).collect() }
}

pub const SIG_REDUCE_NO_REPLAY_PUSH: &str = "reduce_no_replay:push-side:single-new-item-in-a-later-tick-not-emitted";

/// Programs the random generators skip because a known finding applies (label -> reason).
pub fn excluded_by_known_finding(prog: &Prog, shape: &Shape) -> Option<&'static str> {
    for (idx, (role, _)) in &shape.nodes {
        if matches!(prog.nodes[*idx].op, Op::Reduce { replay: false, .. }) && *role == Role::Push {
            return Some("known-finding:reduce_no_replay-on-push-side");
        }
    }
    None
}

pub fn probes() -> Vec<Probe> {
    let mut v = vec![];
    // reduce_no_replay realised as a push operator: the "was updated" flag is only set inside the
    // reduce closure, which is not called for the item that initialises the accumulator.
    {
        let prog = Prog {
            nodes: vec![
                Node { op: Op::SrcStream { src: 0, ty: Ty::I }, ins: vec![] },
                Node { op: Op::Tee { n: 2 }, ins: vec![e(0, 0)] },
                Node { op: Op::Reduce { pers: vec![Pers::Tick], f: RedFn::Sum, replay: false }, ins: vec![e(1, 0)] },
                Node { op: Op::ForEach { sink: 0 }, ins: vec![e(2, 0)] },
                Node { op: Op::ForEach { sink: 1 }, ins: vec![e(1, 1)] },
            ],
            sources: vec![Ty::I],
            stmt_order: None,
        };
        let script = ticks(vec![vec![], vec![Val::I(5)], vec![Val::I(1), Val::I(2)]]);
        v.push(Probe {
            sig: SIG_REDUCE_NO_REPLAY_PUSH,
            what: "reduce_no_replay on the push side of a subgraph (e.g. after tee()) emits nothing in a tick > 0 in which exactly one item initialises its accumulator ('tick: every tick with a single item; 'static: the first item ever): the push code path sets its was_updated flag inside the reduce closure, which push::reduce_ref does not call for the first item; the pull code path emits the item",
            case: SemCase { prog, scripts: vec![script], tags: vec![] },
        });
    }
    v
}
