//! Batch-crate pipeline: write a generated cargo crate with N program modules spread over several
//! binaries, build it with cargo (offline), attribute rustc errors to individual programs
//! (excluded + counted, never violations), run the binaries and collect their JSON-line outputs.

use crate::emit::SUPPORT_LIB;
use serde_json::Value as J;
use std::collections::{BTreeMap, BTreeSet};
use std::path::{Path, PathBuf};
use std::process::{Command, Stdio};
use std::time::Instant;

pub struct Unit {
    pub id: u64,
    /// Rust source of the module: must define `pub fn run(script: &Script) -> RunOut`
    pub source: String,
    /// scripts in wire form: {"steps":[{"send":[[..],..],"run":"t"|"a"}]}
    pub scripts: Vec<J>,
}

#[derive(Clone, Debug, PartialEq)]
pub enum RunRes {
    Ok { log: Vec<(u64, usize, J)>, ticks: Vec<u64> },
    Panic(String),
    Hang,
    Missing,
}

#[derive(Default)]
pub struct BatchOut {
    /// units rustc rejected, with the first error message attributed to them
    pub rejected: BTreeMap<u64, String>,
    pub runs: BTreeMap<(u64, usize), RunRes>,
    pub build_s: f64,
    pub run_s: f64,
    pub build_rounds: u32,
}

pub fn verif_root() -> PathBuf {
    if let Ok(r) = std::env::var("VERIF_ROOT") {
        return PathBuf::from(r);
    }
    // engines/dfirsem -> ../..
    let here = std::env::current_dir().unwrap_or_else(|_| PathBuf::from("."));
    let cand = here.join("../..");
    if cand.join("check").exists() {
        return cand.canonicalize().unwrap_or(cand);
    }
    PathBuf::from("/verif")
}

pub fn verif_repo() -> PathBuf {
    if let Ok(r) = std::env::var("VERIF_REPO") {
        return PathBuf::from(r);
    }
    verif_root().join("repo")
}

fn write_if_changed(p: &Path, s: &str) -> std::io::Result<()> {
    if let Ok(old) = std::fs::read_to_string(p) {
        if old == s {
            return Ok(());
        }
    }
    std::fs::write(p, s)
}

const STUB: &str = "#![allow(warnings)]\nuse gd::*;\npub fn run(_script: &Script) -> RunOut { panic!(\"excluded: rustc rejected this generated program\") }\n";

/// Parse cargo/rustc human-readable stderr: map program id -> first error text mentioning it;
/// second component: number of error blocks that could not be attributed to a program module.
fn attribute_errors(stderr: &str) -> (BTreeMap<u64, String>, usize, String) {
    let mut blocks: Vec<(bool, String)> = vec![];
    for line in stderr.lines() {
        let is_start = line.starts_with("error") || line.starts_with("warning");
        if is_start {
            blocks.push((line.starts_with("error"), String::new()));
        }
        if let Some(b) = blocks.last_mut() {
            b.1.push_str(line);
            b.1.push('\n');
        }
    }
    let mut per: BTreeMap<u64, String> = BTreeMap::new();
    let mut unattributed = 0;
    let mut first_unattributed = String::new();
    for (is_err, text) in blocks {
        if !is_err {
            continue;
        }
        if text.starts_with("error: could not compile") || text.starts_with("error: aborting") {
            continue;
        }
        let mut ids = BTreeSet::new();
        let mut rest = &text[..];
        while let Some(pos) = rest.find("progs/p") {
            let tail = &rest[pos + "progs/p".len()..];
            let digits: String = tail.chars().take_while(|c| c.is_ascii_digit()).collect();
            if !digits.is_empty() && tail[digits.len()..].starts_with(".rs") {
                if let Ok(id) = digits.parse::<u64>() {
                    ids.insert(id);
                }
            }
            rest = tail;
        }
        if ids.is_empty() {
            unattributed += 1;
            if first_unattributed.is_empty() {
                first_unattributed = text.clone();
            }
        }
        for id in ids {
            per.entry(id).or_insert_with(|| text.chars().take(1500).collect());
        }
    }
    (per, unattributed, first_unattributed)
}

pub fn run_batch(name: &str, units: &[Unit]) -> Result<BatchOut, String> {
    let root = verif_root();
    let repo = verif_repo();
    let dir = root.join("work").join("dfirsem").join(name);
    let target = root.join("target").join("dfirsem-gen");
    let ioerr = |e: std::io::Error| format!("io error in batch dir: {e}");
    let _ = std::fs::remove_dir_all(dir.join("src"));
    std::fs::create_dir_all(dir.join("src/progs")).map_err(ioerr)?;
    std::fs::create_dir_all(dir.join("src/bin")).map_err(ioerr)?;
    let safe: String = name
        .chars()
        .map(|c| if c.is_ascii_alphanumeric() { c.to_ascii_lowercase() } else { '_' })
        .collect();
    let cargo_toml = format!(
        r#"[package]
name = "gd-{safe}"
version = "0.0.0"
edition = "2024"
publish = false

[workspace]

[lib]
name = "gd"
path = "src/lib.rs"

[dependencies]
dfir_rs = {{ path = "{}/dfir_rs", default-features = false, features = ["macros", "tokio"] }}
serde_json = "1"

[profile.dev]
opt-level = 0
debug = false
incremental = false
overflow-checks = true
debug-assertions = true
"#,
        repo.display()
    );
    write_if_changed(&dir.join("Cargo.toml"), &cargo_toml).map_err(ioerr)?;
    if !dir.join("Cargo.lock").exists() {
        std::fs::copy(repo.join("Cargo.lock"), dir.join("Cargo.lock")).map_err(ioerr)?;
    }
    std::fs::write(dir.join("src/lib.rs"), SUPPORT_LIB).map_err(ioerr)?;
    for u in units {
        std::fs::write(dir.join(format!("src/progs/p{}.rs", u.id)), &u.source).map_err(ioerr)?;
    }
    // distribute over bins
    let nb = (units.len() / 3).clamp(1, 16);
    let mut bins: Vec<Vec<u64>> = vec![vec![]; nb];
    for (k, u) in units.iter().enumerate() {
        bins[k % nb].push(u.id);
    }
    let bin_name = |k: usize| format!("{safe}_b{k}");
    for (k, ids) in bins.iter().enumerate() {
        let mut s = String::from("#![allow(warnings)]\n");
        for id in ids {
            s.push_str(&format!("#[path = \"../progs/p{id}.rs\"]\nmod p{id};\n"));
        }
        s.push_str("fn main() {\n    gd::main_loop(&[\n");
        for id in ids {
            s.push_str(&format!("        ({id}u64, p{id}::run as fn(&gd::Script) -> gd::RunOut),\n"));
        }
        s.push_str("    ]);\n}\n");
        std::fs::write(dir.join(format!("src/bin/{}.rs", bin_name(k))), s).map_err(ioerr)?;
    }

    let mut out = BatchOut::default();
    let t0 = Instant::now();
    let mut rustflags = std::env::var("RUSTFLAGS").unwrap_or_default();
    if !rustflags.contains("hydro_project_hydro_verif") {
        rustflags = format!("{rustflags} --cfg hydro_project_hydro_verif").trim().to_string();
    }
    loop {
        out.build_rounds += 1;
        let res = Command::new("cargo")
            .args(["build", "--offline", "--bins", "--color", "never"])
            .current_dir(&dir)
            .env("CARGO_TARGET_DIR", &target)
            .env("CARGO_NET_OFFLINE", "true")
            .env("RUSTFLAGS", &rustflags)
            .env("CARGO_TERM_COLOR", "never")
            .stdin(Stdio::null())
            .output()
            .map_err(|e| format!("cannot run cargo: {e}"))?;
        if res.status.success() {
            break;
        }
        let stderr = String::from_utf8_lossy(&res.stderr).to_string();
        let (per, unattributed, first_un) = attribute_errors(&stderr);
        let new: Vec<u64> = per.keys().copied().filter(|id| !out.rejected.contains_key(id)).collect();
        if new.is_empty() {
            let tail: String = stderr.chars().rev().take(3000).collect::<String>().chars().rev().collect();
            return Err(format!(
                "cargo build of the batch crate failed and no error could be attributed to a program module ({unattributed} unattributed):\n{first_un}\n...\n{tail}"
            ));
        }
        for id in new {
            out.rejected.insert(id, per[&id].clone());
            std::fs::write(dir.join(format!("src/progs/p{id}.rs")), STUB).map_err(ioerr)?;
        }
        if out.build_rounds > 6 {
            return Err("batch crate still does not build after 6 exclusion rounds".into());
        }
    }
    out.build_s = t0.elapsed().as_secs_f64();

    // inputs
    let mut input = serde_json::Map::new();
    for u in units {
        if out.rejected.contains_key(&u.id) {
            continue;
        }
        input.insert(u.id.to_string(), J::Array(u.scripts.clone()));
    }
    let input_path = dir.join("input.json");
    std::fs::write(&input_path, serde_json::to_string(&J::Object(input)).unwrap()).map_err(ioerr)?;

    let t1 = Instant::now();
    let outputs: Vec<Result<String, String>> = std::thread::scope(|sc| {
        let hs: Vec<_> = (0..nb)
            .map(|k| {
                let exe = target.join("debug").join(bin_name(k));
                let input_path = input_path.clone();
                sc.spawn(move || {
                    let r = Command::new(&exe)
                        .arg(&input_path)
                        .stdin(Stdio::null())
                        .stderr(Stdio::null())
                        .output()
                        .map_err(|e| format!("cannot run {}: {e}", exe.display()))?;
                    Ok(String::from_utf8_lossy(&r.stdout).to_string())
                })
            })
            .collect();
        hs.into_iter().map(|h| h.join().unwrap_or_else(|_| Err("runner thread panicked".into()))).collect()
    });
    out.run_s = t1.elapsed().as_secs_f64();
    for o in outputs {
        let o = o?;
        for line in o.lines() {
            let Ok(j) = serde_json::from_str::<J>(line) else { continue };
            let (Some(u), Some(s)) = (j["u"].as_u64(), j["s"].as_u64()) else { continue };
            let res = if j.get("hang").is_some() {
                RunRes::Hang
            } else if let Some(p) = j.get("panic") {
                RunRes::Panic(p.as_str().unwrap_or("").to_string())
            } else {
                let log = j["log"]
                    .as_array()
                    .map(|a| {
                        a.iter()
                            .map(|e| (e[0].as_u64().unwrap_or(u64::MAX), e[1].as_u64().unwrap_or(0) as usize, e[2].clone()))
                            .collect()
                    })
                    .unwrap_or_default();
                let ticks = j["ticks"]
                    .as_array()
                    .map(|a| a.iter().map(|x| x.as_u64().unwrap_or(u64::MAX)).collect())
                    .unwrap_or_default();
                RunRes::Ok { log, ticks }
            };
            out.runs.insert((u, s as usize), res);
        }
    }
    for u in units {
        if out.rejected.contains_key(&u.id) {
            continue;
        }
        for s in 0..u.scripts.len() {
            out.runs.entry((u.id, s)).or_insert(RunRes::Missing);
        }
    }
    Ok(out)
}
