//! Bounded delta debugging of a failing (program, script) pair: script shrinking (no recompile of
//! different programs needed) and program shrinking (all one-step candidates of a round are
//! compiled together in one batch crate).

use crate::analysis::analyze;
use crate::interp::{Machine, Run, Script, Step};
use crate::ir::*;
use crate::sem::{prepare, run_prepared, SemCase, SemStats};
use std::collections::{BTreeMap, BTreeSet};

/// Remove the nodes in `dead`, remap all indices. Nodes referencing removed nodes must not exist.
fn remove_nodes(p: &Prog, dead: &BTreeSet<usize>) -> Prog {
    let mut map = BTreeMap::new();
    let mut nodes = vec![];
    for (i, n) in p.nodes.iter().enumerate() {
        if dead.contains(&i) {
            continue;
        }
        map.insert(i, nodes.len());
        nodes.push(n.clone());
    }
    for n in nodes.iter_mut() {
        for e in n.ins.iter_mut() {
            e.node = map[&e.node];
        }
        if let Op::RefMap { target, .. } = &mut n.op {
            *target = map[target];
        }
    }
    Prog { nodes, sources: p.sources.clone(), stmt_order: None }
}

/// Dead-code elimination after a cut: drop nodes none of whose outputs is consumed, shrink tees,
/// cap unconsumed ports of fixed multi-output operators with `null()`, drop unused sources
/// (script columns are dropped accordingly).
pub fn dce(mut p: Prog, script: &mut Script) -> Prog {
    loop {
        let n = p.nodes.len();
        let mut used: Vec<BTreeSet<usize>> = vec![BTreeSet::new(); n];
        let mut referenced = BTreeSet::new();
        for node in &p.nodes {
            for e in &node.ins {
                used[e.node].insert(e.port);
            }
            if let Op::RefMap { target, .. } = node.op {
                referenced.insert(target);
            }
        }
        // 0. terminator `null()`s (their producer then dies or, if it is a tee, shrinks)
        let nulls: BTreeSet<usize> = (0..n)
            .filter(|&i| {
                matches!(p.nodes[i].op, Op::Null)
                    && !matches!(p.nodes[p.nodes[i].ins[0].node].op, Op::Unzip | Op::State { .. } | Op::StateBy { .. } | Op::DemuxEnum | Op::Partition { .. })
            })
            .collect();
        if !nulls.is_empty() {
            p = remove_nodes(&p, &nulls);
            continue;
        }
        // 1. fully dead nodes
        let dead: BTreeSet<usize> = (0..n)
            .filter(|&i| {
                !matches!(p.nodes[i].op, Op::ForEach { .. } | Op::Null) && used[i].is_empty() && !referenced.contains(&i)
            })
            .collect();
        if !dead.is_empty() {
            p = remove_nodes(&p, &dead);
            continue;
        }
        // 2. tees with unconsumed ports
        let mut changed = false;
        for i in 0..n {
            if let Op::Tee { n: tn } = p.nodes[i].op {
                if used[i].len() < tn {
                    let ports: Vec<usize> = used[i].iter().copied().collect();
                    let remap: BTreeMap<usize, usize> = ports.iter().enumerate().map(|(k, q)| (*q, k)).collect();
                    if ports.len() == 1 {
                        // bypass the tee
                        let src = p.nodes[i].ins[0];
                        for node in p.nodes.iter_mut() {
                            for e in node.ins.iter_mut() {
                                if e.node == i {
                                    *e = src;
                                }
                            }
                        }
                        p = remove_nodes(&p, &[i].into_iter().collect());
                    } else {
                        p.nodes[i].op = Op::Tee { n: ports.len() };
                        for node in p.nodes.iter_mut() {
                            for e in node.ins.iter_mut() {
                                if e.node == i {
                                    e.port = remap[&e.port];
                                }
                            }
                        }
                    }
                    changed = true;
                    break;
                }
            }
            let fixed_outs = match p.nodes[i].op {
                Op::Unzip | Op::State { .. } | Op::StateBy { .. } => 2,
                Op::DemuxEnum => 3,
                Op::Partition { n, .. } => n,
                _ => 0,
            };
            if fixed_outs > 0 && used[i].len() < fixed_outs {
                for port in 0..fixed_outs {
                    if !used[i].contains(&port) {
                        p.nodes.push(Node { op: Op::Null, ins: vec![Edge { node: i, port }] });
                    }
                }
                changed = true;
                break;
            }
        }
        if changed {
            continue;
        }
        break;
    }
    // compact sources
    let mut live: Vec<usize> = p
        .nodes
        .iter()
        .filter_map(|n| match n.op {
            Op::SrcStream { src, .. } => Some(src),
            _ => None,
        })
        .collect();
    live.sort();
    let map: BTreeMap<usize, usize> = live.iter().enumerate().map(|(k, s)| (*s, k)).collect();
    for n in p.nodes.iter_mut() {
        if let Op::SrcStream { src, .. } = &mut n.op {
            *src = map[src];
        }
    }
    p.sources = live.iter().map(|s| p.sources[*s].clone()).collect();
    for st in script.steps.iter_mut() {
        let old = std::mem::take(&mut st.send);
        st.send = live.iter().map(|s| old.get(*s).cloned().unwrap_or_default()).collect();
    }
    // renumber sinks densely
    let mut k = 0;
    for n in p.nodes.iter_mut() {
        if let Op::ForEach { sink } = &mut n.op {
            *sink = k;
            k += 1;
        }
    }
    p
}

fn all_tick(script: &Script) -> bool {
    script.steps.iter().all(|s| s.run == Run::Tick)
}

/// One-step program reductions.
fn program_candidates(case_prog: &Prog, script: &Script) -> Vec<(Prog, Script)> {
    let mut out = vec![];
    let Ok(a) = analyze(case_prog) else { return out };
    let n = case_prog.nodes.len();
    // per-tick recorded streams (only meaningful for run_tick scripts)
    let trace: Option<Vec<Vec<Vec<Vec<Val>>>>> = if all_tick(script) {
        let mut m = Machine::new(case_prog);
        let mut t = vec![];
        for st in &script.steps {
            let mut inputs = st.send.clone();
            inputs.resize(case_prog.sources.len(), vec![]);
            m.run_tick(&inputs);
            t.push(m.last_out.clone());
        }
        Some(t)
    } else {
        None
    };
    let push = |out: &mut Vec<(Prog, Script)>, p: Prog, mut s: Script| {
        let p = dce(p, &mut s);
        if analyze(&p).is_ok() && p.nodes.len() < n + 2 && !crate::analysis::short_circuit_hazard(&p) {
            out.push((p, s));
        }
    };
    // (a) statement order
    if case_prog.stmt_order.is_some() {
        let mut p = case_prog.clone();
        p.stmt_order = None;
        out.push((p, script.clone()));
    }
    for i in 0..n {
        let node = &case_prog.nodes[i];
        // (b) drop a sink
        if let Op::ForEach { .. } = node.op {
            if case_prog.n_sinks() > 1 {
                let mut p = case_prog.clone();
                p.nodes[i].op = Op::Null;
                p.stmt_order = None;
                push(&mut out, p, script.clone());
            }
            continue;
        }
        if matches!(node.op, Op::SrcStream { .. } | Op::SrcIter { .. } | Op::Null) {
            continue;
        }
        // (c) bypass a unary operator whose output type equals its input type
        if node.ins.len() == 1 && a.outs[i].len() == 1 && a.outs[i][0].ty == a.edge(node.ins[0]).ty {
            let src = node.ins[0];
            let mut p = case_prog.clone();
            p.stmt_order = None;
            let referenced = p.nodes.iter().any(|m| matches!(m.op, Op::RefMap { target, .. } if target == i));
            if !referenced {
                for m in p.nodes.iter_mut() {
                    for e in m.ins.iter_mut() {
                        if e.node == i {
                            *e = src;
                        }
                    }
                }
                let p = remove_nodes(&p, &[i].into_iter().collect());
                push(&mut out, p, script.clone());
            }
        }
        // (d) cut: replace the node by a fresh source that replays the model's stream on its output
        if let Some(tr) = &trace {
            if a.outs[i].len() == 1 && a.outs[i][0].ty.is_plain() && a.outs[i][0].ty != Ty::Unit && !contains_usize(&a.outs[i][0].ty) {
                let mut p = case_prog.clone();
                p.stmt_order = None;
                let src = p.sources.len();
                let ty = a.outs[i][0].ty.clone();
                p.sources.push(ty.clone());
                p.nodes[i] = Node { op: Op::SrcStream { src, ty }, ins: vec![] };
                let mut s = script.clone();
                for (t, st) in s.steps.iter_mut().enumerate() {
                    st.send.resize(src, vec![]);
                    st.send.push(tr[t][i][0].clone());
                }
                push(&mut out, p, s);
            }
        }
    }
    out
}

fn contains_usize(t: &Ty) -> bool {
    match t {
        Ty::U => true,
        Ty::T(v) => v.iter().any(contains_usize),
        _ => false,
    }
}

fn script_candidates(script: &Script) -> Vec<Script> {
    let mut out = vec![];
    let n = script.steps.len();
    // drop trailing steps
    for keep in 1..n {
        out.push(Script { steps: script.steps[..keep].to_vec() });
    }
    // drop one step
    for k in 0..n.saturating_sub(1) {
        let mut s = script.clone();
        s.steps.remove(k);
        out.push(s);
    }
    // empty one source in one step / drop one item
    for k in 0..n {
        for src in 0..script.steps[k].send.len() {
            let items = &script.steps[k].send[src];
            if items.is_empty() {
                continue;
            }
            let mut s = script.clone();
            s.steps[k].send[src].clear();
            out.push(s);
            if items.len() > 1 {
                for j in 0..items.len() {
                    let mut s = script.clone();
                    s.steps[k].send[src].remove(j);
                    out.push(s);
                }
            }
        }
    }
    out.truncate(120);
    out
}

fn script_size(s: &Script) -> usize {
    s.steps.iter().map(|st: &Step| 1 + st.send.iter().map(|v| v.len()).sum::<usize>()).sum()
}

/// Does (prog, script) still fail with a mismatch of the same kind?  Evaluates many at once.
fn failing(batch: &str, cases: Vec<SemCase>, kind: &str) -> Vec<Option<usize>> {
    // returns for each case the index of its first failing script
    let mut stats = SemStats::default();
    let mut idx_map = vec![];
    let mut prepared = vec![];
    for (k, c) in cases.into_iter().enumerate() {
        if let Some(p) = prepare(c, &mut stats) {
            idx_map.push(k);
            prepared.push(p);
        }
    }
    let mut res = vec![None; idx_map.iter().max().map(|m| m + 1).unwrap_or(0).max(prepared.len())];
    if prepared.is_empty() {
        return res;
    }
    let Ok(fails) = run_prepared(batch, &prepared, &mut stats, |_, _, _, _| {}) else {
        return res;
    };
    for f in fails {
        if f.mismatch.kind != kind {
            continue;
        }
        // find which prepared case this is
        for (pi, p) in prepared.iter().enumerate() {
            if p.case == f.case {
                // map the script index back to the original script list is not needed: prepared
                // cases keep only valid scripts, and we hand back the script itself below
                let k = idx_map[pi];
                if res.len() <= k {
                    res.resize(k + 1, None);
                }
                res[k] = Some(f.script_idx);
            }
        }
    }
    res
}

/// Reduce a failing case (program + one failing script). `rounds` bounds the number of recompiles.
pub fn reduce(batch: &str, prog: &Prog, script: &Script, kind: &str, rounds: usize) -> (Prog, Script, usize) {
    let mut prog = prog.clone();
    let mut script = script.clone();
    let mut compiles = 0;
    for _round in 0..rounds {
        let mut progress = false;
        // 1. shrink the script (one program, many scripts: a single compile)
        let cands = script_candidates(&script);
        if !cands.is_empty() {
            compiles += 1;
            let mut stats = SemStats::default();
            if let Some(p) = prepare(SemCase { prog: prog.clone(), scripts: cands, tags: vec![] }, &mut stats) {
                let mut failing_idx = vec![];
                let prepared = vec![p];
                let _ = run_prepared(batch, &prepared, &mut stats, |_, si, _, r| {
                    if let Err(m) = r {
                        if m.kind == kind {
                            failing_idx.push(si);
                        }
                    }
                });
                let best = failing_idx
                    .into_iter()
                    .map(|si| &prepared[0].case.scripts[si])
                    .min_by_key(|s| script_size(s));
                if let Some(b) = best {
                    if script_size(b) < script_size(&script) {
                        script = b.clone();
                        progress = true;
                    }
                }
            }
        }
        // 2. shrink the program
        let mut cands = program_candidates(&prog, &script);
        cands.truncate(32);
        if !cands.is_empty() {
            compiles += 1;
            let cases: Vec<SemCase> = cands.iter().map(|(p, s)| SemCase { prog: p.clone(), scripts: vec![s.clone()], tags: vec![] }).collect();
            let r = failing(batch, cases, kind);
            let mut best: Option<usize> = None;
            for (k, f) in r.iter().enumerate() {
                if f.is_some() && best.map(|b| cands[k].0.nodes.len() < cands[b].0.nodes.len()).unwrap_or(true) {
                    best = Some(k);
                }
            }
            if let Some(b) = best {
                if cands[b].0.nodes.len() < prog.nodes.len() || cands[b].0.stmt_order != prog.stmt_order {
                    prog = cands[b].0.clone();
                    script = cands[b].1.clone();
                    progress = true;
                }
            }
        }
        if !progress {
            break;
        }
    }
    (prog, script, compiles)
}
