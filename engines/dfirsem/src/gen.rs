//! Seeded random generator of typed IR programs (coverage-table driven) and of input histories.
//! Every generated program passes `analysis::analyze`, i.e. respects the order-class guard.

use crate::analysis::{infer, node_out, Card, EdgeInfo, Ord_};
use crate::interp::{Run, Script, Step};
use crate::ir::*;
use std::collections::BTreeMap;

/// splitmix64: tiny deterministic RNG (a run is a pure function of the seed).
#[derive(Clone)]
pub struct Rng(pub u64);

impl Rng {
    pub fn new(seed: u64) -> Rng {
        Rng(seed ^ 0x9E37_79B9_7F4A_7C15)
    }
    pub fn next(&mut self) -> u64 {
        self.0 = self.0.wrapping_add(0x9E37_79B9_7F4A_7C15);
        let mut z = self.0;
        z = (z ^ (z >> 30)).wrapping_mul(0xBF58_476D_1CE4_E5B9);
        z = (z ^ (z >> 27)).wrapping_mul(0x94D0_49BB_1331_11EB);
        z ^ (z >> 31)
    }
    /// uniform in 0..n (n > 0)
    pub fn below(&mut self, n: usize) -> usize {
        (self.next() % (n as u64)) as usize
    }
    pub fn range(&mut self, lo: i64, hi_incl: i64) -> i64 {
        lo + (self.next() % ((hi_incl - lo + 1) as u64)) as i64
    }
    pub fn chance(&mut self, num: u64, den: u64) -> bool {
        self.next() % den < num
    }
    pub fn pick<'a, T>(&mut self, v: &'a [T]) -> &'a T {
        &v[self.below(v.len())]
    }
    pub fn weighted(&mut self, w: &[f64]) -> usize {
        let total: f64 = w.iter().sum();
        let mut x = (self.next() >> 11) as f64 / (1u64 << 53) as f64 * total;
        for (i, wi) in w.iter().enumerate() {
            if x < *wi {
                return i;
            }
            x -= wi;
        }
        w.len() - 1
    }
    pub fn fork(&mut self) -> Rng {
        Rng::new(self.next())
    }
}

/// Coverage table: how often each (operator, persistence) cell was generated in this run;
/// the pull/push role is added after partitioning (shape.rs).
#[derive(Default, Clone)]
pub struct Coverage {
    pub gen: BTreeMap<String, u64>,
    pub role: BTreeMap<String, (u64, u64)>, // label -> (pull, push)
}

impl Coverage {
    pub fn note_prog(&mut self, p: &Prog) {
        for n in &p.nodes {
            *self.gen.entry(n.op.label()).or_default() += 1;
        }
    }
    fn weight(&self, label: &str) -> f64 {
        let c = self.gen.get(label).copied().unwrap_or(0) as f64;
        1.0 / (1.0 + c)
    }
    pub fn to_json(&self) -> serde_json::Value {
        let mut m = serde_json::Map::new();
        let mut keys: Vec<&String> = self.gen.keys().chain(self.role.keys()).collect();
        keys.sort();
        keys.dedup();
        for k in keys {
            let (pull, push) = self.role.get(k).copied().unwrap_or((0, 0));
            m.insert(
                k.clone(),
                serde_json::json!({"generated": self.gen.get(k).copied().unwrap_or(0), "pull": pull, "push": push}),
            );
        }
        serde_json::Value::Object(m)
    }
}

#[derive(Clone, Debug)]
pub struct GenCfg {
    pub min_ops: usize,
    pub max_ops: usize,
    pub max_sinks: usize,
    /// operator names that may be generated (None = all)
    pub allow: Option<Vec<&'static str>>,
}

impl Default for GenCfg {
    fn default() -> Self {
        GenCfg { min_ops: 2, max_ops: 12, max_sinks: 4, allow: None }
    }
}

fn pers1() -> Vec<Vec<Pers>> {
    vec![vec![], vec![Pers::Tick], vec![Pers::Static]]
}
fn pers2() -> Vec<Vec<Pers>> {
    use Pers::*;
    vec![
        vec![],
        vec![Tick],
        vec![Static],
        vec![Tick, Tick],
        vec![Tick, Static],
        vec![Static, Tick],
        vec![Static, Static],
    ]
}

fn rand_map(r: &mut Rng) -> MapFn {
    let (a1, a2, a3, a4, a5, a6, a7) = (
        r.range(-2, 3),
        r.range(2, 5),
        *r.pick(&[5, 7, 11]),
        *r.pick(&[2, 3, 4]),
        *r.pick(&[2, 3]),
        r.range(-1, 2),
        *r.pick(&[2, 3]),
    );
    let m = [
        MapFn::AddC(a1),
        MapFn::MulMod(a2, a3),
        MapFn::Neg,
        MapFn::Half,
        MapFn::KeyMod(a4),
        MapFn::Dup,
        MapFn::Swap,
        MapFn::SwapMod(a5),
        MapFn::AddV(a6),
        MapFn::KeyModP(a7),
        MapFn::Fst,
        MapFn::Snd,
        MapFn::Comb,
        MapFn::NormI,
        MapFn::NormP,
    ];
    r.pick(&m).clone()
}

/// All operator templates, one per (operator, persistence) cell, with random closure parameters.
fn templates(r: &mut Rng) -> Vec<Op> {
    let (c1, c2, c3, c4) = (r.range(1, 6), r.range(0, 4), r.range(1, 5), r.range(1, 5));
    let mut v = vec![
        Op::Map(rand_map(r)),
        Op::Filter(r.pick(&[Pred::Even, Pred::Lt(c1), Pred::Ne(c2), Pred::KeyEven, Pred::ValLt(c3), Pred::KLtV]).clone()),
        Op::FilterMap(r.pick(&[FmFn::HalfEven, FmFn::Diff, FmFn::HalfV]).clone()),
        Op::FlatMap(r.pick(&[FlatFn::Two, FlatFn::Range, FlatFn::Both, FlatFn::Mirror]).clone()),
        Op::Flatten,
        Op::Inspect,
        Op::Identity { typed: r.chance(1, 2) },
        Op::Sort,
        Op::SortByKey(r.pick(&[KeyFn::Whole, KeyFn::K, KeyFn::V]).clone()),
        Op::Handoff,
        Op::Singleton,
        Op::Optional,
        Op::Unzip,
        Op::Partition { f: r.pick(&[PartFn::Mod, PartFn::Lt(c4)]).clone(), n: 2 + r.below(2) },
        Op::Union { n: 2 + r.below(2) },
        Op::Chain,
        Op::ChainFirstN { n: 1 + r.below(4) },
        Op::DeferSignal,
        Op::DemuxEnum,
        Op::LatticeFoldBatch,
        Op::Persist,
        Op::MultisetDelta,
        Op::DeferTick { lazy: false, back: None },
        Op::DeferTick { lazy: true, back: None },
        Op::ZipLongest { pers: vec![] },
        Op::ZipLongest { pers: vec![Pers::Tick] },
        Op::CrossSingleton { pers: vec![] },
        Op::CrossSingleton { pers: vec![Pers::Tick] },
        Op::JoinMultisetHalf { pers: vec![] },
        Op::JoinMultisetHalf { pers: vec![Pers::Tick] },
        Op::JoinMultisetHalf { pers: vec![Pers::Tick, Pers::Tick] },
    ];
    let folds = [FoldFn::Sum, FoldFn::Count, FoldFn::Max, FoldFn::Poly, FoldFn::Push, FoldFn::SumP, FoldFn::PolyP];
    let reds = [RedFn::Sum, RedFn::Max, RedFn::Min, RedFn::First, RedFn::Last, RedFn::Poly, RedFn::SumP];
    let c5 = r.range(3, 12);
    let scans = [ScanFn::RunSum, ScanFn::SumUntil(c5), ScanFn::RunKeyed];
    let aggs = [FusedAgg::ReduceSum, FusedAgg::ReducePoly, FusedAgg::FoldSum, FusedAgg::FoldFromSum];
    for p in pers1() {
        v.push(Op::Enumerate { pers: p.clone() });
        for replay in [true, false] {
            v.push(Op::Fold { pers: p.clone(), f: r.pick(&folds).clone(), replay });
            v.push(Op::Reduce { pers: p.clone(), f: r.pick(&reds).clone(), replay });
        }
        v.push(Op::FoldKeyed { pers: p.clone(), f: r.pick(&folds[..5]).clone() });
        v.push(Op::ReduceKeyed { pers: p.clone(), f: r.pick(&reds[..6]).clone() });
        v.push(Op::Scan { pers: p.clone(), f: r.pick(&scans).clone() });
        v.push(Op::Unique { pers: p.clone() });
        v.push(Op::LatticeFold { pers: p.clone() });
        v.push(Op::LatticeReduce { pers: p.clone() });
        v.push(Op::State { pers: p.clone() });
        v.push(Op::StateBy { pers: p.clone() });
    }
    for p in pers2() {
        v.push(Op::Zip { pers: p.clone() });
        for multiset in [false, true] {
            v.push(Op::Join { pers: p.clone(), multiset });
            v.push(Op::CrossJoin { pers: p.clone(), multiset });
        }
        v.push(Op::LatticeJoinFused { pers: p.clone() });
        v.push(Op::AntiJoin { pers: p.clone() });
        v.push(Op::Difference { pers: p.clone() });
        v.push(Op::JoinFused { pers: p.clone(), lhs: Some(r.pick(&aggs).clone()), rhs: Some(r.pick(&aggs).clone()) });
        v.push(Op::JoinFused { pers: p.clone(), lhs: Some(r.pick(&aggs).clone()), rhs: None });
        v.push(Op::JoinFused { pers: p.clone(), lhs: None, rhs: Some(r.pick(&aggs).clone()) });
    }
    v
}

/// Unary adapters that may be slipped in front of an input to make an operator applicable.
fn adapters() -> Vec<Option<Op>> {
    vec![
        None,
        Some(Op::Map(MapFn::KeyMod(3))),
        Some(Op::Map(MapFn::Fst)),
        Some(Op::Map(MapFn::Snd)),
        Some(Op::Map(MapFn::NormP)),
        Some(Op::Map(MapFn::NormI)),
        Some(Op::Sort),
        Some(Op::Map(MapFn::ToVec2)),
        Some(Op::Map(MapFn::ToRangeVec)),
        Some(Op::Map(MapFn::ToMax)),
        Some(Op::Map(MapFn::ToSet)),
        Some(Op::Map(MapFn::ToShape)),
        Some(Op::Map(MapFn::KeyMax)),
    ]
}

struct Builder {
    p: Prog,
    open: Vec<(Edge, EdgeInfo)>,
    ops: usize,
}

impl Builder {
    fn push(&mut self, op: Op, ins: Vec<Edge>, infos: &[EdgeInfo]) -> Result<usize, String> {
        let idx = self.p.nodes.len();
        let outs = node_out(&self.p, idx, &op, infos)?;
        self.p.nodes.push(Node { op, ins });
        for (port, info) in outs.into_iter().enumerate() {
            self.open.push((Edge { node: idx, port }, info));
        }
        Ok(idx)
    }
    fn take_open(&mut self, e: Edge) {
        self.open.retain(|(x, _)| *x != e);
    }
}

pub fn gen_prog(r: &mut Rng, cov: &Coverage, cfg: &GenCfg) -> Prog {
    'retry: loop {
        let nsrc = 1 + r.below(3);
        let mut b = Builder {
            p: Prog { nodes: vec![], sources: vec![], stmt_order: None },
            open: vec![],
            ops: 0,
        };
        for s in 0..nsrc {
            let ty = if r.chance(1, 2) { Ty::I } else { Ty::p() };
            b.p.sources.push(ty.clone());
            b.push(Op::SrcStream { src: s, ty }, vec![], &[]).unwrap();
        }
        if r.chance(1, 4) {
            let ty = if r.chance(1, 2) { Ty::I } else { Ty::p() };
            let n = r.below(5);
            let items = (0..n).map(|_| rand_item(r, &ty)).collect();
            b.push(Op::SrcIter { items, ty }, vec![], &[]).unwrap();
        }
        if r.chance(1, 8) && cfg.allow.is_none() {
            b.push(Op::Initialize, vec![], &[]).unwrap();
        }
        let target = cfg.min_ops + r.below(cfg.max_ops - cfg.min_ops + 1);
        let mut attempts = 0;
        while b.ops < target && attempts < target * 12 {
            attempts += 1;
            let mut ts = templates(r);
            if let Some(allow) = &cfg.allow {
                ts.retain(|t| allow.contains(&t.name()));
            }
            let w: Vec<f64> = ts.iter().map(|t| cov.weight(&t.label())).collect();
            let op = ts[r.weighted(&w)].clone();
            try_apply(r, &mut b, op);
        }
        if b.ops < cfg.min_ops {
            continue 'retry;
        }
        // close every open edge
        let mut sink = 0;
        let open = std::mem::take(&mut b.open);
        for (e, info) in open {
            let op = if sink < cfg.max_sinks {
                sink += 1;
                Op::ForEach { sink: sink - 1 }
            } else {
                Op::Null
            };
            b.push(op, vec![e], &[info]).unwrap();
        }
        if sink == 0 {
            continue 'retry;
        }
        if r.chance(1, 3) {
            let mut o: Vec<usize> = (0..b.p.nodes.len()).collect();
            for i in (1..o.len()).rev() {
                o.swap(i, r.below(i + 1));
            }
            b.p.stmt_order = Some(o);
        }
        if crate::analysis::short_circuit_hazard(&b.p) {
            continue 'retry;
        }
        match crate::analysis::analyze(&b.p) {
            Ok(_) => return b.p,
            Err(e) => panic!("generator produced an invalid program: {e}\n{:?}", b.p),
        }
    }
}

/// Try to attach `op` to randomly chosen open edges, inserting adapters / tees / fresh sources
/// where needed. Returns whether it succeeded.
fn try_apply(r: &mut Rng, b: &mut Builder, op: Op) -> bool {
    let n_in = op.n_inputs();
    if n_in == 0 {
        return false;
    }
    for _try in 0..6 {
        if b.open.is_empty() {
            return false;
        }
        // choose distinct open edges (or duplicate one through a tee for binary operators)
        let mut chosen: Vec<(Edge, EdgeInfo)> = vec![];
        let mut tee_dup = false;
        if n_in >= 2 && (b.open.len() < n_in || r.chance(1, 4)) {
            // self-combination: both inputs derive from the same stream via tee
            let k = r.below(b.open.len());
            chosen.push(b.open[k].clone());
            tee_dup = true;
        } else {
            let mut idxs: Vec<usize> = (0..b.open.len()).collect();
            for i in (1..idxs.len()).rev() {
                idxs.swap(i, r.below(i + 1));
            }
            for k in idxs.into_iter().take(n_in) {
                chosen.push(b.open[k].clone());
            }
        }
        // search adapters
        let ads = adapters();
        let mut combos: Vec<Vec<usize>> = vec![vec![]];
        for _ in 0..n_in {
            let mut next = vec![];
            for c in &combos {
                for a in 0..ads.len() {
                    let mut c2 = c.clone();
                    c2.push(a);
                    next.push(c2);
                }
            }
            combos = next;
            if combos.len() > 2000 {
                combos.truncate(2000);
            }
        }
        // prefer few adapters; shuffle among equals
        let mut keyed: Vec<(usize, u64, Vec<usize>)> = combos
            .into_iter()
            .map(|c| (c.iter().filter(|a| **a != 0).count(), r.next(), c))
            .collect();
        keyed.sort();
        for (_, _, combo) in keyed {
            // compute infos after adapters
            let mut infos = vec![];
            let mut ok = true;
            for (k, a) in combo.iter().enumerate() {
                let base = if tee_dup { &chosen[0].1 } else { &chosen[k].1 };
                match &ads[*a] {
                    None => infos.push(base.clone()),
                    Some(ad) => match node_out(&b.p, usize::MAX, ad, std::slice::from_ref(base)) {
                        Ok(mut o) => infos.push(o.remove(0)),
                        Err(_) => {
                            ok = false;
                            break;
                        }
                    },
                }
            }
            if !ok {
                continue;
            }
            if node_out(&b.p, usize::MAX, &op, &infos).is_err() {
                continue;
            }
            // commit
            let mut edges: Vec<(Edge, EdgeInfo)> = vec![];
            if tee_dup {
                let (e, info) = chosen[0].clone();
                b.take_open(e);
                let t = b.push(Op::Tee { n: n_in }, vec![e], &[info.clone()]).unwrap();
                for port in 0..n_in {
                    let te = Edge { node: t, port };
                    b.take_open(te);
                    edges.push((te, info.clone()));
                }
            } else {
                for (e, info) in &chosen {
                    let (e, info) = (*e, info.clone());
                    b.take_open(e);
                    // sometimes keep the stream available for other consumers through a tee
                    if r.chance(1, 5) {
                        let t = b.push(Op::Tee { n: 2 }, vec![e], &[info.clone()]).unwrap();
                        let te = Edge { node: t, port: 0 };
                        b.take_open(te);
                        edges.push((te, info));
                    } else {
                        edges.push((e, info));
                    }
                }
            }
            let mut ins = vec![];
            let mut in_infos = vec![];
            for (k, a) in combo.iter().enumerate() {
                let (e, info) = edges[k].clone();
                match &ads[*a] {
                    None => {
                        ins.push(e);
                        in_infos.push(info);
                    }
                    Some(ad) => {
                        let ai = b.push(ad.clone(), vec![e], &[info]).unwrap();
                        let ae = Edge { node: ai, port: 0 };
                        let ainfo = b.open.iter().find(|(x, _)| *x == ae).unwrap().1.clone();
                        b.take_open(ae);
                        ins.push(ae);
                        in_infos.push(ainfo);
                    }
                }
            }
            b.push(op, ins, &in_infos).expect("checked applicable");
            b.ops += 1;
            return true;
        }
    }
    false
}

pub fn rand_item(r: &mut Rng, ty: &Ty) -> Val {
    match ty {
        Ty::I => Val::I(r.range(-1, 6)),
        Ty::U => Val::I(r.range(0, 5)),
        Ty::Unit => Val::T(vec![]),
        Ty::T(v) if *ty == Ty::p() => {
            let _ = v;
            Val::p(r.range(0, 3), r.range(0, 4))
        }
        Ty::T(v) => Val::T(v.iter().map(|t| rand_item(r, t)).collect()),
        _ => panic!("no random items for {ty:?}"),
    }
}

/// A per-tick input history: 3-8 ticks, 0-5 items per source per tick over a small domain, with
/// empty ticks and repeated items across ticks.
pub fn gen_history(r: &mut Rng, sources: &[Ty], min_ticks: usize, max_ticks: usize) -> Vec<Vec<Vec<Val>>> {
    let ticks = min_ticks + r.below(max_ticks - min_ticks + 1);
    let mut h: Vec<Vec<Vec<Val>>> = vec![];
    for t in 0..ticks {
        let mut per = vec![];
        for ty in sources {
            let mode = r.below(10);
            let items: Vec<Val> = if mode < 2 {
                vec![]
            } else if mode < 4 && t > 0 {
                // repeat (part of) what this source sent in an earlier tick
                let prev: &Vec<Val> = &h[r.below(t)][per.len()];
                prev.iter().filter(|_| r.chance(2, 3)).cloned().collect()
            } else {
                let n = r.below(6);
                (0..n).map(|_| rand_item(r, ty)).collect()
            };
            per.push(items);
        }
        h.push(per);
    }
    h
}

pub fn script_of_history(h: &[Vec<Vec<Val>>], run: Run) -> Script {
    Script { steps: h.iter().map(|t| Step { send: t.clone(), run }).collect() }
}

pub fn script_wire(s: &Script) -> serde_json::Value {
    serde_json::json!({"steps": s.steps.iter().map(|st| serde_json::json!({
        "send": st.send.iter().map(|v| v.iter().map(|x| x.to_json()).collect::<Vec<_>>()).collect::<Vec<_>>(),
        "run": match st.run { Run::Tick => "t", Run::Available => "a" },
    })).collect::<Vec<_>>()})
}

pub fn ord_name(o: Ord_) -> &'static str {
    match o {
        Ord_::Seq => "Seq",
        Ord_::Bag => "Bag",
    }
}

pub fn card_name(c: Card) -> &'static str {
    match c {
        Card::One => "One",
        Card::Opt => "Opt",
        Card::Many => "Many",
    }
}

/// sanity helper for tests / debugging
pub fn check_valid(p: &Prog) -> Result<(), String> {
    infer(p).map(|_| ())
}

/// Per-operator cell programs: for every (operator, persistence) template a minimal program
/// `sources -> [adapters] -> op -> sinks`, once as generated (pull side where possible) and, for
/// unary operators, once behind `tee()` (push side). Guarantees that every cell is exercised in
/// isolation on every run (frequency floor of the coverage table).
pub fn gen_cell_progs(r: &mut Rng) -> Vec<(Prog, String)> {
    let mut out = vec![];
    for c in gen_cells(r) {
        if let Some(pp) = c.after_tee {
            out.push((pp, format!("{}@after-tee", c.label)));
        }
        out.push((c.direct, format!("{}@direct", c.label)));
    }
    out
}

pub struct Cell {
    pub label: String,
    pub direct: Prog,
    pub after_tee: Option<Prog>,
}

pub fn gen_cells(r: &mut Rng) -> Vec<Cell> {
    let mut out = vec![];
    for op in templates(r) {
        let label = op.label();
        let mut built = None;
        for _ in 0..4 {
            let mut b = Builder {
                p: Prog { nodes: vec![], sources: vec![], stmt_order: None },
                open: vec![],
                ops: 0,
            };
            for (s, ty) in [Ty::I, Ty::p(), Ty::I, Ty::p()].into_iter().enumerate() {
                b.p.sources.push(ty.clone());
                b.push(Op::SrcStream { src: s, ty }, vec![], &[]).unwrap();
            }
            if !try_apply(r, &mut b, op.clone()) {
                continue;
            }
            let op_idx = b.p.nodes.iter().rposition(|n| n.op == op).unwrap();
            // close: outputs of the operator get sinks, unused sources are dropped by dce
            let open = std::mem::take(&mut b.open);
            let mut sink = 0;
            for (e, info) in open {
                let is_src = matches!(b.p.nodes[e.node].op, Op::SrcStream { .. });
                let o = if is_src {
                    Op::Null
                } else {
                    sink += 1;
                    Op::ForEach { sink: sink - 1 }
                };
                b.push(o, vec![e], &[info]).unwrap();
            }
            if sink == 0 {
                continue;
            }
            let mut dummy = Script { steps: vec![] };
            let prog = crate::reduce::dce(b.p, &mut dummy);
            if crate::analysis::analyze(&prog).is_err() || crate::analysis::short_circuit_hazard(&prog) {
                continue;
            }
            let op_idx = prog.nodes.iter().rposition(|n| n.op == op).unwrap_or(op_idx.min(prog.nodes.len() - 1));
            built = Some((prog, op_idx));
            break;
        }
        let Some((prog, op_idx)) = built else { continue };
        let after_tee = if prog.nodes[op_idx].ins.len() == 1 { crate::rewrite::force_push(&prog, op_idx) } else { None };
        out.push(Cell { label, direct: prog, after_tee });
    }
    out
}

/// Dense histories for the cell programs: 5-8 ticks over a very small domain so that items
/// repeat within and across ticks.
pub fn gen_history_dense(r: &mut Rng, sources: &[Ty]) -> Vec<Vec<Vec<Val>>> {
    let ticks = 5 + r.below(4);
    let mut h = vec![];
    for _ in 0..ticks {
        let mut per = vec![];
        for ty in sources {
            let n = if r.chance(1, 5) { 0 } else { r.below(5) };
            let items = (0..n)
                .map(|_| match ty {
                    Ty::I => Val::I(r.range(0, 3)),
                    _ => Val::p(r.range(0, 2), r.range(0, 2)),
                })
                .collect();
            per.push(items);
        }
        h.push(per);
    }
    h
}
