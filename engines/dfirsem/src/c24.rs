//! C24 — ticks advance one at a time; deferred data lands exactly in the next tick;
//! run_available keeps ticking for non-lazy deferred data but not for lazy data; 'tick state is
//! cleared at the end of every tick, 'static state is kept.

use crate::c21::{drive, replay_probe, Drive};
use crate::sem::*;
use crate::templates::gen_c24;
use vcommon::{Ctx, Obs};

pub const SUB: &str = "tick-and-defer-model";

pub fn run(ctx: &mut Ctx) {
    ctx.rule = "Cases are (template program, driver script): chains of 1-4 defer_tick / defer_tick_lazy in series, counter \
cycles closed through a tick delay (bounded by a filter), parallel lazy and non-lazy branches, and deferred streams joined \
with 'tick / 'static state, followed by stateful operators with both persistences; the script sends items and calls \
run_tick_sync() or run_available_sync() per step (all-tick, all-available and mixed scripts). Compared with the model: \
current_tick() after every call (= number of ticks executed: run_available runs >= 1 tick and continues exactly while \
non-lazy deferred data is waiting), the tick number seen inside the sink closures, and every (tick, sink) output group. \
A case is non-trivial iff lazy and non-lazy deferred data coexisted at the end of some tick or some run_available call \
executed >= 3 ticks."
        .into();
    ctx.assume("no external feedback channel (for_each -> channel -> source_stream) is generated: whether such a send lands in the same or the next tick is not documented");
    ctx.assume("nothing else wakes the dataflow between driver calls: items are sent only before a call");
    if ctx.is_replay() {
        ctx.check_all::<SemCase, _, _>(SUB, Vec::<SemCase>::new(), |case: &SemCase, obs: &mut Obs| {
            run_single("C24-replay", case, obs)
        });
        replay_probe(ctx, "C24-replay");
        return;
    }
    let tier = ctx.tier();
    let mut counter = 0usize;
    let kinds: std::cell::RefCell<std::collections::BTreeMap<u64, String>> = Default::default();
    drive(
        ctx,
        Drive { extra_prefix: "", sub: SUB, batch: format!("C24-{}", tier.name()), n_prog: tier.pick(48, 1000), chunk: tier.pick(48, 250), floor: tier.pick(30, 600) },
        |rng, _cov| {
            counter += 1;
            let (case, kind) = gen_c24(rng, counter);
            kinds.borrow_mut().insert(vcommon::hash64(&case.prog), kind);
            case
        },
        |p, si| p.expected[si].lazy_and_nonlazy > 0 || p.expected[si].max_avail_ticks >= 3,
        |p, si| {
            let k = kinds.borrow().get(&vcommon::hash64(&p.case.prog)).cloned().unwrap_or_default();
            let mode = {
                let s = &p.case.scripts[si];
                let a = s.steps.iter().filter(|x| x.run == crate::interp::Run::Available).count();
                if a == 0 {
                    "run_tick"
                } else if a == s.steps.len() {
                    "run_available"
                } else {
                    "mixed"
                }
            };
            vec![format!("template:{k}"), format!("driver:{mode}")]
        },
    );
}
