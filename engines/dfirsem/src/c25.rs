//! C25 — references read settled state and run in access-group order.

use crate::c21::{drive, replay_probe, Drive};
use crate::sem::*;
use crate::templates::gen_c25;
use vcommon::{Ctx, Obs};

pub const SUB: &str = "reference-group-order";

pub fn run(ctx: &mut Ctx) {
    ctx.rule = "Cases are (template program, input history): one or two singleton() / handoff() targets fed by a random \
same-tick pipeline (depth 1-5, handoffs, unions, tee-diamonds), 2-5 reference holders per target, each a map closure fed \
by its own source and holding `#{g} target` (readers: observe the value / the buffer's length or sum) or `#{g} mut target` \
(writers with order-sensitive updates: x <- (x*a + item) mod M on singletons, push / retain on handoff buffers); readers \
may share a group, a writer is alone in its group (front-end rule), ungrouped holders only as all-readers or a single \
writer; optionally the pipe consumer of the target. Oracle: sequential model - the target holds the complete output of \
its producers for the tick, then the groups run in ascending order, each holder for all its items, and the pipe consumer \
sees the value after all holders. A case is non-trivial iff some target has >= 3 groups with a writer group between two \
reader groups."
        .into();
    ctx.assume("the relative order of holders inside one access group is not modelled (only readers can share a group)");
    if ctx.is_replay() {
        ctx.check_all::<SemCase, _, _>(SUB, Vec::<SemCase>::new(), |case: &SemCase, obs: &mut Obs| {
            run_single("C25-replay", case, obs)
        });
        replay_probe(ctx, "C25-replay");
        return;
    }
    let tier = ctx.tier();
    let mut counter = 0usize;
    let kinds: std::cell::RefCell<std::collections::BTreeMap<u64, String>> = Default::default();
    drive(
        ctx,
        Drive { extra_prefix: "", sub: SUB, batch: format!("C25-{}", tier.name()), n_prog: tier.pick(48, 1000), chunk: tier.pick(48, 250), floor: tier.pick(30, 600) },
        |rng, _cov| {
            counter += 1;
            let (case, kind) = gen_c25(rng, counter);
            kinds.borrow_mut().insert(vcommon::hash64(&case.prog), kind);
            case
        },
        |p, _si| p.case.tags.iter().any(|(n, v)| n == "writer_between_readers" && *v == 1),
        |p, _si| {
            let k = kinds.borrow().get(&vcommon::hash64(&p.case.prog)).cloned().unwrap_or_default();
            let g = p.case.tags.iter().filter(|(n, _)| n == "groups").map(|(_, v)| *v).max().unwrap_or(0);
            vec![format!("targets:{k}"), format!("max-groups:{g}")]
        },
    );
}
