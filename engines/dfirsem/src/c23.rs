//! C23 — blocking inputs see the tick's complete input, however many subgraphs, handoffs, unions
//! or tees the data passed through; nothing emitted in a tick is contradicted later in that tick.

use crate::c21::{drive, replay_probe, Drive};
use crate::interp::trace;
use crate::sem::*;
use crate::templates::{gen_c23, C23_KINDS};
use vcommon::{Ctx, Obs};

pub const SUB: &str = "blocking-input-complete";

pub fn run(ctx: &mut Ctx) {
    ctx.rule = "Cases are (template program, input history): a blocking consumer (anti_join/difference neg, fold, reduce, \
sort, persist replay, fold_keyed, cross_singleton single, singleton()+#ref reader, handoff()+#ref reader, and a streaming \
unique downstream of a blocking difference as emit-then-contradict probe) whose blocking input is produced by a random \
same-tick pipeline of depth 1-8 (identity / map / handoff() / union of up to 3 sources / tee-diamonds whose long branch \
carries the odd items through extra handoffs), the other side fed straight from a source; per-(tick, sink) outputs are \
compared with the whole-tick reference interpreter. A case is non-trivial iff the blocking path crosses >= 2 explicit \
handoffs, contains a diamond, and in the history some item travelled the long branch of the diamond (so the data deciding \
the output arrived over the longest path)."
        .into();
    ctx.assume("whole-tick semantics: every operator input sees all items produced for it in the same tick (DFIR book: a tick runs the spec to fixpoint on the current batch)");
    if ctx.is_replay() {
        ctx.check_all::<SemCase, _, _>(SUB, Vec::<SemCase>::new(), |case: &SemCase, obs: &mut Obs| {
            run_single("C23-replay", case, obs)
        });
        replay_probe(ctx, "C23-replay");
        return;
    }
    let tier = ctx.tier();
    let mut counter = 0usize;
    let kinds: std::cell::RefCell<std::collections::BTreeMap<u64, String>> = Default::default();
    drive(
        ctx,
        Drive { extra_prefix: "", sub: SUB, batch: format!("C23-{}", tier.name()), n_prog: tier.pick(48, 1000), chunk: tier.pick(48, 250), floor: tier.pick(30, 600) },
        |rng, _cov| {
            counter += 1;
            let (case, kind) = gen_c23(rng, counter);
            kinds.borrow_mut().insert(vcommon::hash64(&case.prog), kind);
            case
        },
        |p, si| {
            let tag = |name: &str| p.case.tags.iter().find(|(n, _)| n == name).map(|(_, v)| *v).unwrap_or(-1);
            let long = tag("long_branch_node");
            if tag("handoffs_on_blocking_path") < 2 || long < 0 {
                return false;
            }
            let tr = trace(&p.case.prog, &p.case.scripts[si]);
            tr.iter().any(|t| t.get(long as usize).map(|o| o.iter().any(|port| !port.is_empty())).unwrap_or(false))
        },
        |p, _si| {
            let k = kinds.borrow().get(&vcommon::hash64(&p.case.prog)).cloned().unwrap_or_default();
            vec![format!("blocking:{k}")]
        },
    );
    let _ = C23_KINDS;
}
