//! Engine E4 `dfirsem`: generated `dfir_syntax!` programs vs. a reference interpreter
//! (C21, C23, C24), vs. shape-perturbed variants of themselves (C22), and template families for
//! references (C25) and loop blocks (C26). See DESIGN.md §2 (E4), §3.3, §4.

mod analysis;
mod batch;
mod c21;
mod c22;
mod c23;
mod c24;
mod c25;
mod c26;
mod compare;
mod emit;
mod gen;
mod interp;
mod ir;
mod known;
mod reduce;
mod rewrite;
mod sem;
mod shape;
mod templates;

use vcommon::{Args, Ctx};

fn main() {
    let args = Args::parse();
    let mut ctx = Ctx::new(args);
    if std::env::var("DFIRSEM_LOUD").is_err() {
        vcommon::quiet_panics();
    }
    let prop = ctx.prop().to_string();
    match prop.as_str() {
        "C21" => c21::run(&mut ctx),
        "C22" => c22::run(&mut ctx),
        "C23" => c23::run(&mut ctx),
        "C24" => c24::run(&mut ctx),
        "C25" => c25::run(&mut ctx),
        "C26" => c26::run(&mut ctx),
        _ => {
            eprintln!("dfirsem does not serve property {prop}");
            std::process::exit(2);
        }
    }
    ctx.finish();
}
